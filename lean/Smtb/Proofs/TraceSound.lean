import Smtb.Proofs.TraceSem
import Smtb.Circuit.Merkle
import Smtb.Circuit.Bits
import Smtb.Circuit.Main
import Smtb.Circuit.TraceHarness
import Smtb.Proofs.Bits
import Mathlib.Logic.Function.Basic
import Mathlib.Data.List.GetD
/-!
# The satisfiability semantics of a gadget equals the first-order semantics of its recorded trace

A simulation relation `Sim` between the `SatM p` run and the `TraceM` run of the same polymorphic
program: at a trace state `st` and an environment `env` (values of the wires allocated so far),
the Sat run accepts a continuation `k` iff `env` can be extended on the wire ids the trace run
allocates (`≥ st.next`, never reused) so that every line the trace run records holds and `k`
holds of the value of the returned operands.  One lemma per API operation, `pure`/`bind` lemmas,
then the gadgets by structural recursion on the program text.
-/
namespace Smtb.TraceSound
open Smtb Smtb.TraceSem Smtb.TraceHarness CircuitApi

variable {p : ℕ}

/-- run a trace computation from a state -/
def exec {β : Type} (y : TraceM β) (st : TState) : β × TState := y st

theorem nilAll {α : Type} {P : α → Prop} : ∀ l ∈ ([] : List α), P l :=
  fun _ h => (List.not_mem_nil h).elim

/-! ## scoping: which wire ids an operand / a line mentions -/

/-- every wire id mentioned is `< n` -/
def tvBnd (n : ℕ) : TV → Prop
  | .c _ => True
  | .v i => i < n

def lineBnd (n : ℕ) : TLine → Prop
  | .op r _ args => r < n ∧ ∀ a ∈ args, tvBnd n a
  | .toBinary first k a => first + k ≤ n ∧ tvBnd n a
  | .fromBinary r bs => r < n ∧ ∀ b ∈ bs, tvBnd n b
  | .assertBool a => tvBnd n a
  | .assertEq a b => tvBnd n a ∧ tvBnd n b
  | .call1 r _ _ args => r < n ∧ ∀ a ∈ args, tvBnd n a
  | .callN first k _ _ args => first + k ≤ n ∧ ∀ a ∈ args, tvBnd n a
  | .text _ => True

theorem tvBnd_mono {n n' : ℕ} (h : n ≤ n') {t : TV} (ht : tvBnd n t) : tvBnd n' t := by
  cases t with
  | c _ => trivial
  | v i => exact lt_of_lt_of_le ht h

theorem lineBnd_mono {n n' : ℕ} (h : n ≤ n') {l : TLine} (hl : lineBnd n l) : lineBnd n' l := by
  cases l with
  | op r name args => exact ⟨lt_of_lt_of_le hl.1 h, fun a ha => tvBnd_mono h (hl.2 a ha)⟩
  | toBinary first k a => exact ⟨le_trans hl.1 h, tvBnd_mono h hl.2⟩
  | fromBinary r bs => exact ⟨lt_of_lt_of_le hl.1 h, fun a ha => tvBnd_mono h (hl.2 a ha)⟩
  | assertBool a => exact tvBnd_mono h hl
  | assertEq a b => exact ⟨tvBnd_mono h hl.1, tvBnd_mono h hl.2⟩
  | call1 r name ps args => exact ⟨lt_of_lt_of_le hl.1 h, fun a ha => tvBnd_mono h (hl.2 a ha)⟩
  | callN first k name ps args => exact ⟨le_trans hl.1 h, fun a ha => tvBnd_mono h (hl.2 a ha)⟩
  | text s => trivial

theorem evalTV_congr {env env' : Env p} {n : ℕ} (h : ∀ i < n, env' i = env i) {t : TV}
    (ht : tvBnd n t) : evalTV env' t = evalTV env t := by
  cases t with
  | c _ => rfl
  | v i => exact h i ht

theorem map_evalTV_congr {env env' : Env p} {n : ℕ} (h : ∀ i < n, env' i = env i) {ts : List TV}
    (ht : ∀ t ∈ ts, tvBnd n t) : ts.map (evalTV env') = ts.map (evalTV env) :=
  List.map_congr_left fun t hm => evalTV_congr h (ht t hm)

theorem range_env_congr {env env' : Env p} {n : ℕ} (h : ∀ i < n, env' i = env i) {first k : ℕ}
    (hk : first + k ≤ n) :
    (List.range k).map (fun i => env' (first + i)) = (List.range k).map (fun i => env (first + i)) :=
  List.map_congr_left fun i hm => h _ (by have := List.mem_range.mp hm; omega)

/-- a line only looks at the wire ids it mentions -/
theorem denoteLine_congr (H : ZMod p → ZMod p → ZMod p) (K : List ℕ → List (ZMod p) → List (ZMod p))
    {env env' : Env p} {n : ℕ} (h : ∀ i < n, env' i = env i) {l : TLine} (hl : lineBnd n l) :
    denoteLine p H K env' l ↔ denoteLine p H K env l := by
  cases l with
  | op r name args =>
    obtain ⟨hr, ha⟩ := hl
    simp only [denoteLine, h r hr, map_evalTV_congr h ha]
  | toBinary first k a =>
    obtain ⟨hk, ha⟩ := hl
    simp only [denoteLine, range_env_congr h hk, evalTV_congr h ha]
    constructor
    · rintro ⟨h1, h2⟩
      exact ⟨fun i hi => by rw [← h _ (by omega)]; exact h1 i hi, h2⟩
    · rintro ⟨h1, h2⟩
      exact ⟨fun i hi => by rw [h _ (by omega)]; exact h1 i hi, h2⟩
  | fromBinary r bs =>
    obtain ⟨hr, hb⟩ := hl
    simp only [denoteLine, h r hr, map_evalTV_congr h hb]
    constructor
    · rintro ⟨h1, h2⟩
      exact ⟨fun b hm => by rw [← evalTV_congr h (hb b hm)]; exact h1 b hm, h2⟩
    · rintro ⟨h1, h2⟩
      exact ⟨fun b hm => by rw [evalTV_congr h (hb b hm)]; exact h1 b hm, h2⟩
  | assertBool a => simp only [denoteLine, evalTV_congr h hl]
  | assertEq a b => simp only [denoteLine, evalTV_congr h hl.1, evalTV_congr h hl.2]
  | call1 r name ps args =>
    obtain ⟨hr, ha⟩ := hl
    simp only [denoteLine, h r hr, map_evalTV_congr h ha]
  | callN first k name ps args =>
    obtain ⟨hk, ha⟩ := hl
    simp only [denoteLine, range_env_congr h hk, map_evalTV_congr h ha]
  | text s => exact Iff.rfl

/-! ## values: trace-level data evaluated in an environment -/

/-- trace-level data `β` (operands, lists of operands, …) denote Sat-level data `α` -/
class Ev (p : ℕ) (β : Type) (α : outParam Type) where
  ev : Env p → β → α
  bnd : ℕ → β → Prop
  ev_congr : ∀ {env env' : Env p} {n : ℕ} {b : β},
    (∀ i < n, env' i = env i) → bnd n b → ev env' b = ev env b
  bnd_mono : ∀ {n n' : ℕ} {b : β}, n ≤ n' → bnd n b → bnd n' b

instance : Ev p TV (ZMod p) where
  ev := evalTV
  bnd := tvBnd
  ev_congr := fun h hb => evalTV_congr h hb
  bnd_mono := fun h hb => tvBnd_mono h hb

instance : Ev p Unit Unit where
  ev := fun _ u => u
  bnd := fun _ _ => True
  ev_congr := fun _ _ => rfl
  bnd_mono := fun _ _ => trivial

instance {β α : Type} [Ev p β α] : Ev p (List β) (List α) where
  ev := fun env bs => bs.map (Ev.ev env)
  bnd := fun n bs => ∀ b ∈ bs, Ev.bnd p n b
  ev_congr := fun h hb => List.map_congr_left fun b hm => Ev.ev_congr h (hb b hm)
  bnd_mono := fun h hb b hm => Ev.bnd_mono h (hb b hm)

instance {β α β' α' : Type} [Ev p β α] [Ev p β' α'] : Ev p (β × β') (α × α') where
  ev := fun env b => (Ev.ev env b.1, Ev.ev env b.2)
  bnd := fun n b => Ev.bnd p n b.1 ∧ Ev.bnd p n b.2
  ev_congr := fun h hb => by rw [Ev.ev_congr h hb.1, Ev.ev_congr h hb.2]
  bnd_mono := fun h hb => ⟨Ev.bnd_mono h hb.1, Ev.bnd_mono h hb.2⟩

/-- `a` is the value of the trace-level datum `b`, which mentions only wires `< n` -/
structure Rel {β α : Type} [Ev p β α] (env : Env p) (n : ℕ) (a : α) (b : β) : Prop where
  bnd : Ev.bnd p n b
  eq : a = Ev.ev env b

/-- `env1` extends `env` beyond the first `n` wires; `n1` wires are now allocated -/
structure Ext (env : Env p) (n : ℕ) (env1 : Env p) (n1 : ℕ) : Prop where
  le : n ≤ n1
  agree : ∀ i < n, env1 i = env i

theorem Ext.refl (env : Env p) (n : ℕ) : Ext env n env n := ⟨le_rfl, fun _ _ => rfl⟩

theorem Ext.trans {env env1 env2 : Env p} {n n1 n2 : ℕ} (h1 : Ext env n env1 n1)
    (h2 : Ext env1 n1 env2 n2) : Ext env n env2 n2 :=
  ⟨le_trans h1.le h2.le, fun i hi => by rw [h2.agree i (lt_of_lt_of_le hi h1.le), h1.agree i hi]⟩

section rel
variable {β α : Type} [Ev p β α] {env env1 : Env p} {n n1 : ℕ}

theorem Rel.mono {a : α} {b : β} (h : Rel env n a b) (e : Ext env n env1 n1) : Rel env1 n1 a b :=
  ⟨Ev.bnd_mono e.le h.bnd, by rw [h.eq, Ev.ev_congr e.agree h.bnd]⟩

theorem Rel.ev_eq {a : α} {b : β} (h : Rel env n a b) {env' : Env p}
    (hag : ∀ i < n, env' i = env i) : Ev.ev env' b = a := by
  rw [h.eq, Ev.ev_congr hag h.bnd]

theorem Rel.of_bnd {b : β} (h : Ev.bnd p n b) : Rel env n (Ev.ev env b) b := ⟨h, rfl⟩

theorem Rel.nil : Rel env n ([] : List α) ([] : List β) := ⟨nilAll, rfl⟩

theorem Rel.cons {a : α} {b : β} {as : List α} {bs : List β} (h : Rel env n a b)
    (hs : Rel env n as bs) : Rel env n (a :: as) (b :: bs) :=
  ⟨fun x hx => by
    rcases List.mem_cons.mp hx with rfl | hx
    · exact h.bnd
    · exact hs.bnd x hx, by
    show a :: as = Ev.ev env b :: bs.map (Ev.ev env)
    rw [h.eq, hs.eq]; rfl⟩

theorem Rel.head {a : α} {b : β} {as : List α} {bs : List β} (h : Rel env n (a :: as) (b :: bs)) :
    Rel env n a b :=
  ⟨h.bnd b (List.mem_cons_self ..), (List.cons.inj h.eq).1⟩

theorem Rel.tail {a : α} {b : β} {as : List α} {bs : List β} (h : Rel env n (a :: as) (b :: bs)) :
    Rel env n as bs :=
  ⟨fun x hx => h.bnd x (List.mem_cons_of_mem _ hx), (List.cons.inj h.eq).2⟩

theorem Rel.length_eq {as : List α} {bs : List β} (h : Rel env n as bs) : as.length = bs.length := by
  rw [h.eq]; exact List.length_map ..

/-- destructuring a related pair of lists along the trace-side list -/
theorem Rel.cons_right {as : List α} {b : β} {bs : List β} (h : Rel env n as (b :: bs)) :
    ∃ a as', as = a :: as' ∧ Rel env n a b ∧ Rel env n as' bs := by
  refine ⟨Ev.ev env b, bs.map (Ev.ev env), h.eq, ⟨h.bnd b (List.mem_cons_self ..), rfl⟩,
    ⟨fun x hx => h.bnd x (List.mem_cons_of_mem _ hx), rfl⟩⟩

theorem Rel.nil_right {as : List α} (h : Rel env n as ([] : List β)) : as = [] := h.eq

theorem Rel.append {as as' : List α} {bs bs' : List β} (h : Rel env n as bs)
    (h' : Rel env n as' bs') : Rel env n (as ++ as') (bs ++ bs') :=
  ⟨fun x hx => by
    rcases List.mem_append.mp hx with hx | hx
    · exact h.bnd x hx
    · exact h'.bnd x hx, by
    show _ = (bs ++ bs').map (Ev.ev env)
    rw [List.map_append, h.eq, h'.eq]; rfl⟩

theorem Rel.take {as : List α} {bs : List β} (h : Rel env n as bs) (k : ℕ) :
    Rel env n (as.take k) (bs.take k) :=
  ⟨fun x hx => h.bnd x (List.mem_of_mem_take hx), by
    show _ = (bs.take k).map (Ev.ev env)
    rw [List.map_take, h.eq]; rfl⟩

theorem Rel.reverse {as : List α} {bs : List β} (h : Rel env n as bs) :
    Rel env n as.reverse bs.reverse :=
  ⟨fun x hx => h.bnd x (List.mem_reverse.mp hx), by
    show _ = bs.reverse.map (Ev.ev env)
    rw [List.map_reverse, h.eq]; rfl⟩

theorem Rel.getD {as : List α} {bs : List β} (h : Rel env n as bs) {a0 : α} {b0 : β}
    (h0 : Rel env n a0 b0) (k : ℕ) : Rel env n (as.getD k a0) (bs.getD k b0) := by
  refine ⟨?_, ?_⟩
  · by_cases hk : k < bs.length
    · rw [List.getD_eq_getElem _ _ hk]; exact h.bnd _ (List.getElem_mem hk)
    · rw [List.getD_eq_default _ _ (Nat.le_of_not_lt hk)]; exact h0.bnd
  · rw [h.eq, h0.eq]
    show (bs.map (Ev.ev env)).getD k _ = _
    rw [List.getD_map]

theorem Rel.flatten {as : List (List α)} {bs : List (List β)} (h : Rel env n as bs) :
    Rel env n as.flatten bs.flatten :=
  ⟨fun x hx => by
    obtain ⟨l, hl, hxl⟩ := List.mem_flatten.mp hx
    exact h.bnd l hl x hxl, by
    rw [h.eq]
    show (bs.map fun l => l.map (Ev.ev env)).flatten = bs.flatten.map (Ev.ev env)
    rw [List.map_flatten]⟩

end rel

theorem Rel.const (env : Env p) (n c : ℕ) :
    Rel env n (CircuitApi.const (m := SatM p) c) (CircuitApi.const (m := TraceM) c) :=
  ⟨trivial, rfl⟩

/-! ## the simulation relation -/

section sim
variable (H : ZMod p → ZMod p → ZMod p) (K : List ℕ → List (ZMod p) → List (ZMod p))
variable (names : List String)

/-- At state `st` (with the fixed list of opaque gadget names) and environment `env`, the trace
run of `y` allocates wires `st.next ≤ · < st'.next`, records the lines `new` (most recent first)
mentioning only wires `< st'.next`, and the Sat run of `x` accepts `k` iff `env` can be extended
on the new wires so that the new lines hold and `k` holds of the value of `y`'s result. -/
def Sim {β α : Type} [Ev p β α] (env : Env p) (st : TState) (x : SatM p α) (y : TraceM β) : Prop :=
  st.opaqueNames = names →
  ∃ new : List TLine,
    (exec y st).2.lines = new ++ st.lines ∧ (exec y st).2.opaqueNames = names ∧
    st.next ≤ (exec y st).2.next ∧
    (∀ l ∈ new, lineBnd (exec y st).2.next l) ∧ Ev.bnd p (exec y st).2.next (exec y st).1 ∧
    ∀ k : α → Prop, x k ↔
      ∃ env' : Env p, (∀ i < st.next, env' i = env i) ∧ (∀ l ∈ new, denoteLine p H K env' l) ∧
        k (Ev.ev env' (exec y st).1)

variable {H K names}
variable {env : Env p} {st : TState}

theorem Sim_pure {β α : Type} [Ev p β α] {a : α} {b : β} (h : Rel env st.next a b) :
    Sim H K names env st (pure a) (pure b) := by
  intro hn
  refine ⟨[], rfl, hn, le_rfl, nilAll, h.bnd, fun k => ?_⟩
  show k a ↔ _
  constructor
  · intro hk
    exact ⟨env, fun _ _ => rfl, nilAll, by rw [h.eq] at hk; exact hk⟩
  · rintro ⟨env', hag, -, hk⟩
    have : Ev.ev env' b = a := h.ev_eq hag
    exact this ▸ hk

theorem Sim_bind {β α δ γ : Type} [Ev p β α] [Ev p δ γ] {x : SatM p α} {y : TraceM β}
    {f : α → SatM p γ} {g : β → TraceM δ}
    (hx : Sim H K names env st x y)
    (hf : ∀ (env1 : Env p) (st1 : TState) (a : α) (b : β), Ext env st.next env1 st1.next →
      Rel env1 st1.next a b → Sim H K names env1 st1 (f a) (g b)) :
    Sim H K names env st (x >>= f) (y >>= g) := by
  intro hn
  obtain ⟨new1, hl1, ho1, hle1, hb1, hbr1, hx⟩ := hx hn
  have hexec : exec (y >>= g) st = exec (g (exec y st).1) (exec y st).2 := rfl
  obtain ⟨new2, hl2, ho2, hle2, hb2, hbr2, -⟩ :=
    hf env (exec y st).2 (Ev.ev env (exec y st).1) (exec y st).1 ⟨hle1, fun _ _ => rfl⟩ ⟨hbr1, rfl⟩ ho1
  rw [hexec]
  refine ⟨new2 ++ new1, by rw [hl2, hl1, List.append_assoc], ho2, le_trans hle1 hle2, ?_, hbr2, ?_⟩
  · intro l hl
    rcases List.mem_append.mp hl with h | h
    · exact hb2 l h
    · exact lineBnd_mono hle2 (hb1 l h)
  · intro k
    show x (fun a => f a k) ↔ _
    rw [hx]
    constructor
    · rintro ⟨env1, hag1, hd1, hfk⟩
      obtain ⟨new2', hl2', -, -, -, -, hf'⟩ :=
        hf env1 (exec y st).2 (Ev.ev env1 (exec y st).1) (exec y st).1 ⟨hle1, hag1⟩ ⟨hbr1, rfl⟩ ho1
      have hnew : new2' = new2 := List.append_cancel_right (hl2'.symm.trans hl2)
      subst hnew
      obtain ⟨env2, hag2, hd2, hk⟩ := (hf' k).mp hfk
      refine ⟨env2, fun i hi => by rw [hag2 i (lt_of_lt_of_le hi hle1), hag1 i hi], ?_, hk⟩
      intro l hl
      rcases List.mem_append.mp hl with h | h
      · exact hd2 l h
      · exact (denoteLine_congr H K hag2 (hb1 l h)).mpr (hd1 l h)
    · rintro ⟨env2, hag, hd, hk⟩
      refine ⟨env2, hag, fun l hl => hd l (List.mem_append_right _ hl), ?_⟩
      obtain ⟨new2', hl2', -, -, -, -, hf'⟩ :=
        hf env2 (exec y st).2 (Ev.ev env2 (exec y st).1) (exec y st).1 ⟨hle1, hag⟩ ⟨hbr1, rfl⟩ ho1
      have hnew : new2' = new2 := List.append_cancel_right (hl2'.symm.trans hl2)
      subst hnew
      exact (hf' k).mpr ⟨env2, fun _ _ => rfl, fun l hl => hd l (List.mem_append_left _ hl), hk⟩

/-! ## one lemma per shape of API operation -/

/-- an operation that allocates one wire and records one line about it -/
theorem sim_alloc1 {x : SatM p (ZMod p)} {y : TraceM TV} (L : TLine) (D : ZMod p → Prop)
    (hy : st.opaqueNames = names →
      exec y st = (.v st.next, { st with next := st.next + 1, lines := L :: st.lines }))
    (hL : lineBnd (st.next + 1) L)
    (hD : ∀ env' : Env p, (∀ i < st.next, env' i = env i) →
      (denoteLine p H K env' L ↔ D (env' st.next)))
    (hx : ∀ k, x k ↔ ∃ r, D r ∧ k r) : Sim H K names env st x y := by
  intro hn
  rw [hy hn]
  refine ⟨[L], rfl, hn, Nat.le_succ _, ?_, ?_, ?_⟩
  · intro l hl
    rw [List.mem_singleton] at hl
    subst hl; exact hL
  · exact Nat.lt_succ_self _
  · intro k
    rw [hx]
    constructor
    · rintro ⟨r, hr, hk⟩
      have hag : ∀ i < st.next, Function.update env st.next r i = env i :=
        fun i hi => Function.update_of_ne (ne_of_lt hi) _ _
      refine ⟨Function.update env st.next r, hag, ?_, ?_⟩
      · intro l hl
        rw [List.mem_singleton] at hl
        subst hl
        rw [hD _ hag, Function.update_self]; exact hr
      · show k (Function.update env st.next r st.next)
        rw [Function.update_self]; exact hk
    · rintro ⟨env', hag, hd, hk⟩
      exact ⟨env' st.next, (hD env' hag).mp (hd L (List.mem_singleton.mpr rfl)), hk⟩

/-- an operation that allocates `n` consecutive wires and records one line about them -/
theorem sim_allocN {x : SatM p (List (ZMod p))} {y : TraceM (List TV)} (n : ℕ) (L : TLine)
    (D : List (ZMod p) → Prop)
    (hy : st.opaqueNames = names →
      exec y st = ((List.range n).map (fun i => TV.v (st.next + i)),
        { st with next := st.next + n, lines := L :: st.lines }))
    (hL : lineBnd (st.next + n) L)
    (hD : ∀ env' : Env p, (∀ i < st.next, env' i = env i) →
      (denoteLine p H K env' L ↔ D ((List.range n).map fun i => env' (st.next + i))))
    (hx : ∀ k, x k ↔ ∃ rs : List (ZMod p), rs.length = n ∧ D rs ∧ k rs) :
    Sim H K names env st x y := by
  intro hn
  rw [hy hn]
  have hev : ∀ env' : Env p, Ev.ev env' ((List.range n).map (fun i => TV.v (st.next + i)))
      = (List.range n).map fun i => env' (st.next + i) := by
    intro env'
    show ((List.range n).map (fun i => TV.v (st.next + i))).map (evalTV env') = _
    rw [List.map_map]; rfl
  refine ⟨[L], rfl, hn, Nat.le_add_right _ _, ?_, ?_, ?_⟩
  · intro l hl
    rw [List.mem_singleton] at hl
    subst hl; exact hL
  · intro t ht
    obtain ⟨i, hi, rfl⟩ := List.mem_map.mp ht
    have := List.mem_range.mp hi
    show st.next + i < st.next + n
    omega
  · intro k
    rw [hx]
    constructor
    · rintro ⟨rs, hlen, hr, hk⟩
      let env' : Env p := fun i => if st.next ≤ i then rs.getD (i - st.next) (env i) else env i
      have hag : ∀ i < st.next, env' i = env i := fun i hi => by
        show (if st.next ≤ i then _ else _) = _
        rw [if_neg (by omega)]
      have hrs : (List.range n).map (fun i => env' (st.next + i)) = rs := by
        apply List.ext_getElem
        · simp [hlen]
        · intro i h1 h2
          simp only [List.getElem_map, List.getElem_range]
          show (if st.next ≤ st.next + i then _ else _) = _
          rw [if_pos (by omega), Nat.add_sub_cancel_left, List.getD_eq_getElem _ _ h2]
      refine ⟨env', hag, ?_, ?_⟩
      · intro l hl
        rw [List.mem_singleton] at hl
        subst hl
        rw [hD _ hag, hrs]; exact hr
      · rw [hev, hrs]; exact hk
    · rintro ⟨env', hag, hd, hk⟩
      refine ⟨(List.range n).map fun i => env' (st.next + i), by simp,
        (hD env' hag).mp (hd L (List.mem_singleton.mpr rfl)), ?_⟩
      rw [hev] at hk; exact hk

/-- an assertion: records one line, allocates nothing -/
theorem sim_emit {x : SatM p Unit} {y : TraceM Unit} (L : TLine) (D : Prop)
    (hy : exec y st = ((), { st with lines := L :: st.lines }))
    (hL : lineBnd st.next L)
    (hD : ∀ env' : Env p, (∀ i < st.next, env' i = env i) → (denoteLine p H K env' L ↔ D))
    (hx : ∀ k, x k ↔ D ∧ k ()) : Sim H K names env st x y := by
  intro hn
  rw [hy]
  refine ⟨[L], rfl, hn, le_rfl, ?_, trivial, ?_⟩
  · intro l hl
    rw [List.mem_singleton] at hl
    subst hl; exact hL
  · intro k
    rw [hx]
    constructor
    · rintro ⟨hd, hk⟩
      refine ⟨env, fun _ _ => rfl, ?_, hk⟩
      intro l hl
      rw [List.mem_singleton] at hl
      subst hl
      exact (hD env fun _ _ => rfl).mpr hd
    · rintro ⟨env', hag, hd, hk⟩
      exact ⟨(hD env' hag).mp (hd L (List.mem_singleton.mpr rfl)), hk⟩

/-! ## the gate table -/

/-- generic arithmetic/boolean gate: `TraceM.op name targs` against any Sat gate whose semantics
is "there is a result wire `r` with `denoteOp name r args`" -/
theorem sim_op (name : String) {args : List (ZMod p)} {targs : List TV}
    (hargs : Rel env st.next args targs) {x : SatM p (ZMod p)}
    (hx : ∀ k, x k ↔ ∃ r, denoteOp name r args ∧ k r) :
    Sim H K names env st x (TraceM.op name targs) := by
  refine sim_alloc1 (.op st.next name targs) (fun r => denoteOp name r args) (fun _ => rfl)
    ⟨Nat.lt_succ_self _, fun a ha => tvBnd_mono (Nat.le_succ _) (hargs.bnd a ha)⟩ ?_ hx
  intro env' hag
  show denoteOp name (env' st.next) (targs.map (evalTV env')) ↔ _
  have : targs.map (evalTV env') = args := hargs.ev_eq hag
  rw [this]

section gates
variable {a b c : ZMod p} {ta tb tc : TV}

theorem sim_add (ha : Rel env st.next a ta) (hb : Rel env st.next b tb) :
    Sim H K names env st (add a b) (add ta tb) :=
  sim_op "add" (ha.cons (hb.cons Rel.nil)) fun k =>
    ⟨fun h => ⟨_, rfl, h⟩, by rintro ⟨r, hr, hk⟩; change r = a + b at hr; subst hr; exact hk⟩

theorem sim_sub (ha : Rel env st.next a ta) (hb : Rel env st.next b tb) :
    Sim H K names env st (sub a b) (sub ta tb) :=
  sim_op "sub" (ha.cons (hb.cons Rel.nil)) fun k =>
    ⟨fun h => ⟨_, rfl, h⟩, by rintro ⟨r, hr, hk⟩; change r = a - b at hr; subst hr; exact hk⟩

theorem sim_mul (ha : Rel env st.next a ta) (hb : Rel env st.next b tb) :
    Sim H K names env st (mul a b) (mul ta tb) :=
  sim_op "mul" (ha.cons (hb.cons Rel.nil)) fun k =>
    ⟨fun h => ⟨_, rfl, h⟩, by rintro ⟨r, hr, hk⟩; change r = a * b at hr; subst hr; exact hk⟩

theorem sim_select (hc : Rel env st.next c tc) (ha : Rel env st.next a ta)
    (hb : Rel env st.next b tb) : Sim H K names env st (select c a b) (select tc ta tb) :=
  sim_op "select" (hc.cons (ha.cons (hb.cons Rel.nil))) fun k =>
    ⟨fun h => ⟨_, ⟨h.1, rfl⟩, h.2⟩, by
      rintro ⟨r, hr, hk⟩; change isBool c ∧ r = b + c * (a - b) at hr
      obtain ⟨h1, rfl⟩ := hr; exact ⟨h1, hk⟩⟩

theorem sim_isZero (ha : Rel env st.next a ta) :
    Sim H K names env st (isZero a) (isZero ta) :=
  sim_op "iszero" (ha.cons Rel.nil) fun k =>
    ⟨fun ⟨x, m, h1, h2, hk⟩ => ⟨m, ⟨x, h1, h2⟩, hk⟩, by
      rintro ⟨r, hr, hk⟩; change ∃ x : ZMod p, r = 1 - a * x ∧ a * r = 0 at hr
      obtain ⟨x, h1, h2⟩ := hr; exact ⟨x, r, h1, h2, hk⟩⟩

theorem sim_or (ha : Rel env st.next a ta) (hb : Rel env st.next b tb) :
    Sim H K names env st (or_ a b) (or_ ta tb) :=
  sim_op "or" (ha.cons (hb.cons Rel.nil)) fun k =>
    ⟨fun h => ⟨_, ⟨h.1, h.2.1, rfl⟩, h.2.2⟩, by
      rintro ⟨r, hr, hk⟩; change isBool a ∧ isBool b ∧ r = a + b - a * b at hr
      obtain ⟨h1, h2, rfl⟩ := hr; exact ⟨h1, h2, hk⟩⟩

theorem sim_xor (ha : Rel env st.next a ta) (hb : Rel env st.next b tb) :
    Sim H K names env st (xor_ a b) (xor_ ta tb) :=
  sim_op "xor" (ha.cons (hb.cons Rel.nil)) fun k =>
    ⟨fun h => ⟨_, ⟨h.1, h.2.1, rfl⟩, h.2.2⟩, by
      rintro ⟨r, hr, hk⟩; change isBool a ∧ isBool b ∧ r = a + b - 2 * a * b at hr
      obtain ⟨h1, h2, rfl⟩ := hr; exact ⟨h1, h2, hk⟩⟩

theorem sim_and (ha : Rel env st.next a ta) (hb : Rel env st.next b tb) :
    Sim H K names env st (and_ a b) (and_ ta tb) :=
  sim_op "and" (ha.cons (hb.cons Rel.nil)) fun k =>
    ⟨fun h => ⟨_, ⟨h.1, h.2.1, rfl⟩, h.2.2⟩, by
      rintro ⟨r, hr, hk⟩; change isBool a ∧ isBool b ∧ r = a * b at hr
      obtain ⟨h1, h2, rfl⟩ := hr; exact ⟨h1, h2, hk⟩⟩

theorem sim_toBinary (ha : Rel env st.next a ta) (n : ℕ) :
    Sim H K names env st (toBinary a n) (toBinary ta n) := by
  refine sim_allocN n (.toBinary st.next n ta)
    (fun rs => (∀ r ∈ rs, isBool r) ∧ recompose rs = a) (fun _ => rfl)
    ⟨le_rfl, tvBnd_mono (Nat.le_add_right _ _) ha.bnd⟩ ?_ ?_
  · intro env' hag
    have hta : evalTV env' ta = a := ha.ev_eq hag
    show (∀ i < n, isBool (env' (st.next + i))) ∧ _ = evalTV env' ta ↔ _
    rw [hta]
    refine and_congr ?_ Iff.rfl
    constructor
    · intro h r hr
      obtain ⟨i, hi, rfl⟩ := List.mem_map.mp hr
      exact h i (List.mem_range.mp hi)
    · intro h i hi
      exact h _ (List.mem_map.mpr ⟨i, List.mem_range.mpr hi, rfl⟩)
  · intro k
    rw [Sat.toBinary_def]
    constructor
    · rintro ⟨bits, h1, h2, h3, h4⟩; exact ⟨bits, h1, ⟨h2, h3⟩, h4⟩
    · rintro ⟨bits, h1, ⟨h2, h3⟩, h4⟩; exact ⟨bits, h1, h2, h3, h4⟩

theorem sim_fromBinary {bs : List (ZMod p)} {tbs : List TV} (hbs : Rel env st.next bs tbs) :
    Sim H K names env st (fromBinary bs) (fromBinary tbs) := by
  refine sim_alloc1 (.fromBinary st.next tbs)
    (fun r => (∀ b ∈ bs, isBool b) ∧ r = recompose bs) (fun _ => rfl)
    ⟨Nat.lt_succ_self _, fun t ht => tvBnd_mono (Nat.le_succ _) (hbs.bnd t ht)⟩ ?_ ?_
  · intro env' hag
    have hm : tbs.map (evalTV env') = bs := hbs.ev_eq hag
    show (∀ b ∈ tbs, isBool (evalTV env' b)) ∧ env' st.next = recompose (tbs.map (evalTV env')) ↔ _
    rw [hm]
    refine and_congr ?_ Iff.rfl
    rw [← hm]
    constructor
    · intro h b hb
      obtain ⟨t, ht, rfl⟩ := List.mem_map.mp hb
      exact h t ht
    · intro h t ht
      exact h _ (List.mem_map.mpr ⟨t, ht, rfl⟩)
  · intro k
    rw [Sat.fromBinary_iff]
    constructor
    · rintro ⟨h1, h2⟩; exact ⟨_, ⟨h1, rfl⟩, h2⟩
    · rintro ⟨r, ⟨h1, rfl⟩, h2⟩; exact ⟨h1, h2⟩

theorem sim_assertBool (ha : Rel env st.next a ta) :
    Sim H K names env st (assertBool a) (assertBool ta) := by
  refine sim_emit (.assertBool ta) (isBool a) rfl ha.bnd ?_ fun k => Iff.rfl
  intro env' hag
  have hta : evalTV env' ta = a := ha.ev_eq hag
  show isBool (evalTV env' ta) ↔ _
  rw [hta]

theorem sim_assertEq (ha : Rel env st.next a ta) (hb : Rel env st.next b tb) :
    Sim H K names env st (assertEq a b) (assertEq ta tb) := by
  refine sim_emit (.assertEq ta tb) (a = b) rfl ⟨ha.bnd, hb.bnd⟩ ?_ fun k => Iff.rfl
  intro env' hag
  have hta : evalTV env' ta = a := ha.ev_eq hag
  have htb : evalTV env' tb = b := hb.ev_eq hag
  show evalTV env' ta = evalTV env' tb ↔ _
  rw [hta, htb]

end gates

/-! ## opaque gadgets -/

theorem exec_opaque1 (name : String) (params : List ℕ) (args : List TV) (body : TraceM TV)
    (st : TState) (h : name ∈ st.opaqueNames) :
    exec (opaque1 (m := TraceM) name params args body) st =
      (.v st.next,
        { st with next := st.next + 1, lines := .call1 st.next name params args :: st.lines }) := by
  have hc : st.opaqueNames.contains name = true := List.contains_iff_mem.mpr h
  show (if st.opaqueNames.contains name = true then _ else _ : TraceM TV) st = _
  rw [if_pos hc]; rfl

theorem exec_opaqueN (name : String) (params : List ℕ) (args : List TV) (n : ℕ)
    (body : TraceM (List TV)) (st : TState) (h : name ∈ st.opaqueNames) :
    exec (opaqueN (m := TraceM) name params args n body) st =
      ((List.range n).map (fun i => TV.v (st.next + i)),
        { st with next := st.next + n, lines := .callN st.next n name params args :: st.lines }) := by
  have hc : st.opaqueNames.contains name = true := List.contains_iff_mem.mpr h
  show (if st.opaqueNames.contains name = true then _ else _ : TraceM (List TV)) st = _
  rw [if_pos hc]; rfl

/-- `Poseidon2` kept opaque on the trace side (it records a `call1` line) against any Sat-side
gadget that computes `H` -/
theorem sim_poseidon2 (hmem : "Poseidon2" ∈ names)
    {hash2 : ZMod p → ZMod p → SatM p (ZMod p)} (hH : ∀ a b k, hash2 a b k ↔ k (H a b))
    {a b : ZMod p} {ta tb : TV} (ha : Rel env st.next a ta) (hb : Rel env st.next b tb) :
    Sim H K names env st (hash2 a b) (Circuit.Poseidon.poseidon2 ta tb) := by
  refine sim_alloc1 (.call1 st.next "Poseidon2" [] [ta, tb]) (fun r => r = H a b)
    (fun hn => exec_opaque1 _ _ _ _ st (hn ▸ hmem))
    ⟨Nat.lt_succ_self _, fun t ht => tvBnd_mono (Nat.le_succ _) ((ha.cons (hb.cons Rel.nil)).bnd t ht)⟩
    ?_ ?_
  · intro env' hag
    have hta : evalTV env' ta = a := ha.ev_eq hag
    have htb : evalTV env' tb = b := hb.ev_eq hag
    show env' st.next = H (evalTV env' ta) (evalTV env' tb) ↔ _
    rw [hta, htb]
  · intro k
    rw [hH]
    exact ⟨fun h => ⟨_, rfl, h⟩, by rintro ⟨r, rfl, hk⟩; exact hk⟩

end sim

/-! ## Merkle gadgets -/

section merkle
open Smtb.Circuit
variable {H : ZMod p → ZMod p → ZMod p} {K : List ℕ → List (ZMod p) → List (ZMod p)}
variable {names : List String} (hmem : "Poseidon2" ∈ names)
variable {hash2 : ZMod p → ZMod p → SatM p (ZMod p)} (hH : ∀ a b k, hash2 a b k ↔ k (H a b))
include hmem hH

theorem sim_proofRound {env : Env p} {st : TState} {d h s : ZMod p} {td th ts : TV}
    (hd : Rel env st.next d td) (hh : Rel env st.next h th) (hs : Rel env st.next s ts) :
    Sim H K names env st (proofRound hash2 d h s) (proofRound Poseidon.poseidon2 td th ts) := by
  unfold proofRound
  refine Sim_bind (sim_assertBool hd) fun env1 st1 _ _ e1 _ => ?_
  refine Sim_bind (sim_select (hd.mono e1) (hh.mono e1) (hs.mono e1)) fun env2 st2 d1 td1 e2 h1 => ?_
  have e12 := e1.trans e2
  refine Sim_bind (sim_select (hd.mono e12) (hs.mono e12) (hh.mono e12)) fun env3 st3 d2 td2 e3 h2 => ?_
  exact sim_poseidon2 hmem hH (h1.mono e3) h2

theorem sim_verifyProofLoop {env : Env p} {st : TState} {sum : ZMod p} {tsum : TV}
    {sibs path : List (ZMod p)} {tsibs tpath : List TV}
    (hsum : Rel env st.next sum tsum) (hsibs : Rel env st.next sibs tsibs)
    (hpath : Rel env st.next path tpath) :
    Sim H K names env st (verifyProofLoop hash2 sum sibs path)
      (verifyProofLoop Poseidon.poseidon2 tsum tsibs tpath) := by
  induction tsibs generalizing env st sum tsum sibs path tpath with
  | nil =>
    have := hsibs.nil_right; subst this
    simp only [verifyProofLoop]
    exact Sim_pure hsum
  | cons ts tsibs ih =>
    obtain ⟨s, sibs', rfl, hs, hsibs'⟩ := hsibs.cons_right
    cases tpath with
    | nil =>
      have := hpath.nil_right; subst this
      simp only [verifyProofLoop]
      exact Sim_pure hsum
    | cons td tpath =>
      obtain ⟨d, path', rfl, hd, hpath'⟩ := hpath.cons_right
      simp only [verifyProofLoop]
      refine Sim_bind (sim_proofRound hmem hH hd hs hsum) fun env1 st1 sum' tsum' e1 h1 => ?_
      exact ih h1 (hsibs'.mono e1) (hpath'.mono e1)

theorem sim_verifyProof {env : Env p} {st : TState} {leaf : ZMod p} {tleaf : TV}
    {sibs path : List (ZMod p)} {tsibs tpath : List TV}
    (hleaf : Rel env st.next leaf tleaf) (hsibs : Rel env st.next sibs tsibs)
    (hpath : Rel env st.next path tpath) :
    Sim H K names env st (verifyProof hash2 leaf sibs path)
      (verifyProof Poseidon.poseidon2 tleaf tsibs tpath) :=
  sim_verifyProofLoop hmem hH hleaf hsibs hpath

theorem sim_insertionRound {env : Env p} {st : TState} (depth : ℕ) {idx item prev : ZMod p}
    {tidx titem tprev : TV} {proof : List (ZMod p)} {tproof : List TV}
    (hidx : Rel env st.next idx tidx) (hitem : Rel env st.next item titem)
    (hprev : Rel env st.next prev tprev) (hproof : Rel env st.next proof tproof) :
    Sim H K names env st (insertionRound hash2 depth idx item prev proof)
      (insertionRound Poseidon.poseidon2 depth tidx titem tprev tproof) := by
  unfold insertionRound
  refine Sim_bind (sim_toBinary hidx depth) fun env1 st1 path tpath e1 hp => ?_
  refine Sim_bind (sim_verifyProof hmem hH (Rel.const _ _ _) (hproof.mono e1) hp)
    fun env2 st2 root troot e2 hr => ?_
  have e12 := e1.trans e2
  refine Sim_bind (sim_assertEq hr (hprev.mono e12)) fun env3 st3 _ _ e3 _ => ?_
  have e13 := e12.trans e3
  exact sim_verifyProof hmem hH (hitem.mono e13) (hproof.mono e13) (hp.mono (e2.trans e3))

theorem sim_insertionProofLoop {env : Env p} {st : TState} (depth : ℕ) {start : ZMod p} {tstart : TV}
    (i : ℕ) {prev : ZMod p} {tprev : TV} {ids : List (ZMod p)} {tids : List TV}
    {proofs : List (List (ZMod p))} {tproofs : List (List TV)}
    (hstart : Rel env st.next start tstart) (hprev : Rel env st.next prev tprev)
    (hids : Rel env st.next ids tids) (hproofs : Rel env st.next proofs tproofs) :
    Sim H K names env st (insertionProofLoop hash2 depth start i prev ids proofs)
      (insertionProofLoop Poseidon.poseidon2 depth tstart i tprev tids tproofs) := by
  induction tids generalizing env st i prev tprev ids proofs tproofs with
  | nil =>
    have := hids.nil_right; subst this
    simp only [insertionProofLoop]
    exact Sim_pure hprev
  | cons tid tids ih =>
    obtain ⟨id, ids', rfl, hid, hids'⟩ := hids.cons_right
    cases tproofs with
    | nil =>
      have := hproofs.nil_right; subst this
      simp only [insertionProofLoop]
      exact Sim_pure hprev
    | cons tprf tproofs =>
      obtain ⟨prf, proofs', rfl, hprf, hproofs'⟩ := hproofs.cons_right
      simp only [insertionProofLoop]
      refine Sim_bind (sim_add hstart (Rel.const _ _ _)) fun env1 st1 ci tci e1 hci => ?_
      refine Sim_bind (sim_insertionRound hmem hH depth hci (hid.mono e1) (hprev.mono e1) (hprf.mono e1))
        fun env2 st2 root troot e2 hr => ?_
      have e12 := e1.trans e2
      exact ih (i + 1) (hstart.mono e12) hr (hids'.mono e12) (hproofs'.mono e12)

theorem sim_insertionProof {env : Env p} {st : TState} (depth : ℕ) {start pre : ZMod p}
    {tstart tpre : TV} {ids : List (ZMod p)} {tids : List TV}
    {proofs : List (List (ZMod p))} {tproofs : List (List TV)}
    (hstart : Rel env st.next start tstart) (hpre : Rel env st.next pre tpre)
    (hids : Rel env st.next ids tids) (hproofs : Rel env st.next proofs tproofs) :
    Sim H K names env st (insertionProof hash2 depth start pre ids proofs)
      (insertionProof Poseidon.poseidon2 depth tstart tpre tids tproofs) :=
  sim_insertionProofLoop hmem hH depth 0 hstart hpre hids hproofs

theorem sim_deletionRound {env : Env p} {st : TState} (depth : ℕ) {root idx item : ZMod p}
    {troot tidx titem : TV} {proof : List (ZMod p)} {tproof : List TV}
    (hroot : Rel env st.next root troot) (hidx : Rel env st.next idx tidx)
    (hitem : Rel env st.next item titem) (hproof : Rel env st.next proof tproof) :
    Sim H K names env st (deletionRound hash2 depth root idx item proof)
      (deletionRound Poseidon.poseidon2 depth troot tidx titem tproof) := by
  unfold deletionRound
  refine Sim_bind (sim_toBinary hidx (depth + 1)) fun env1 st1 bits tbits e1 hb => ?_
  have hskip := hb.getD (Rel.const env1 st1.next 0) depth
  have hpath := hb.take depth
  refine Sim_bind (sim_verifyProof hmem hH (hitem.mono e1) (hproof.mono e1) hpath)
    fun env2 st2 pre tpre e2 hpre => ?_
  have e12 := e1.trans e2
  refine Sim_bind (sim_verifyProof hmem hH (Rel.const _ _ _) (hproof.mono e12) (hpath.mono e2))
    fun env3 st3 post tpost e3 hpost => ?_
  have e13 := e12.trans e3
  refine Sim_bind (sim_sub (hpre.mono e3) (hroot.mono e13)) fun env4 st4 diff tdiff e4 hdiff => ?_
  have e14 := e13.trans e4
  refine Sim_bind (sim_isZero hdiff) fun env5 st5 ok tok e5 hok => ?_
  have e15 := e14.trans e5
  have e25 := ((e2.trans e3).trans e4).trans e5
  refine Sim_bind (sim_or hok (hskip.mono e25)) fun env6 st6 oks toks e6 hoks => ?_
  refine Sim_bind (sim_assertEq hoks (Rel.const _ _ _)) fun env7 st7 _ _ e7 _ => ?_
  have e67 := e6.trans e7
  exact sim_select (hskip.mono (e25.trans e67)) (hroot.mono (e15.trans e67))
    (hpost.mono ((e4.trans e5).trans e67))

theorem sim_deletionProofLoop {env : Env p} {st : TState} (depth : ℕ) {root : ZMod p} {troot : TV}
    {idxs ids : List (ZMod p)} {tidxs tids : List TV}
    {proofs : List (List (ZMod p))} {tproofs : List (List TV)}
    (hroot : Rel env st.next root troot) (hidxs : Rel env st.next idxs tidxs)
    (hids : Rel env st.next ids tids) (hproofs : Rel env st.next proofs tproofs) :
    Sim H K names env st (deletionProofLoop hash2 depth root idxs ids proofs)
      (deletionProofLoop Poseidon.poseidon2 depth troot tidxs tids tproofs) := by
  induction tidxs generalizing env st root troot idxs ids tids proofs tproofs with
  | nil =>
    have := hidxs.nil_right; subst this
    simp only [deletionProofLoop]
    exact Sim_pure hroot
  | cons tidx tidxs ih =>
    obtain ⟨idx, idxs', rfl, hidx, hidxs'⟩ := hidxs.cons_right
    cases tids with
    | nil =>
      have := hids.nil_right; subst this
      simp only [deletionProofLoop]
      exact Sim_pure hroot
    | cons tid tids =>
      obtain ⟨id, ids', rfl, hid, hids'⟩ := hids.cons_right
      cases tproofs with
      | nil =>
        have := hproofs.nil_right; subst this
        simp only [deletionProofLoop]
        exact Sim_pure hroot
      | cons tprf tproofs =>
        obtain ⟨prf, proofs', rfl, hprf, hproofs'⟩ := hproofs.cons_right
        simp only [deletionProofLoop]
        refine Sim_bind (sim_deletionRound hmem hH depth hroot hidx hid hprf)
          fun env1 st1 root' troot' e1 hr => ?_
        exact ih hr (hidxs'.mono e1) (hids'.mono e1) (hproofs'.mono e1)

theorem sim_deletionProof {env : Env p} {st : TState} (depth : ℕ) {pre : ZMod p} {tpre : TV}
    {idxs ids : List (ZMod p)} {tidxs tids : List TV}
    {proofs : List (List (ZMod p))} {tproofs : List (List TV)}
    (hidxs : Rel env st.next idxs tidxs) (hpre : Rel env st.next pre tpre)
    (hids : Rel env st.next ids tids) (hproofs : Rel env st.next proofs tproofs) :
    Sim H K names env st (deletionProof hash2 depth idxs pre ids proofs)
      (deletionProof Poseidon.poseidon2 depth tidxs tpre tids tproofs) :=
  sim_deletionProofLoop hmem hH depth hpre hidxs hids hproofs

end merkle

/-! ## bit-encoding gadgets -/

section bits
open Smtb.Circuit
variable {H : ZMod p → ZMod p → ZMod p} {K : List ℕ → List (ZMod p) → List (ZMod p)}
variable {names : List String}

theorem Rel.pair {β α β' α' : Type} [Ev p β α] [Ev p β' α'] {env : Env p} {n : ℕ}
    {a : α} {b : β} {a' : α'} {b' : β'} (h : Rel env n a b) (h' : Rel env n a' b') :
    Rel env n (a, a') (b, b') :=
  ⟨⟨h.bnd, h'.bnd⟩, by rw [h.eq, h'.eq]; rfl⟩

theorem Rel.snd {β α β' α' : Type} [Ev p β α] [Ev p β' α'] {env : Env p} {n : ℕ}
    {a : α} {b : β} {a' : α'} {b' : β'} (h : Rel env n (a, a') (b, b')) : Rel env n a' b' :=
  ⟨h.bnd.2, (Prod.mk.inj h.eq).2⟩

theorem Rel.swapByteOrder {β α : Type} [Ev p β α] {env : Env p} {n : ℕ} {as : List α}
    {bs : List β} (h : Rel env n as bs) : Rel env n (swapByteOrder as) (swapByteOrder bs) :=
  ⟨fun x hx => by
    unfold Smtb.swapByteOrder at hx
    obtain ⟨j, -, hj⟩ := List.mem_flatMap.mp hx
    exact h.bnd x (List.mem_of_mem_drop (List.mem_of_mem_take hj)), by
    show _ = (Smtb.swapByteOrder bs).map (Ev.ev env)
    rw [← swapByteOrder_map, h.eq]; rfl⟩

theorem sim_reducedLoop {env : Env p} {st : TState} (P : ℕ) {xs : List (ZMod p)} {txs : List TV}
    {failed succeeded : ZMod p} {tf ts : TV}
    (hxs : Rel env st.next xs txs) (hf : Rel env st.next failed tf)
    (hs : Rel env st.next succeeded ts) :
    Sim H K names env st (reducedLoop P xs failed succeeded) (reducedLoop P txs tf ts) := by
  induction txs generalizing env st xs failed succeeded tf ts with
  | nil =>
    have := hxs.nil_right; subst this
    simp only [reducedLoop]
    exact Sim_pure (hf.pair hs)
  | cons tx trest ih =>
    obtain ⟨x, rest, rfl, hx, hrest⟩ := hxs.cons_right
    simp only [reducedLoop]
    refine Sim_bind (sim_assertBool hx) fun env1 st1 _ _ e1 _ => ?_
    rw [hrest.length_eq]
    by_cases hc : P.testBit trest.length = false
    · rw [if_pos hc, if_pos hc]
      refine Sim_bind (sim_or (hx.mono e1) (hf.mono e1)) fun env2 st2 o to_ e2 ho => ?_
      have e12 := e1.trans e2
      refine Sim_bind (sim_select (hs.mono e12) (Rel.const _ _ _) ho)
        fun env3 st3 f' tf' e3 hf' => ?_
      have e13 := e12.trans e3
      exact ih (hrest.mono e13) hf' (hs.mono e13)
    · rw [if_neg hc, if_neg hc]
      refine Sim_bind (sim_sub (Rel.const _ _ _) (hx.mono e1)) fun env2 st2 bn tbn e2 hbn => ?_
      have e12 := e1.trans e2
      refine Sim_bind (sim_or hbn (hs.mono e12)) fun env3 st3 o to_ e3 ho => ?_
      have e13 := e12.trans e3
      refine Sim_bind (sim_select (hf.mono e13) (Rel.const _ _ _) ho)
        fun env4 st4 s' ts' e4 hs' => ?_
      have e14 := e13.trans e4
      exact ih (hrest.mono e14) (hf.mono e14) hs'

theorem sim_reducedModRCheck {env : Env p} {st : TState} (P : ℕ) {xs : List (ZMod p)}
    {txs : List TV} (hxs : Rel env st.next xs txs) :
    Sim H K names env st (reducedModRCheck P xs) (reducedModRCheck P txs) := by
  unfold reducedModRCheck
  rw [hxs.length_eq]
  by_cases hc : txs.length < bitLen P
  · rw [if_pos hc, if_pos hc]
    exact Sim_pure ⟨trivial, rfl⟩
  · rw [if_neg hc, if_neg hc]
    refine Sim_bind (sim_reducedLoop P hxs.reverse (Rel.const _ _ _) (Rel.const _ _ _))
      fun env1 st1 r tr e1 hr => ?_
    obtain ⟨r1, r2⟩ := r
    obtain ⟨t1, t2⟩ := tr
    exact sim_assertEq hr.snd (Rel.const _ _ _)

theorem sim_toReducedBigEndian {env : Env p} {st : TState} (P : ℕ) {v : ZMod p} {tv : TV}
    (hv : Rel env st.next v tv) (size : ℕ) :
    Sim H K names env st (toReducedBigEndian P v size) (toReducedBigEndian P tv size) := by
  unfold toReducedBigEndian
  refine Sim_bind (sim_toBinary hv size) fun env1 st1 bits tbits e1 hb => ?_
  refine Sim_bind (sim_reducedModRCheck P hb) fun env2 st2 _ _ e2 _ => ?_
  exact Sim_pure (hb.mono e2).swapByteOrder

theorem sim_fromBinaryBigEndian {env : Env p} {st : TState} {bs : List (ZMod p)} {tbs : List TV}
    (hbs : Rel env st.next bs tbs) :
    Sim H K names env st (fromBinaryBigEndian bs) (fromBinaryBigEndian tbs) :=
  sim_fromBinary hbs.swapByteOrder

end bits

/-! ## closing the simulation: whole traces from the initial state -/

/-- the input wires `v0 … v(k-1)` carry the values `xs` -/
def InputsAre (env : Env p) (xs : List (ZMod p)) : Prop :=
  ∀ i (h : i < xs.length), env i = xs[i]

/-- the wires `v(off) …` carry the values `xs` -/
def InputsAt (env : Env p) (off : ℕ) (xs : List (ZMod p)) : Prop :=
  ∀ i (h : i < xs.length), env (off + i) = xs[i]

theorem InputsAre.at0 {env : Env p} {xs : List (ZMod p)} (h : InputsAre env xs) :
    InputsAt env 0 xs := fun i hi => by rw [Nat.zero_add]; exact h i hi

theorem InputsAt.cons {env : Env p} {off : ℕ} {x : ZMod p} {xs : List (ZMod p)}
    (h : InputsAt env off (x :: xs)) : env off = x ∧ InputsAt env (off + 1) xs :=
  ⟨h 0 (Nat.succ_pos _), fun i hi => by
    have := h (i + 1) (Nat.succ_lt_succ hi)
    rw [List.getElem_cons_succ] at this
    rw [← this]; congr 1; omega⟩

theorem InputsAt.append {env : Env p} {off : ℕ} {xs ys : List (ZMod p)}
    (h : InputsAt env off (xs ++ ys)) : InputsAt env off xs ∧ InputsAt env (off + xs.length) ys :=
  ⟨fun i hi => by
    have := h i (by rw [List.length_append]; omega)
    rw [List.getElem_append_left hi] at this; exact this,
   fun i hi => by
    have := h (xs.length + i) (by rw [List.length_append]; omega)
    rw [List.getElem_append_right (by omega)] at this
    rw [Nat.add_assoc, this]; congr 1; omega⟩

/-- a single input wire -/
theorem Rel.input {env : Env p} {n i : ℕ} {x : ZMod p} (h : env i = x) (hi : i < n) :
    Rel env n x (TV.v i) := ⟨hi, h.symm⟩

/-- a block of input wires, as allocated by `TraceM.freshN` -/
theorem Rel.inputs {env : Env p} {n off k : ℕ} {vals : List (ZMod p)} (hlen : vals.length = k)
    (hle : off + k ≤ n) (hv : InputsAt env off vals) :
    Rel env n vals ((List.range k).map fun i => TV.v (off + i)) := by
  refine ⟨?_, ?_⟩
  · intro t ht
    obtain ⟨i, hi, rfl⟩ := List.mem_map.mp ht
    have := List.mem_range.mp hi
    show off + i < n
    omega
  · show vals = ((List.range k).map fun i => TV.v (off + i)).map (evalTV env)
    apply List.ext_getElem
    · simp [hlen]
    · intro i h1 h2
      simp only [List.getElem_map, List.getElem_range, evalTV_v]
      exact (hv i h1).symm

section top
variable {H : ZMod p → ZMod p → ZMod p} {K : List ℕ → List (ZMod p) → List (ZMod p)}
variable {names : List String}

/-- the lines a program records from the initial state (no wires, nothing recorded) -/
def traceOf {β : Type} (names : List String) (y : TraceM β) : List TLine :=
  (exec y { opaqueNames := names }).2.trace

/-- what the program returns from the initial state -/
def resultOf {β : Type} (names : List String) (y : TraceM β) : β :=
  (exec y { opaqueNames := names }).1

/-- the text the driver prints (and `bin/check` compares with the Go recorder's output) is a
function of `traceOf` alone -/
theorem out_eq_render {β : Type} (names : List String) (y : TraceM β) :
    (exec y { opaqueNames := names }).2.out =
      (traceOf names y).foldl (fun s l => (s ++ l.render).push '\n') "" := rfl

/-- From a simulation at the state reached after allocating the inputs to the closed statement. -/
theorem Sim.top {β α : Type} [Ev p β α] {x : SatM p α} {y y' : TraceM β} {n : ℕ}
    (xs : List (ZMod p)) (hn : xs.length = n)
    (hy : exec y { opaqueNames := names } = exec y' { next := n, lines := [], opaqueNames := names })
    (h : ∀ env : Env p, InputsAre env xs →
      Sim H K names env { next := n, lines := [], opaqueNames := names } x y')
    (k : α → Prop) :
    x k ↔ ∃ env : Env p, InputsAre env xs ∧ denote p H K env (traceOf names y) ∧
      k (Ev.ev env (resultOf names y)) := by
  unfold traceOf resultOf
  rw [hy]
  constructor
  · intro hk
    have hin : InputsAre (fun i => xs.getD i 0 : Env p) xs := fun i hi => by
      show xs.getD i 0 = _
      rw [List.getD_eq_getElem _ _ hi]
    obtain ⟨new, hl, -, -, -, -, hx⟩ := h _ hin rfl
    obtain ⟨env', hag, hd, hk'⟩ := (hx k).mp hk
    refine ⟨env', fun i hi => by rw [hag i (hn ▸ hi)]; exact hin i hi, ?_, hk'⟩
    intro l hl'
    unfold TState.trace at hl'
    rw [hl, List.append_nil] at hl'
    exact hd l (List.mem_reverse.mp hl')
  · rintro ⟨env, hin, hd, hk⟩
    obtain ⟨new, hl, -, -, -, -, hx⟩ := h env hin rfl
    refine (hx k).mpr ⟨env, fun _ _ => rfl, fun l hl' => hd l ?_, hk⟩
    unfold TState.trace
    rw [hl, List.append_nil]
    exact List.mem_reverse.mpr hl'

variable {env : Env p} {st : TState}

theorem sim_text (s : String) : Sim H K names env st (pure ()) (TraceM.emit s) :=
  sim_emit (.text s) True rfl trivial (fun _ _ => Iff.rfl) fun _ => ⟨fun h => ⟨trivial, h⟩, fun h => h.2⟩

/-- the harness's closing `ret …` line is free text: it adds nothing to the denotation -/
theorem Sim_ret {β α : Type} [Ev p β α] {x : SatM p α} {y : TraceM β} (s : β → String)
    (hx : Sim H K names env st x y) :
    Sim H K names env st x (y >>= fun r => TraceM.emit (s r) >>= fun _ => pure r) := by
  have : Sim H K names env st (x >>= fun a => (pure () : SatM p Unit) >>= fun _ => pure a)
      (y >>= fun r => TraceM.emit (s r) >>= fun _ => pure r) :=
    Sim_bind hx fun env1 st1 a b e1 hab =>
      Sim_bind (sim_text (s b)) fun env2 st2 _ _ e2 _ => Sim_pure (hab.mono e2)
  exact this

end top

/-! ## the closed statements, for the harness programs of `Smtb/Circuit/TraceHarness.lean`

Each `trace…` program there is the program `driver trace …` runs (inputs allocated first with
`TraceM.fresh` / `TraceM.freshN`, then the gadget, then the `ret …` line), except that it also
returns the gadget's result so that the statement can talk about it. -/

/-- closes the `i < n` / `off + k ≤ n` side goals about concrete wire ids -/
macro "wire_bound" : tactic => `(tactic| first | (simp; done) | (simp; omega))

theorem chunks_map {α β : Type} (f : α → β) (l : List α) (size count : ℕ) :
    chunks (l.map f) size count = (chunks l size count).map (List.map f) := by
  unfold chunks
  rw [List.map_map]
  apply List.map_congr_left
  intro i _
  simp only [Function.comp, List.map_take, List.map_drop]

section relmore
variable {β α : Type} [Ev p β α] {env : Env p} {n : ℕ}

theorem Rel.chunks {as : List α} {bs : List β} (h : Rel env n as bs) (size count : ℕ) :
    Rel env n (chunks as size count) (chunks bs size count) := by
  refine ⟨?_, ?_⟩
  · intro c hc x hx
    obtain ⟨i, -, rfl⟩ := List.mem_map.mp hc
    exact h.bnd x (List.mem_of_mem_drop (List.mem_of_mem_take hx))
  · rw [h.eq]
    exact chunks_map _ _ _ _

theorem Rel.headD {as : List α} {bs : List β} (h : Rel env n as bs) {a0 : α} {b0 : β}
    (h0 : Rel env n a0 b0) : Rel env n (as.headD a0) (bs.headD b0) := by
  cases bs with
  | nil => have := h.nil_right; subst this; exact h0
  | cons b bs => obtain ⟨a, as', rfl, ha, -⟩ := h.cons_right; exact ha

theorem Rel.tail' {as : List α} {bs : List β} (h : Rel env n as bs) :
    Rel env n as.tail bs.tail := by
  cases bs with
  | nil => have := h.nil_right; subst this; exact Rel.nil
  | cons b bs => obtain ⟨a, as', rfl, -, hs⟩ := h.cons_right; exact hs

end relmore

section closed
open Smtb.Circuit
variable {H : ZMod p → ZMod p → ZMod p} (K : List ℕ → List (ZMod p) → List (ZMod p))
variable {names : List String} (hmem : "Poseidon2" ∈ names)
variable {hash2 : ZMod p → ZMod p → SatM p (ZMod p)} (hH : ∀ a b k, hash2 a b k ↔ k (H a b))

include hmem hH

theorem proofRound_trace_iff (d h s : ZMod p) (kont : ZMod p → Prop) :
    proofRound hash2 d h s kont ↔
      ∃ env : Env p, InputsAre env [d, h, s] ∧
        denote p H K env (traceOf names traceProofRound) ∧
        kont (evalTV env (resultOf names traceProofRound)) := by
  refine Sim.top (n := 3) (y' := proofRound Poseidon.poseidon2 (.v 0) (.v 1) (.v 2) >>= fun r =>
    TraceM.emit ("ret" ++ TraceM.tvList [r]) >>= fun _ => pure r) [d, h, s] rfl rfl
    (fun env hin => ?_) kont
  obtain ⟨h0, hin⟩ := hin.at0.cons
  obtain ⟨h1, hin⟩ := hin.cons
  obtain ⟨h2, -⟩ := hin.cons
  exact Sim_ret _ (sim_proofRound hmem hH (Rel.input h0 (by wire_bound)) (Rel.input h1 (by wire_bound))
    (Rel.input h2 (by wire_bound)))

theorem verifyProof_trace_iff (d : ℕ) (leaf : ZMod p) (sibs path : List (ZMod p))
    (hs : sibs.length = d) (hp : path.length = d) (kont : ZMod p → Prop) :
    verifyProof hash2 leaf sibs path kont ↔
      ∃ env : Env p, InputsAre env ((leaf :: sibs) ++ path) ∧
        denote p H K env (traceOf names (traceVerifyProof d)) ∧
        kont (evalTV env (resultOf names (traceVerifyProof d))) := by
  refine Sim.top (n := 0 + (d + 1) + d)
    (y' := verifyProof Poseidon.poseidon2
        (((List.range (d + 1)).map fun i => TV.v (0 + i)).headD (.c 0))
        ((List.range (d + 1)).map fun i => TV.v (0 + i)).tail
        ((List.range d).map fun i => TV.v (0 + (d + 1) + i)) >>= fun r =>
      ret [r] >>= fun _ => pure r)
    _ (by simp [hs, hp]; omega) rfl (fun env hin => ?_) kont
  obtain ⟨h1, h2⟩ := hin.at0.append
  have hl : (leaf :: sibs).length = d + 1 := by simp [hs]
  rw [hl] at h2
  have r1 := Rel.inputs (n := 0 + (d + 1) + d) hl (by omega) h1
  have r2 := Rel.inputs (n := 0 + (d + 1) + d) hp (by omega) h2
  exact Sim_ret (fun r => "ret" ++ TraceM.tvList [r])
    (sim_verifyProof hmem hH (r1.headD (Rel.const _ _ 0)) r1.tail' r2)

theorem insertionRound_trace_iff (d : ℕ) (idx item prev : ZMod p) (proof : List (ZMod p))
    (hl : proof.length = d) (kont : ZMod p → Prop) :
    insertionRound hash2 d idx item prev proof kont ↔
      ∃ env : Env p, InputsAre env (idx :: item :: prev :: proof) ∧
        denote p H K env (traceOf names (traceInsertionRound d)) ∧
        kont (evalTV env (resultOf names (traceInsertionRound d))) := by
  refine Sim.top (n := 0 + 1 + 1 + 1 + d)
    (y' := insertionRound Poseidon.poseidon2 d (.v 0) (.v (0 + 1)) (.v (0 + 1 + 1))
        ((List.range d).map fun i => TV.v (0 + 1 + 1 + 1 + i)) >>= fun r =>
      ret [r] >>= fun _ => pure r)
    _ (by simp [hl]; omega) rfl (fun env hin => ?_) kont
  obtain ⟨h0, hin⟩ := hin.at0.cons
  obtain ⟨h1, hin⟩ := hin.cons
  obtain ⟨h2, hin⟩ := hin.cons
  exact Sim_ret (fun r => "ret" ++ TraceM.tvList [r])
    (sim_insertionRound hmem hH d (Rel.input h0 (by wire_bound)) (Rel.input h1 (by wire_bound))
      (Rel.input h2 (by wire_bound)) (Rel.inputs hl (le_refl _) hin))

theorem insertionProof_trace_iff (d b : ℕ) (start pre : ZMod p) (ids prfs : List (ZMod p))
    (hids : ids.length = b) (hprfs : prfs.length = b * d) (kont : ZMod p → Prop) :
    insertionProof hash2 d start pre ids (chunks prfs d b) kont ↔
      ∃ env : Env p, InputsAre env (start :: pre :: (ids ++ prfs)) ∧
        denote p H K env (traceOf names (traceInsertionProof d b)) ∧
        kont (evalTV env (resultOf names (traceInsertionProof d b))) := by
  refine Sim.top (n := 0 + 1 + 1 + b + b * d)
    (y' := insertionProof Poseidon.poseidon2 d (.v 0) (.v (0 + 1))
        ((List.range b).map fun i => TV.v (0 + 1 + 1 + i))
        (chunks ((List.range (b * d)).map fun i => TV.v (0 + 1 + 1 + b + i)) d b) >>= fun r =>
      ret [r] >>= fun _ => pure r)
    _ (by simp [hids, hprfs]; omega) rfl (fun env hin => ?_) kont
  obtain ⟨h0, hin⟩ := hin.at0.cons
  obtain ⟨h1, hin⟩ := hin.cons
  obtain ⟨h2, h3⟩ := hin.append
  rw [hids] at h3
  exact Sim_ret (fun r => "ret" ++ TraceM.tvList [r])
    (sim_insertionProof hmem hH d (Rel.input h0 (by wire_bound)) (Rel.input h1 (by wire_bound))
      (Rel.inputs hids (by wire_bound) h2) ((Rel.inputs hprfs (le_refl _) h3).chunks d b))

theorem deletionRound_trace_iff (d : ℕ) (root idx item : ZMod p) (proof : List (ZMod p))
    (hl : proof.length = d) (kont : ZMod p → Prop) :
    deletionRound hash2 d root idx item proof kont ↔
      ∃ env : Env p, InputsAre env (root :: idx :: item :: proof) ∧
        denote p H K env (traceOf names (traceDeletionRound d)) ∧
        kont (evalTV env (resultOf names (traceDeletionRound d))) := by
  refine Sim.top (n := 0 + 1 + 1 + 1 + d)
    (y' := deletionRound Poseidon.poseidon2 d (.v 0) (.v (0 + 1)) (.v (0 + 1 + 1))
        ((List.range d).map fun i => TV.v (0 + 1 + 1 + 1 + i)) >>= fun r =>
      ret [r] >>= fun _ => pure r)
    _ (by simp [hl]; omega) rfl (fun env hin => ?_) kont
  obtain ⟨h0, hin⟩ := hin.at0.cons
  obtain ⟨h1, hin⟩ := hin.cons
  obtain ⟨h2, hin⟩ := hin.cons
  exact Sim_ret (fun r => "ret" ++ TraceM.tvList [r])
    (sim_deletionRound hmem hH d (Rel.input h0 (by wire_bound)) (Rel.input h1 (by wire_bound))
      (Rel.input h2 (by wire_bound)) (Rel.inputs hl (le_refl _) hin))

theorem deletionProof_trace_iff (d b : ℕ) (idxs : List (ZMod p)) (pre : ZMod p)
    (ids prfs : List (ZMod p)) (hidxs : idxs.length = b) (hids : ids.length = b)
    (hprfs : prfs.length = b * d) (kont : ZMod p → Prop) :
    deletionProof hash2 d idxs pre ids (chunks prfs d b) kont ↔
      ∃ env : Env p, InputsAre env (idxs ++ pre :: (ids ++ prfs)) ∧
        denote p H K env (traceOf names (traceDeletionProof d b)) ∧
        kont (evalTV env (resultOf names (traceDeletionProof d b))) := by
  refine Sim.top (n := 0 + b + 1 + b + b * d)
    (y' := deletionProof Poseidon.poseidon2 d ((List.range b).map fun i => TV.v (0 + i))
        (.v (0 + b)) ((List.range b).map fun i => TV.v (0 + b + 1 + i))
        (chunks ((List.range (b * d)).map fun i => TV.v (0 + b + 1 + b + i)) d b) >>= fun r =>
      ret [r] >>= fun _ => pure r)
    _ (by simp [hidxs, hids, hprfs]; omega) rfl (fun env hin => ?_) kont
  obtain ⟨h0, hin⟩ := hin.at0.append
  rw [hidxs] at hin
  obtain ⟨h1, hin⟩ := hin.cons
  obtain ⟨h2, h3⟩ := hin.append
  rw [hids] at h3
  exact Sim_ret (fun r => "ret" ++ TraceM.tvList [r])
    (sim_deletionProof hmem hH d (Rel.inputs hidxs (by wire_bound) h0) (Rel.input h1 (by wire_bound))
      (Rel.inputs hids (by wire_bound) h2) ((Rel.inputs hprfs (le_refl _) h3).chunks d b))

end closed

section closedBits
open Smtb.Circuit
variable (H : ZMod p → ZMod p → ZMod p) (K : List ℕ → List (ZMod p) → List (ZMod p))
variable (names : List String)

theorem reducedModRCheck_trace_iff (P n : ℕ) (inp : List (ZMod p)) (hl : inp.length = n)
    (kont : Unit → Prop) :
    (reducedModRCheck P inp : SatM p Unit) kont ↔
      ∃ env : Env p, InputsAre env inp ∧
        denote p H K env (traceOf names (traceReducedModRCheck P n)) ∧ kont () := by
  refine Sim.top (n := 0 + n)
    (y' := reducedModRCheck P ((List.range n).map fun i => TV.v (0 + i)) >>= fun r =>
      ret [] >>= fun _ => pure r)
    _ (by simp [hl]) rfl (fun env hin => ?_) kont
  exact Sim_ret (fun _ => "ret" ++ TraceM.tvList [])
    (sim_reducedModRCheck P (Rel.inputs hl (le_refl _) hin.at0))

theorem toReducedBigEndian_trace_iff (P n : ℕ) (v : ZMod p) (kont : List (ZMod p) → Prop) :
    (toReducedBigEndian P v n : SatM p _) kont ↔
      ∃ env : Env p, InputsAre env [v] ∧
        denote p H K env (traceOf names (traceToReducedBigEndian P n)) ∧
        kont ((resultOf names (traceToReducedBigEndian P n)).map (evalTV env)) := by
  refine Sim.top (n := 1)
    (y' := toReducedBigEndian P (.v 0) n >>= fun r => ret r >>= fun _ => pure r)
    [v] rfl rfl (fun env hin => ?_) kont
  obtain ⟨h0, -⟩ := hin.at0.cons
  exact Sim_ret (fun r => "ret" ++ TraceM.tvList r)
    (sim_toReducedBigEndian P (Rel.input h0 (by wire_bound)) n)

theorem fromBinaryBigEndian_trace_iff (n : ℕ) (inp : List (ZMod p)) (hl : inp.length = n)
    (kont : ZMod p → Prop) :
    (fromBinaryBigEndian inp : SatM p _) kont ↔
      ∃ env : Env p, InputsAre env inp ∧
        denote p H K env (traceOf names (traceFromBinaryBigEndian n)) ∧
        kont (evalTV env (resultOf names (traceFromBinaryBigEndian n))) := by
  refine Sim.top (n := 0 + n)
    (y' := fromBinaryBigEndian ((List.range n).map fun i => TV.v (0 + i)) >>= fun r =>
      ret [r] >>= fun _ => pure r)
    _ (by simp [hl]) rfl (fun env hin => ?_) kont
  exact Sim_ret (fun r => "ret" ++ TraceM.tvList [r])
    (sim_fromBinaryBigEndian (Rel.inputs hl (le_refl _) hin.at0))

end closedBits

/-! ## conditional simulation, postconditions (needed for the opaque Keccak call)

The Sat semantics of the Keccak gadget is a function of its input bits only when these are
boolean (its body asserts so); the recorded `callN` line denotes an unconditional function.  In
the two circuits the inputs are outputs of `ToBinary`, hence boolean: that fact has to travel
from the point where the bits are produced to the call.  `Post x Q` says every result of `x` that
a satisfying assignment can produce satisfies `Q`; `SimC c` is `Sim` whose semantic half is only
claimed under the side condition `c`. -/

section cond
variable {H : ZMod p → ZMod p → ZMod p} {K : List ℕ → List (ZMod p) → List (ZMod p)}
variable {names : List String}

def Post {α : Type} (x : SatM p α) (Q : α → Prop) : Prop :=
  ∀ k : α → Prop, x k → x (fun a => Q a ∧ k a)

theorem mono_of_iff {α ι : Type} {x : SatM p α} {A : ι → Prop} {r : ι → α}
    (h : ∀ k, x k ↔ ∃ i, A i ∧ k (r i)) : SatM.Mono x := by
  intro k k' hkk hx
  obtain ⟨i, hA, hk⟩ := (h k).mp hx
  exact (h k').mpr ⟨i, hA, hkk _ hk⟩

theorem Mono_pure {α : Type} (a : α) : SatM.Mono (pure a : SatM p α) := fun _ _ h hk => h a hk

theorem Mono_bind {α β : Type} {x : SatM p α} {f : α → SatM p β} (hx : SatM.Mono x)
    (hf : ∀ a, SatM.Mono (f a)) : SatM.Mono (x >>= f) :=
  fun k k' h hk => hx _ _ (fun a ha => hf a k k' h ha) hk

theorem Mono_mapM' {α β : Type} {f : α → SatM p β} (hf : ∀ a, SatM.Mono (f a)) :
    ∀ l : List α, SatM.Mono (mapM' f l)
  | [] => Mono_pure _
  | a :: as => by
    show SatM.Mono (f a >>= fun b => mapM' f as >>= fun bs => pure (b :: bs))
    exact Mono_bind (hf a) fun b => Mono_bind (Mono_mapM' hf as) fun bs => Mono_pure _

theorem Post_mapM' {α β : Type} {f : α → SatM p β} {Q : β → Prop} (hm : ∀ a, SatM.Mono (f a))
    (hf : ∀ a, Post (f a) Q) : ∀ l : List α, Post (mapM' f l) (fun rs => ∀ r ∈ rs, Q r)
  | [] => fun k hk => ⟨nilAll, hk⟩
  | a :: as => by
    intro k hk
    change f a (fun b => mapM' f as (fun bs => k (b :: bs))) at hk
    show f a (fun b => mapM' f as (fun bs => (∀ r ∈ b :: bs, Q r) ∧ k (b :: bs)))
    refine hm a _ _ ?_ (hf a _ hk)
    rintro b ⟨hb, hrest⟩
    refine Mono_mapM' hm as _ _ ?_ (Post_mapM' hm hf as _ hrest)
    rintro bs ⟨hbs, hk'⟩
    exact ⟨fun r hr => by
      rcases List.mem_cons.mp hr with rfl | hr
      · exact hb
      · exact hbs r hr, hk'⟩

/-- a bit string a Keccak call accepts: whole bytes, boolean entries -/
def Good (r : List (ZMod p)) : Prop := 8 ∣ r.length ∧ ∀ b ∈ r, isBool b

theorem Good.append {r s : List (ZMod p)} (hr : Good r) (hs : Good s) : Good (r ++ s) :=
  ⟨by rw [List.length_append]; exact Nat.dvd_add hr.1 hs.1, fun b hb => by
    rcases List.mem_append.mp hb with h | h
    · exact hr.2 b h
    · exact hs.2 b h⟩

theorem Good.flatten {rs : List (List (ZMod p))} (h : ∀ r ∈ rs, Good r) : Good rs.flatten := by
  induction rs with
  | nil => exact ⟨by simp, nilAll⟩
  | cons r rs ih =>
    rw [List.flatten_cons]
    exact (h r (List.mem_cons_self ..)).append (ih fun r' hr' => h r' (List.mem_cons_of_mem _ hr'))

theorem Good.swapByteOrder {bits : List (ZMod p)} (h : ∀ b ∈ bits, isBool b) :
    Good (swapByteOrder bits) :=
  ⟨by rw [length_swapByteOrder]; exact Dvd.intro _ rfl, fun b hb => by
    unfold Smtb.swapByteOrder at hb
    obtain ⟨j, -, hj⟩ := List.mem_flatMap.mp hb
    exact h b (List.mem_of_mem_drop (List.mem_of_mem_take hj))⟩

theorem Mono_reducedModRCheck (P : ℕ) (xs : List (ZMod p)) :
    SatM.Mono (Circuit.reducedModRCheck P xs : SatM p Unit) :=
  mono_of_iff (A := fun env : Env p => InputsAre env xs ∧
      denote p (fun _ _ => 0) (fun _ _ => []) env (traceOf [] (traceReducedModRCheck P xs.length)))
    (r := fun _ => ())
    fun k => by
      rw [reducedModRCheck_trace_iff (fun _ _ => 0) (fun _ _ => []) [] P xs.length xs rfl k]
      simp only [and_assoc]

theorem Mono_toReducedBigEndian (P n : ℕ) (v : ZMod p) :
    SatM.Mono (Circuit.toReducedBigEndian P v n : SatM p _) :=
  mono_of_iff (A := fun env : Env p => InputsAre env [v] ∧
      denote p (fun _ _ => 0) (fun _ _ => []) env (traceOf [] (traceToReducedBigEndian P n)))
    (r := fun env => (resultOf [] (traceToReducedBigEndian P n)).map (evalTV env))
    fun k => by
      rw [toReducedBigEndian_trace_iff (fun _ _ => 0) (fun _ _ => []) [] P n v k]
      simp only [and_assoc]

theorem Post_toReducedBigEndian (P n : ℕ) (v : ZMod p) :
    Post (Circuit.toReducedBigEndian P v n : SatM p _) Good := by
  intro k hk
  unfold Circuit.toReducedBigEndian at hk ⊢
  simp only [SatM.bind_apply, Sat.toBinary_def, SatM.pure_apply] at hk ⊢
  obtain ⟨bits, hlen, hb, hrec, h⟩ := hk
  refine ⟨bits, hlen, hb, hrec, ?_⟩
  exact Mono_reducedModRCheck P bits _ _ (fun _ hk' => ⟨Good.swapByteOrder hb, hk'⟩) h

variable (H K names) in
/-- `Sim`, with the semantic half claimed only under the side condition `c` (the scoping half is
unconditional) -/
def SimC {β α : Type} [Ev p β α] (c : Prop) (env : Env p) (st : TState) (x : SatM p α)
    (y : TraceM β) : Prop :=
  st.opaqueNames = names →
  ∃ new : List TLine,
    (exec y st).2.lines = new ++ st.lines ∧ (exec y st).2.opaqueNames = names ∧
    st.next ≤ (exec y st).2.next ∧
    (∀ l ∈ new, lineBnd (exec y st).2.next l) ∧ Ev.bnd p (exec y st).2.next (exec y st).1 ∧
    (c → ∀ k : α → Prop, x k ↔
      ∃ env' : Env p, (∀ i < st.next, env' i = env i) ∧ (∀ l ∈ new, denoteLine p H K env' l) ∧
        k (Ev.ev env' (exec y st).1))

variable {env : Env p} {st : TState}

/-- the trace-side facts come from any Sat program simulated by the same trace program -/
theorem SimC.of_sim {β α : Type} [Ev p β α] {c : Prop} {x x' : SatM p α} {y : TraceM β}
    (hx' : Sim H K names env st x' y) (h : c → ∀ k, x k ↔ x' k) : SimC H K names c env st x y := by
  intro hn
  obtain ⟨new, h1, h2, h3, h4, h5, sem⟩ := hx' hn
  exact ⟨new, h1, h2, h3, h4, h5, fun hc k => (h hc k).trans (sem k)⟩

theorem Sim.toC {β α : Type} [Ev p β α] {c : Prop} {x : SatM p α} {y : TraceM β}
    (hx : Sim H K names env st x y) : SimC H K names c env st x y :=
  SimC.of_sim hx fun _ _ => Iff.rfl

theorem SimC.toSim {β α : Type} [Ev p β α] {c : Prop} {x : SatM p α} {y : TraceM β} (hc : c)
    (hx : SimC H K names c env st x y) : Sim H K names env st x y := by
  intro hn
  obtain ⟨new, h1, h2, h3, h4, h5, sem⟩ := hx hn
  exact ⟨new, h1, h2, h3, h4, h5, sem hc⟩

theorem SimC.weaken {β α : Type} [Ev p β α] {c c' : Prop} {x : SatM p α} {y : TraceM β}
    (h : c' → c) (hx : SimC H K names c env st x y) : SimC H K names c' env st x y := by
  intro hn
  obtain ⟨new, h1, h2, h3, h4, h5, sem⟩ := hx hn
  exact ⟨new, h1, h2, h3, h4, h5, fun hc => sem (h hc)⟩

/-- `bind`, where the continuation may use a postcondition `Q` of the first computation -/
theorem SimC_bind_post {β α δ γ : Type} [Ev p β α] [Ev p δ γ] {c : Prop} {Q : α → Prop}
    {x : SatM p α} {y : TraceM β} {f : α → SatM p γ} {g : β → TraceM δ}
    (hx : SimC H K names c env st x y) (hQ : c → Post x Q)
    (hf : ∀ (env1 : Env p) (st1 : TState) (a : α) (b : β), Ext env st.next env1 st1.next →
      Rel env1 st1.next a b → SimC H K names (c ∧ Q a) env1 st1 (f a) (g b)) :
    SimC H K names c env st (x >>= f) (y >>= g) := by
  intro hn
  obtain ⟨new1, hl1, ho1, hle1, hb1, hbr1, hx⟩ := hx hn
  have hexec : exec (y >>= g) st = exec (g (exec y st).1) (exec y st).2 := rfl
  obtain ⟨new2, hl2, ho2, hle2, hb2, hbr2, -⟩ :=
    hf env (exec y st).2 (Ev.ev env (exec y st).1) (exec y st).1 ⟨hle1, fun _ _ => rfl⟩ ⟨hbr1, rfl⟩ ho1
  rw [hexec]
  refine ⟨new2 ++ new1, by rw [hl2, hl1, List.append_assoc], ho2, le_trans hle1 hle2, ?_, hbr2, ?_⟩
  · intro l hl
    rcases List.mem_append.mp hl with h | h
    · exact hb2 l h
    · exact lineBnd_mono hle2 (hb1 l h)
  · intro hc k
    have hx := hx hc
    have hQ := hQ hc
    show x (fun a => f a k) ↔ _
    constructor
    · intro h
      obtain ⟨env1, hag1, hd1, hq, hfk⟩ := (hx _).mp (hQ _ h)
      obtain ⟨new2', hl2', -, -, -, -, hf'⟩ :=
        hf env1 (exec y st).2 (Ev.ev env1 (exec y st).1) (exec y st).1 ⟨hle1, hag1⟩ ⟨hbr1, rfl⟩ ho1
      have hnew : new2' = new2 := List.append_cancel_right (hl2'.symm.trans hl2)
      subst hnew
      obtain ⟨env2, hag2, hd2, hk⟩ := (hf' ⟨hc, hq⟩ k).mp hfk
      refine ⟨env2, fun i hi => by rw [hag2 i (lt_of_lt_of_le hi hle1), hag1 i hi], ?_, hk⟩
      intro l hl
      rcases List.mem_append.mp hl with h | h
      · exact hd2 l h
      · exact (denoteLine_congr H K hag2 (hb1 l h)).mpr (hd1 l h)
    · rintro ⟨env2, hag, hd, hk⟩
      have hd1 : ∀ l ∈ new1, denoteLine p H K env2 l := fun l hl => hd l (List.mem_append_right _ hl)
      have hq : Q (Ev.ev env2 (exec y st).1) := by
        have h1 : x (fun a => a = Ev.ev env2 (exec y st).1) := (hx _).mpr ⟨env2, hag, hd1, rfl⟩
        obtain ⟨env1', -, -, hq', heq⟩ := (hx _).mp (hQ _ h1)
        exact heq ▸ hq'
      refine (hx _).mpr ⟨env2, hag, hd1, ?_⟩
      obtain ⟨new2', hl2', -, -, -, -, hf'⟩ :=
        hf env2 (exec y st).2 (Ev.ev env2 (exec y st).1) (exec y st).1 ⟨hle1, hag⟩ ⟨hbr1, rfl⟩ ho1
      have hnew : new2' = new2 := List.append_cancel_right (hl2'.symm.trans hl2)
      subst hnew
      exact (hf' ⟨hc, hq⟩ k).mpr ⟨env2, fun _ _ => rfl, fun l hl => hd l (List.mem_append_left _ hl), hk⟩

theorem Post_true {α : Type} (x : SatM p α) : Post x (fun _ => True) := by
  intro k hk
  simpa only [true_and] using hk

theorem SimC_bind {β α δ γ : Type} [Ev p β α] [Ev p δ γ] {c : Prop}
    {x : SatM p α} {y : TraceM β} {f : α → SatM p γ} {g : β → TraceM δ}
    (hx : SimC H K names c env st x y)
    (hf : ∀ (env1 : Env p) (st1 : TState) (a : α) (b : β), Ext env st.next env1 st1.next →
      Rel env1 st1.next a b → SimC H K names c env1 st1 (f a) (g b)) :
    SimC H K names c env st (x >>= f) (y >>= g) :=
  SimC_bind_post hx (fun _ => Post_true x) fun env1 st1 a b e h =>
    (hf env1 st1 a b e h).weaken And.left

theorem Sim_mapM' {β α δ γ : Type} [Ev p β α] [Ev p δ γ] {f : α → SatM p γ} {g : β → TraceM δ}
    (hfg : ∀ (env : Env p) (st : TState) (a : α) (b : β), Rel env st.next a b →
      Sim H K names env st (f a) (g b)) :
    ∀ (bs : List β) (env : Env p) (st : TState) (as : List α), Rel env st.next as bs →
      Sim H K names env st (mapM' f as) (mapM' g bs)
  | [], env, st, as, h => by
    have := h.nil_right; subst this
    exact Sim_pure Rel.nil
  | b :: bs, env, st, as, h => by
    obtain ⟨a, as', rfl, ha, has⟩ := h.cons_right
    show Sim H K names env st (f a >>= fun c => mapM' f as' >>= fun cs => pure (c :: cs))
      (g b >>= fun c => mapM' g bs >>= fun cs => pure (c :: cs))
    refine Sim_bind (hfg env st a b ha) fun env1 st1 c tc e1 hc => ?_
    refine Sim_bind (Sim_mapM' hfg bs env1 st1 as' (has.mono e1)) fun env2 st2 cs tcs e2 hcs => ?_
    exact Sim_pure ((hc.mono e2).cons hcs)

/-- the Keccak gadget kept opaque on the trace side (a `callN` line) against the Sat run of its
body, under the side condition that the input is a whole number of boolean bytes -/
theorem sim_newKeccak256 (hmemK : "KeccakGadget" ∈ names)
    (hK : ∀ data : List (ZMod p), Good data → ∀ k,
      (Circuit.Keccak.newKeccak256 data : SatM p _) k ↔
        k (K [data.length, 256, 24, Circuit.Keccak.blockSize, 1] data))
    (hKlen : ∀ data : List (ZMod p), Good data →
      (K [data.length, 256, 24, Circuit.Keccak.blockSize, 1] data).length = 256)
    {data : List (ZMod p)} {tdata : List TV} (hd : Rel env st.next data tdata) :
    SimC H K names (Good data) env st (Circuit.Keccak.newKeccak256 data)
      (Circuit.Keccak.newKeccak256 tdata) := by
  have hlen : data.length = tdata.length := hd.length_eq
  refine SimC.of_sim (x' := fun k => ∃ rs : List (ZMod p), rs.length = 256 ∧
      rs = K [data.length, 256, 24, Circuit.Keccak.blockSize, 1] data ∧ k rs) ?_ ?_
  · refine sim_allocN 256
      (.callN st.next 256 "KeccakGadget" [tdata.length, 256, 24, Circuit.Keccak.blockSize, 1] tdata)
      (fun rs => rs = K [data.length, 256, 24, Circuit.Keccak.blockSize, 1] data)
      (fun hn => exec_opaqueN _ _ _ _ _ st (hn ▸ hmemK))
      ⟨le_rfl, fun t ht => tvBnd_mono (Nat.le_add_right _ _) (hd.bnd t ht)⟩ ?_ fun k => Iff.rfl
    intro env' hag
    have hm : tdata.map (evalTV env') = data := hd.ev_eq hag
    rw [denoteLine_keccak, hm, hlen]
  · intro hg k
    rw [hK data hg]
    constructor
    · intro h; exact ⟨_, hKlen data hg, rfl, h⟩
    · rintro ⟨rs, -, rfl, h⟩; exact h

end cond

/-! ## the two top-level circuits, `Poseidon2` and `KeccakGadget` opaque -/

section circuits
open Smtb.Circuit
variable {H : ZMod p → ZMod p → ZMod p} {K : List ℕ → List (ZMod p) → List (ZMod p)}
variable {names : List String}
variable (hmemP : "Poseidon2" ∈ names) (hmemK : "KeccakGadget" ∈ names)
variable (hH : ∀ a b k, (Poseidon.poseidon2 a b : SatM p _) k ↔ k (H a b))
variable (hK : ∀ data : List (ZMod p), Good data → ∀ k,
  (Keccak.newKeccak256 data : SatM p _) k ↔ k (K [data.length, 256, 24, Keccak.blockSize, 1] data))
variable (hKlen : ∀ data : List (ZMod p), Good data →
  (K [data.length, 256, 24, Keccak.blockSize, 1] data).length = 256)
include hmemP hmemK hH hK hKlen

theorem sim_insertionCircuit {env : Env p} {st : TState} (P depth : ℕ)
    {ih start pre post : ZMod p} {tih tstart tpre tpost : TV}
    {ids : List (ZMod p)} {tids : List TV} {proofs : List (List (ZMod p))} {tproofs : List (List TV)}
    (hih : Rel env st.next ih tih) (hstart : Rel env st.next start tstart)
    (hpre : Rel env st.next pre tpre) (hpost : Rel env st.next post tpost)
    (hids : Rel env st.next ids tids) (hproofs : Rel env st.next proofs tproofs) :
    Sim H K names env st (insertionCircuit P depth ih start pre post ids proofs)
      (insertionCircuit P depth tih tstart tpre tpost tids tproofs) := by
  refine SimC.toSim trivial ?_
  unfold insertionCircuit
  refine SimC_bind_post (sim_toReducedBigEndian P hstart 32).toC
    (fun _ => Post_toReducedBigEndian P 32 start) fun env1 st1 b1 tb1 e1 h1 => ?_
  refine SimC_bind_post (sim_toReducedBigEndian P (hpre.mono e1) 256).toC
    (fun _ => Post_toReducedBigEndian P 256 pre) fun env2 st2 b2 tb2 e2 h2 => ?_
  have e02 := e1.trans e2
  refine SimC_bind_post (sim_toReducedBigEndian P (hpost.mono e02) 256).toC
    (fun _ => Post_toReducedBigEndian P 256 post) fun env3 st3 b3 tb3 e3 h3 => ?_
  have e03 := e02.trans e3
  refine SimC_bind_post
    (Sim_mapM' (fun env st a b hab => sim_toReducedBigEndian P hab 256) tids env3 st3 ids
      (hids.mono e03)).toC
    (fun _ => Post_mapM' (fun a => Mono_toReducedBigEndian P 256 a)
      (fun a => Post_toReducedBigEndian P 256 a) ids) fun env4 st4 b4 tb4 e4 h4 => ?_
  have e04 := e03.trans e4
  have hdata : Rel env4 st4.next (b1 ++ b2 ++ b3 ++ b4.flatten) (tb1 ++ tb2 ++ tb3 ++ tb4.flatten) :=
    (((h1.mono ((e2.trans e3).trans e4)).append (h2.mono (e3.trans e4))).append (h3.mono e4)).append
      h4.flatten
  refine SimC_bind ((sim_newKeccak256 hmemK hK hKlen hdata).weaken fun hc =>
    ((hc.1.1.1.2.append hc.1.1.2).append hc.1.2).append (Good.flatten hc.2))
    fun env5 st5 hash thash e5 hh => ?_
  have e05 := e04.trans e5
  refine SimC_bind (sim_fromBinaryBigEndian hh).toC fun env6 st6 sum tsum e6 hsum => ?_
  have e06 := e05.trans e6
  refine SimC_bind (sim_assertEq (hih.mono e06) hsum).toC fun env7 st7 _ _ e7 _ => ?_
  have e07 := e06.trans e7
  refine SimC_bind (sim_insertionProof hmemP hH depth (hstart.mono e07) (hpre.mono e07)
    (hids.mono e07) (hproofs.mono e07)).toC fun env8 st8 root troot e8 hroot => ?_
  exact (sim_assertEq hroot (hpost.mono (e07.trans e8))).toC

theorem sim_deletionCircuit {env : Env p} {st : TState} (P depth : ℕ)
    {ih pre post : ZMod p} {tih tpre tpost : TV} {idxs : List (ZMod p)} {tidxs : List TV}
    {ids : List (ZMod p)} {tids : List TV} {proofs : List (List (ZMod p))} {tproofs : List (List TV)}
    (hih : Rel env st.next ih tih) (hidxs : Rel env st.next idxs tidxs)
    (hpre : Rel env st.next pre tpre) (hpost : Rel env st.next post tpost)
    (hids : Rel env st.next ids tids) (hproofs : Rel env st.next proofs tproofs) :
    Sim H K names env st (deletionCircuit P depth ih idxs pre post ids proofs)
      (deletionCircuit P depth tih tidxs tpre tpost tids tproofs) := by
  refine SimC.toSim trivial ?_
  unfold deletionCircuit
  refine SimC_bind_post
    (Sim_mapM' (fun env st a b hab => sim_toReducedBigEndian P hab 32) tidxs env st idxs hidxs).toC
    (fun _ => Post_mapM' (fun a => Mono_toReducedBigEndian P 32 a)
      (fun a => Post_toReducedBigEndian P 32 a) idxs) fun env1 st1 b1 tb1 e1 h1 => ?_
  refine SimC_bind_post (sim_toReducedBigEndian P (hpre.mono e1) 256).toC
    (fun _ => Post_toReducedBigEndian P 256 pre) fun env2 st2 b2 tb2 e2 h2 => ?_
  have e02 := e1.trans e2
  refine SimC_bind_post (sim_toReducedBigEndian P (hpost.mono e02) 256).toC
    (fun _ => Post_toReducedBigEndian P 256 post) fun env3 st3 b3 tb3 e3 h3 => ?_
  have e03 := e02.trans e3
  have hdata : Rel env3 st3.next (b1.flatten ++ b2 ++ b3) (tb1.flatten ++ tb2 ++ tb3) :=
    (((h1.mono (e2.trans e3)).flatten).append (h2.mono e3)).append h3
  refine SimC_bind ((sim_newKeccak256 hmemK hK hKlen hdata).weaken fun hc =>
    ((Good.flatten hc.1.1.2).append hc.1.2).append hc.2)
    fun env5 st5 hash thash e5 hh => ?_
  have e05 := e03.trans e5
  refine SimC_bind (sim_fromBinaryBigEndian hh).toC fun env6 st6 sum tsum e6 hsum => ?_
  have e06 := e05.trans e6
  refine SimC_bind (sim_assertEq (hih.mono e06) hsum).toC fun env7 st7 _ _ e7 _ => ?_
  have e07 := e06.trans e7
  refine SimC_bind (sim_deletionProof hmemP hH depth (hidxs.mono e07) (hpre.mono e07)
    (hids.mono e07) (hproofs.mono e07)).toC fun env8 st8 root troot e8 hroot => ?_
  exact (sim_assertEq hroot (hpost.mono (e07.trans e8))).toC

theorem insertionCircuit_trace_iff (P d b : ℕ) (ih start pre post : ZMod p)
    (ids prfs : List (ZMod p)) (hids : ids.length = b) (hprfs : prfs.length = b * d)
    (kont : Unit → Prop) :
    (insertionCircuit P d ih start pre post ids (chunks prfs d b) : SatM p Unit) kont ↔
      ∃ env : Env p, InputsAre env (ih :: start :: pre :: post :: (ids ++ prfs)) ∧
        denote p H K env (traceOf names (traceInsertion P d b)) ∧ kont () := by
  refine Sim.top (n := 0 + 1 + 1 + 1 + 1 + b + b * d)
    (y' := insertionCircuit P d (.v 0) (.v (0 + 1)) (.v (0 + 1 + 1)) (.v (0 + 1 + 1 + 1))
        ((List.range b).map fun i => TV.v (0 + 1 + 1 + 1 + 1 + i))
        (chunks ((List.range (b * d)).map fun i => TV.v (0 + 1 + 1 + 1 + 1 + b + i)) d b) >>= fun r =>
      ret [] >>= fun _ => pure r)
    _ (by simp [hids, hprfs]; omega) rfl (fun env hin => ?_) kont
  obtain ⟨h0, hin⟩ := hin.at0.cons
  obtain ⟨h1, hin⟩ := hin.cons
  obtain ⟨h2, hin⟩ := hin.cons
  obtain ⟨h3, hin⟩ := hin.cons
  obtain ⟨h4, h5⟩ := hin.append
  rw [hids] at h5
  exact Sim_ret (fun _ => "ret" ++ TraceM.tvList [])
    (sim_insertionCircuit hmemP hmemK hH hK hKlen P d (Rel.input h0 (by wire_bound))
      (Rel.input h1 (by wire_bound)) (Rel.input h2 (by wire_bound)) (Rel.input h3 (by wire_bound))
      (Rel.inputs hids (by wire_bound) h4) ((Rel.inputs hprfs (le_refl _) h5).chunks d b))

theorem deletionCircuit_trace_iff (P d b : ℕ) (hd : d ≤ 31) (ih : ZMod p) (idxs : List (ZMod p))
    (pre post : ZMod p) (ids prfs : List (ZMod p)) (hidxs : idxs.length = b)
    (hids : ids.length = b) (hprfs : prfs.length = b * d) (kont : Unit → Prop) :
    (deletionCircuit P d ih idxs pre post ids (chunks prfs d b) : SatM p Unit) kont ↔
      ∃ env : Env p, InputsAre env (ih :: (idxs ++ pre :: post :: (ids ++ prfs))) ∧
        denote p H K env (traceOf names (traceDeletion P d b)) ∧ kont () := by
  have hok : (!deletionDepthOk d) = false := by simp [deletionDepthOk, hd]
  refine Sim.top (n := 0 + 1 + b + 1 + 1 + b + b * d)
    (y' := deletionCircuit P d (.v 0) ((List.range b).map fun i => TV.v (0 + 1 + i))
        (.v (0 + 1 + b)) (.v (0 + 1 + b + 1))
        ((List.range b).map fun i => TV.v (0 + 1 + b + 1 + 1 + i))
        (chunks ((List.range (b * d)).map fun i => TV.v (0 + 1 + b + 1 + 1 + b + i)) d b) >>= fun r =>
      ret [] >>= fun _ => pure r)
    _ (by simp [hidxs, hids, hprfs]; omega) ?_ (fun env hin => ?_) kont
  · unfold traceDeletion
    rw [hok]
    rfl
  obtain ⟨h0, hin⟩ := hin.at0.cons
  obtain ⟨h1, hin⟩ := hin.append
  rw [hidxs] at hin
  obtain ⟨h2, hin⟩ := hin.cons
  obtain ⟨h3, hin⟩ := hin.cons
  obtain ⟨h4, h5⟩ := hin.append
  rw [hids] at h5
  exact Sim_ret (fun _ => "ret" ++ TraceM.tvList [])
    (sim_deletionCircuit hmemP hmemK hH hK hKlen P d (Rel.input h0 (by wire_bound))
      (Rel.inputs hidxs (by wire_bound) h1) (Rel.input h2 (by wire_bound))
      (Rel.input h3 (by wire_bound)) (Rel.inputs hids (by wire_bound) h4)
      ((Rel.inputs hprfs (le_refl _) h5).chunks d b))

end circuits

end Smtb.TraceSound
