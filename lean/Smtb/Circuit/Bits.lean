import Smtb.Circuit.Api
/-!
# Bit-encoding gadgets of `prover/circuit_utils.go:220-291` (core only)

`p` is the modulus returned by `api.Compiler().Field()`.
-/
namespace Smtb.Circuit
open Smtb CircuitApi

variable {m : Type → Type} {V : Type} [CircuitApi m V]

/-- the MSB→LSB scan of `ReducedModRCheck` (circuit_utils.go:232-242).  The list holds
`Input[i], Input[i-1], …, Input[0]`, so the head is at position `i = tail.length`. -/
def reducedLoop (p : Nat) : List V → V → V → m (V × V)
  | [], failed, succeeded => pure (failed, succeeded)
  | x :: rest, failed, succeeded => do
      assertBool x
      if p.testBit rest.length = false then
        let o ← or_ x failed
        let failed' ← select succeeded (const (m := m) 0) o
        reducedLoop p rest failed' succeeded
      else
        let bitNeg ← sub (const (m := m) 1) x
        let o ← or_ bitNeg succeeded
        let succeeded' ← select failed (const (m := m) 0) o
        reducedLoop p rest failed succeeded'

/-- `ReducedModRCheck.DefineGadget` (circuit_utils.go:224-245); `input` little-endian -/
def reducedModRCheck (p : Nat) (input : List V) : m Unit :=
  if input.length < bitLen p then pure ()
  else do
    let (_, succeeded) ← reducedLoop p input.reverse (const (m := m) 0) (const (m := m) 0)
    assertEq succeeded (const (m := m) 1)

/-- `ToReducedBigEndian.DefineGadget` (circuit_utils.go:256-271) -/
def toReducedBigEndian (p : Nat) (v : V) (size : Nat) : m (List V) := do
  let bitsLittleEndian ← toBinary v size
  reducedModRCheck p bitsLittleEndian
  pure (swapByteOrder bitsLittleEndian)

/-- `FromBinaryBigEndian.DefineGadget` (circuit_utils.go:279-291) -/
def fromBinaryBigEndian (bits : List V) : m V :=
  fromBinary (swapByteOrder bits)

end Smtb.Circuit
