import Smtb.Circuit.Api
/-!
# Keccak gadgets of `prover/keccak/keccak.go` (core only)

A Go `frontend.Variable` slot holds either a Go integer literal or a circuit variable, and
`keccak.go` branches on which it is (`allZeroes`, `tmp[i] != 0`).  `KV` mirrors that.
-/
namespace Smtb.Circuit.Keccak
open Smtb CircuitApi

/-- a `frontend.Variable` slot: a literal bit written by the Go code, or a circuit variable -/
inductive KV (V : Type) where
  | lit (b : Bool)
  | var (v : V)

variable {m : Type → Type} {V : Type} [CircuitApi m V]

def KV.toV : KV V → V
  | .lit b => const (m := m) (if b then 1 else 0)
  | .var v => v

/-- `v != 0` fails only for the Go `int` literal 0 -/
def KV.isLitZero : KV V → Bool
  | .lit false => true
  | _ => false

/-- `allZeroes` (keccak.go:46-53) -/
def allZeroes (l : List (KV V)) : Bool := l.all KV.isLitZero

abbrev Lane (V : Type) := List (KV V)

/-- `Xor.DefineGadget` (keccak.go:293-299) -/
def xorLane (a b : Lane V) : m (Lane V) :=
  zipWithM' (fun x y => do let r ← xor_ (KV.toV (m := m) x) (KV.toV (m := m) y); pure (KV.var r)) a b
/-- `And.DefineGadget` (keccak.go:319-325) -/
def andLane (a b : Lane V) : m (Lane V) :=
  zipWithM' (fun x y => do let r ← and_ (KV.toV (m := m) x) (KV.toV (m := m) y); pure (KV.var r)) a b
/-- `Not.DefineGadget` (keccak.go:331-337): `api.Sub(1, a[i])` -/
def notLane (a : Lane V) : m (Lane V) :=
  mapM' (fun x => do let r ← sub (const (m := m) 1) (KV.toV (m := m) x); pure (KV.var r)) a

/-- `Xor5Round.DefineGadget` (keccak.go:264-270) -/
def xor5Round (a b c d e : KV V) : m (KV V) := do
  let ab ← xor_ (KV.toV (m := m) a) (KV.toV (m := m) b)
  let abc ← xor_ (KV.toV (m := m) c) ab
  let abcd ← xor_ (KV.toV (m := m) d) abc
  let r ← xor_ (KV.toV (m := m) e) abcd
  pure (.var r)

/-- `Xor5.DefineGadget` (keccak.go:280-286) -/
def xor5 : Lane V → Lane V → Lane V → Lane V → Lane V → m (Lane V)
  | a :: as, b :: bs, c :: cs, d :: ds, e :: es => do
      let r ← xor5Round a b c d e; let rs ← xor5 as bs cs ds es; pure (r :: rs)
  | _, _, _, _, _ => pure []

def laneSize : Nat := 64
def blockSize : Nat := 1088

/-- `Rot.DefineGadget` (keccak.go:306-312): `c[i] = A[(i + (laneSize - R)) % len(A)]` -/
def rotLane (a : Lane V) (r : Nat) : Lane V :=
  let n := a.length
  (List.range n).map fun i => a.getD ((i + (laneSize - r)) % n) (.lit false)

/-- `R` (constants.go:34-40) -/
def rotOffsets : List (List Nat) :=
  [[0, 36, 3, 41, 18], [1, 44, 10, 45, 2], [62, 6, 43, 15, 61], [28, 55, 25, 21, 56], [27, 20, 39, 8, 14]]

/-- `RC` (constants.go:7-32) -/
def rcTable : List Nat :=
  [0x0000000000000001, 0x0000000000008082, 0x800000000000808A, 0x8000000080008000,
   0x000000000000808B, 0x0000000080000001, 0x8000000080008081, 0x8000000000008009,
   0x000000000000008A, 0x0000000000000088, 0x0000000080008009, 0x000000008000000A,
   0x000000008000808B, 0x800000000000008B, 0x8000000000008089, 0x8000000000008003,
   0x8000000000008002, 0x8000000000000080, 0x000000000000800A, 0x800000008000000A,
   0x8000000080008081, 0x8000000000008080, 0x0000000080000001, 0x8000000080008008]

/-- `toBits` (constants.go:42-48) -/
def rcBits (c : Nat) : Lane V := (List.range 64).map fun i => .lit (c.testBit i)

/-- the 5×5 state, `A[x][y]` -/
abbrev St (V : Type) := List (List (Lane V))

def St.get (A : St V) (x y : Nat) : Lane V := List.getD (List.getD A x []) y []
def St.set (A : St V) (x y : Nat) (l : Lane V) : St V :=
  List.set A x (List.set (List.getD A x []) y l)

/-- `for x := 0; x < 5; x++ { for y := 0; y < 5; y++ { … } }` -/
def forPairs (f : St V → Nat → Nat → m (St V)) (A : St V) : m (St V) :=
  foldlM' (fun A x => foldlM' (fun A y => f A x y) A (List.range 5)) A (List.range 5)

/-- `KeccakRound.DefineGadget` (keccak.go:61-117) -/
def keccakRound (A : St V) (rc : Lane V) : m (St V) := do
  -- theta
  let C ← mapM' (fun x => xor5 (A.get x 0) (A.get x 1) (A.get x 2) (A.get x 3) (A.get x 4)) (List.range 5)
  let D ← mapM' (fun x => xorLane (C.getD ((x+4)%5) []) (rotLane (C.getD ((x+1)%5) []) 1)) (List.range 5)
  let A ← forPairs (fun A x y => do let l ← xorLane (A.get x y) (D.getD x []); pure (A.set x y l)) A
  -- rho / pi
  let B0 : St V := (List.range 5).map fun _ => (List.range 5).map fun _ => []
  let B := (List.range 5).foldl (fun B x => (List.range 5).foldl (fun B y =>
      B.set y ((2*x+3*y)%5) (rotLane (A.get x y) ((rotOffsets.getD x []).getD y 0))) B) B0
  -- chi
  let A ← forPairs (fun A x y => do
      let left ← notLane (B.get ((x+1)%5) y)
      let tmp ← andLane left (B.get ((x+2)%5) y)
      let l ← xorLane (B.get x y) tmp
      pure (A.set x y l)) A
  -- iota
  let l ← xorLane (A.get 0 0) rc
  pure (A.set 0 0 l)

/-- `KeccakF.DefineGadget` (keccak.go:126-135), `Rounds = 24` -/
def keccakF (A : St V) : m (St V) :=
  foldlM' (fun A c => keccakRound A (rcBits c)) A rcTable

/-- `paddedSize` (keccak.go:150-153); the Go code computes the ceiling in `float64`, which is exact
for every size below 2^53 -/
def paddedSize (n : Nat) : Nat :=
  if n = 0 then blockSize else ((n + 8 + blockSize - 1) / blockSize) * blockSize

/-- the padded message `P` before the final-bit flip (keccak.go:155-168) -/
def paddedMsg (domain : Nat) (data : List V) : List (KV V) :=
  let P0 : List (KV V) := data.map KV.var ++ (List.range 8).map (fun i => KV.lit (domain.testBit i))
  P0 ++ List.replicate (paddedSize data.length - P0.length) (KV.lit false)

/-- absorb one block into the state (keccak.go:202-218) -/
def absorbBlock (P : List (KV V)) (blk : Nat) (S : St V) : m (St V) :=
  forPairs (fun S x y => do
    if x + 5*y < blockSize / laneSize then
      let Pi := (P.drop (blk*blockSize + (x+5*y)*laneSize)).take laneSize
      if allZeroes (S.get x y) then pure (S.set x y Pi)
      else if allZeroes Pi then pure S
      else do let l ← xorLane (S.get x y) Pi; pure (S.set x y l)
    else pure S) S

def zeroState : St V := (List.range 5).map fun _ => (List.range 5).map fun _ => List.replicate 64 (KV.lit false)

/-- `KeccakGadget.DefineGadget` (keccak.go:148-250) with `OutputSize = 256`, `Rounds = 24`,
`BlockSize = 1088`; `InputSize = len(InputData)` as at every call site -/
def keccakBody (domain : Nat) (data : List V) : m (List V) := do
  let padded := paddedSize data.length
  let P1 : List (KV V) := paddedMsg domain data
  -- `tmp` is 1 exactly at the last position: `P[last] = api.Xor(P[last], 1)`
  let lastV ← xor_ (KV.toV (m := m) (P1.getD (padded-1) (.lit false))) (const (m := m) 1)
  let P : List (KV V) := P1.set (padded-1) (.var lastV)
  let S ← foldlM' (fun S blk => do
      let S ← absorbBlock P blk S
      keccakF S) zeroState (List.range (padded / blockSize))
  -- squeeze: `Z = S[0][0] ++ S[1][0] ++ S[2][0] ++ S[3][0]` (keccak.go:230-247, one pass)
  pure ((S.get 0 0 ++ S.get 1 0 ++ S.get 2 0 ++ S.get 3 0).map (KV.toV (m := m)))

def keccakGadget (domain : Nat) (data : List V) : m (List V) :=
  opaqueN "KeccakGadget" [data.length, 256, 24, blockSize, domain] data 256 (keccakBody domain data)

/-- `NewKeccak256` (keccak.go:18-30) -/
def newKeccak256 (data : List V) : m (List V) := keccakGadget 0x01 data
/-- `NewSHA3_256` (keccak.go:32-44) -/
def newSHA3_256 (data : List V) : m (List V) := keccakGadget 0x06 data

end Smtb.Circuit.Keccak
