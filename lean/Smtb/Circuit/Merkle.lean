import Smtb.Circuit.Api
/-!
# Merkle gadgets of `prover/circuit_utils.go` (core only)

`hash2` is the two-to-one hash gadget (`poseidon.Poseidon2` in the repository); keeping it a
parameter lets the theorems be stated for an arbitrary hash and the traces keep it opaque.
-/
namespace Smtb.Circuit
open Smtb CircuitApi

variable {m : Type → Type} {V : Type} [CircuitApi m V]

/-- `const emptyLeaf = 0` (circuit_utils.go:30) -/
def emptyLeaf : Nat := 0

/-- `ProofRound.DefineGadget` (circuit_utils.go:47-53) -/
def proofRound (hash2 : V → V → m V) (direction hash sibling : V) : m V := do
  assertBool direction
  let d1 ← select direction hash sibling
  let d2 ← select direction sibling hash
  hash2 d1 d2

/-- `VerifyProof.DefineGadget` (circuit_utils.go:62-68): `proof[0]` is the leaf, `proof[i]` the
sibling at level `i-1`; `for i := 1; i < len(Proof); i++` reads `Path[i-1]`.
The Go code panics on `Path[i-1]` when the path is shorter than the siblings; callers always
pass equal lengths, and the model stops at the shorter of the two. -/
def verifyProofLoop (hash2 : V → V → m V) : V → List V → List V → m V
  | sum, s :: sibs, d :: path => do
      let sum' ← proofRound hash2 d s sum
      verifyProofLoop hash2 sum' sibs path
  | sum, _, _ => pure sum

def verifyProof (hash2 : V → V → m V) (leaf : V) (siblings path : List V) : m V :=
  verifyProofLoop hash2 leaf siblings path

/-- `InsertionRound.DefineGadget` (circuit_utils.go:79-95) -/
def insertionRound (hash2 : V → V → m V) (depth : Nat) (index item prevRoot : V) (proof : List V) : m V := do
  let currentPath ← toBinary index depth
  let root ← verifyProof hash2 (const (m := m) emptyLeaf) proof currentPath
  assertEq root prevRoot
  verifyProof hash2 item proof currentPath

/-- `InsertionProof.DefineGadget` (circuit_utils.go:108-124); `i` is the Go loop counter -/
def insertionProofLoop (hash2 : V → V → m V) (depth : Nat) (startIndex : V) :
    Nat → V → List V → List (List V) → m V
  | i, prevRoot, id :: ids, prf :: proofs => do
      let currentIndex ← add startIndex (const (m := m) i)
      let root ← insertionRound hash2 depth currentIndex id prevRoot prf
      insertionProofLoop hash2 depth startIndex (i + 1) root ids proofs
  | _, prevRoot, _, _ => pure prevRoot

def insertionProof (hash2 : V → V → m V) (depth : Nat) (startIndex preRoot : V)
    (idComms : List V) (merkleProofs : List (List V)) : m V :=
  insertionProofLoop hash2 depth startIndex 0 preRoot idComms merkleProofs

/-- `DeletionRound.DefineGadget` (circuit_utils.go:135-158) -/
def deletionRound (hash2 : V → V → m V) (depth : Nat) (root index item : V) (proof : List V) : m V := do
  let bits ← toBinary index (depth + 1)
  let skipFlag := bits.getD depth (const (m := m) 0)
  let currentPath := bits.take depth
  let rootPreDeletion ← verifyProof hash2 item proof currentPath
  let rootPostDeletion ← verifyProof hash2 (const (m := m) emptyLeaf) proof currentPath
  let diff ← sub rootPreDeletion root
  let preRootCorrect ← isZero diff
  let preRootCorrectOrSkip ← or_ preRootCorrect skipFlag
  assertEq preRootCorrectOrSkip (const (m := m) 1)
  select skipFlag root rootPostDeletion

/-- `DeletionProof.DefineGadget` (circuit_utils.go:170-187) -/
def deletionProofLoop (hash2 : V → V → m V) (depth : Nat) :
    V → List V → List V → List (List V) → m V
  | root, idx :: idxs, id :: ids, prf :: proofs => do
      let root' ← deletionRound hash2 depth root idx id prf
      deletionProofLoop hash2 depth root' idxs ids proofs
  | root, _, _, _ => pure root

def deletionProof (hash2 : V → V → m V) (depth : Nat) (deletionIndices : List V) (preRoot : V)
    (idComms : List V) (merkleProofs : List (List V)) : m V :=
  deletionProofLoop hash2 depth preRoot deletionIndices idComms merkleProofs

end Smtb.Circuit
