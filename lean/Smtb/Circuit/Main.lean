import Smtb.Circuit.Merkle
import Smtb.Circuit.Bits
import Smtb.Circuit.Poseidon
import Smtb.Circuit.Keccak
/-!
# `InsertionMbuCircuit.Define` and `DeletionMbuCircuit.Define` (core only)
-/
namespace Smtb.Circuit
open Smtb CircuitApi

variable {m : Type → Type} {V : Type} [CircuitApi m V]

/-- `InsertionMbuCircuit.Define` (insertion_circuit.go:30-76).  `p` is the compile field. -/
def insertionCircuit (p : Nat) (depth : Nat) (inputHash startIndex preRoot postRoot : V)
    (idComms : List V) (merkleProofs : List (List V)) : m Unit := do
  let bitsStart ← toReducedBigEndian p startIndex 32
  let bitsPre ← toReducedBigEndian p preRoot 256
  let bitsPost ← toReducedBigEndian p postRoot 256
  let bitsIds ← mapM' (fun id => toReducedBigEndian p id 256) idComms
  let bits := bitsStart ++ bitsPre ++ bitsPost ++ bitsIds.flatten
  let hash ← Keccak.newKeccak256 bits
  let sum ← fromBinaryBigEndian hash
  assertEq inputHash sum
  let root ← insertionProof Poseidon.poseidon2 depth startIndex preRoot idComms merkleProofs
  assertEq root postRoot

/-- `DeletionMbuCircuit.Define` (deletion_circuit.go:30-72); the Go code refuses `Depth > 31`
before emitting anything (modelled by `deletionDepthOk`). -/
def deletionCircuit (p : Nat) (depth : Nat) (inputHash : V) (deletionIndices : List V)
    (preRoot postRoot : V) (idComms : List V) (merkleProofs : List (List V)) : m Unit := do
  let bitsIdx ← mapM' (fun i => toReducedBigEndian p i 32) deletionIndices
  let bitsPre ← toReducedBigEndian p preRoot 256
  let bitsPost ← toReducedBigEndian p postRoot 256
  let bits := bitsIdx.flatten ++ bitsPre ++ bitsPost
  let hash ← Keccak.newKeccak256 bits
  let sum ← fromBinaryBigEndian hash
  assertEq inputHash sum
  let root ← deletionProof Poseidon.poseidon2 depth deletionIndices preRoot idComms merkleProofs
  assertEq root postRoot

/-- the guard at deletion_circuit.go:31-33 -/
def deletionDepthOk (depth : Nat) : Bool := depth ≤ 31

end Smtb.Circuit
