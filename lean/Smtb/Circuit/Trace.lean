import Smtb.Circuit.Api
/-!
# Trace interpretation (core only)

Records one structured line (`TLine`) per `frontend.API` call; `TLine.render` prints it in the
format of the Go recorder (`/verif/harness/recorder`).  Wires are numbered in order of creation,
inputs first.  The structured form is what `Smtb/Proofs/TraceSound.lean` gives a semantics to.
-/
namespace Smtb

/-- a trace-level value: a constant or a wire id -/
inductive TV where
  | c (n : Nat)
  | v (id : Nat)
deriving Repr, BEq, Inhabited, DecidableEq

def TV.str : TV → String
  | .c n => "c:" ++ toString n
  | .v i => "v" ++ toString i

/-- one recorded API call -/
inductive TLine where
  /-- `v<res> = <op> args…` for add, sub, mul, select, iszero, or, xor, and -/
  | op (res : Nat) (name : String) (args : List TV)
  /-- `v<first>+<n> = tobinary a` -/
  | toBinary (first n : Nat) (a : TV)
  /-- `v<res> = frombinary bs…` -/
  | fromBinary (res : Nat) (bs : List TV)
  | assertBool (a : TV)
  | assertEq (a b : TV)
  /-- an opaque gadget with a scalar result: `v<res> = call Name params | args` -/
  | call1 (res : Nat) (name : String) (params : List Nat) (args : List TV)
  /-- an opaque gadget with `n` results -/
  | callN (first n : Nat) (name : String) (params : List Nat) (args : List TV)
  /-- free text (`ret …`, `error …`) -/
  | text (s : String)
deriving Repr, Inhabited

def natList (l : List Nat) : String := l.foldl (fun s a => s ++ " " ++ toString a) ""
def tvList (l : List TV) : String := l.foldl (fun s a => s ++ " " ++ a.str) ""

def TLine.render : TLine → String
  | .op r name args => "v" ++ toString r ++ " = " ++ name ++ tvList args
  | .toBinary f n a => "v" ++ toString f ++ "+" ++ toString n ++ " = tobinary " ++ a.str
  | .fromBinary r bs => "v" ++ toString r ++ " = frombinary" ++ tvList bs
  | .assertBool a => "assertbool " ++ a.str
  | .assertEq a b => "asserteq " ++ a.str ++ " " ++ b.str
  | .call1 r name params args => "v" ++ toString r ++ " = call " ++ name ++ natList params ++ " |" ++ tvList args
  | .callN f n name params args =>
      "v" ++ toString f ++ "+" ++ toString n ++ " = call " ++ name ++ natList params ++ " |" ++ tvList args
  | .text s => s

structure TState where
  next : Nat := 0
  /-- recorded lines, most recent first -/
  lines : List TLine := []
  opaqueNames : List String := []

abbrev TraceM := StateM TState

namespace TraceM

def emitLine (l : TLine) : TraceM Unit := modify fun st => { st with lines := l :: st.lines }

def emit (s : String) : TraceM Unit := emitLine (.text s)

def fresh : TraceM TV := do
  let st ← get
  set { st with next := st.next + 1 }
  pure (.v st.next)

def freshN (n : Nat) : TraceM (List TV) := do
  let st ← get
  set { st with next := st.next + n }
  pure ((List.range n).map fun i => .v (st.next + i))

def op (name : String) (args : List TV) : TraceM TV := do
  let st ← get
  set { st with next := st.next + 1, lines := .op st.next name args :: st.lines }
  pure (.v st.next)

def natList := Smtb.natList
def tvList := Smtb.tvList

end TraceM

/-- the recorded lines in order of emission -/
def TState.trace (st : TState) : List TLine := st.lines.reverse

/-- the text the Go recorder prints for the same calls -/
def TState.out (st : TState) : String :=
  st.trace.foldl (fun s l => (s ++ l.render).push '\n') ""

open TraceM in
instance : CircuitApi TraceM TV where
  const n := .c n
  add a b := op "add" [a, b]
  sub a b := op "sub" [a, b]
  mul a b := op "mul" [a, b]
  select c a b := op "select" [c, a, b]
  isZero a := op "iszero" [a]
  or_ a b := op "or" [a, b]
  xor_ a b := op "xor" [a, b]
  and_ a b := op "and" [a, b]
  toBinary a n := do
    let st ← get
    set { st with next := st.next + n, lines := .toBinary st.next n a :: st.lines }
    pure ((List.range n).map fun i => .v (st.next + i))
  fromBinary bs := do
    let st ← get
    set { st with next := st.next + 1, lines := .fromBinary st.next bs :: st.lines }
    pure (.v st.next)
  assertBool a := emitLine (.assertBool a)
  assertEq a b := emitLine (.assertEq a b)
  opaque1 name params args body := do
    let st ← get
    if st.opaqueNames.contains name then
      set { st with next := st.next + 1, lines := .call1 st.next name params args :: st.lines }
      pure (.v st.next)
    else body
  opaqueN name params args n body := do
    let st ← get
    if st.opaqueNames.contains name then
      set { st with next := st.next + n, lines := .callN st.next n name params args :: st.lines }
      pure ((List.range n).map fun i => .v (st.next + i))
    else body

end Smtb
