import Smtb.Circuit.Api
/-!
# Trace interpretation (core only)

Prints one line per `frontend.API` call, in the format of the Go recorder
(`/verif/harness/recorder`).  Wires are numbered in order of creation, inputs first.
-/
namespace Smtb

/-- a trace-level value: a constant or a wire id -/
inductive TV where
  | c (n : Nat)
  | v (id : Nat)
deriving Repr, BEq, Inhabited

def TV.str : TV → String
  | .c n => "c:" ++ toString n
  | .v i => "v" ++ toString i

structure TState where
  next : Nat := 0
  out : String := ""
  opaqueNames : List String := []

abbrev TraceM := StateM TState

namespace TraceM

def emit (s : String) : TraceM Unit := modify fun st => { st with out := (st.out ++ s).push '\n' }

def fresh : TraceM TV := do
  let st ← get
  set { st with next := st.next + 1 }
  pure (.v st.next)

def freshN (n : Nat) : TraceM (List TV) := do
  let st ← get
  set { st with next := st.next + n }
  pure ((List.range n).map fun i => .v (st.next + i))

def op (name : String) (args : List TV) : TraceM TV := do
  let r ← fresh
  emit (r.str ++ " = " ++ name ++ args.foldl (fun s a => s ++ " " ++ a.str) "")
  pure r

def natList (l : List Nat) : String := l.foldl (fun s a => s ++ " " ++ toString a) ""
def tvList (l : List TV) : String := l.foldl (fun s a => s ++ " " ++ a.str) ""

end TraceM

open TraceM in
instance : CircuitApi TraceM TV where
  const n := .c n
  add a b := op "add" [a, b]
  sub a b := op "sub" [a, b]
  mul a b := op "mul" [a, b]
  select c a b := op "select" [c, a, b]
  isZero a := op "iszero" [a]
  or_ a b := op "or" [a, b]
  xor_ a b := op "xor" [a, b]
  and_ a b := op "and" [a, b]
  toBinary a n := do
    let st ← get
    let rs ← freshN n
    emit ("v" ++ toString st.next ++ "+" ++ toString n ++ " = tobinary " ++ a.str)
    pure rs
  fromBinary bs := do
    let r ← fresh
    emit (r.str ++ " = frombinary" ++ tvList bs)
    pure r
  assertBool a := emit ("assertbool " ++ a.str)
  assertEq a b := emit ("asserteq " ++ a.str ++ " " ++ b.str)
  opaque1 name params args body := do
    let st ← get
    if st.opaqueNames.contains name then
      let r ← fresh
      emit (r.str ++ " = call " ++ name ++ natList params ++ " |" ++ tvList args)
      pure r
    else body
  opaqueN name params args n body := do
    let st ← get
    if st.opaqueNames.contains name then
      let rs ← freshN n
      emit ("v" ++ toString st.next ++ "+" ++ toString n ++ " = call " ++ name ++ natList params ++ " |" ++ tvList args)
      pure rs
    else body

end Smtb
