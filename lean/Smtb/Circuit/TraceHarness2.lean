import Smtb.Circuit.TraceHarness
import Smtb.Circuit.Poseidon
import Smtb.Circuit.Keccak
/-!
# The harness programs for the hash gadgets, fully expanded (core only)

`driver trace Poseidon1`, `driver trace Poseidon2`, `driver trace Keccak dom n`
(`Driver/TraceCmd.lean`): inputs are allocated first as wires `v0 …`, then the gadget runs — with
its name NOT in `opaqueNames`, so that the body is recorded gate by gate — then the `ret …` line is
emitted.  As in `Smtb/Circuit/TraceHarness.lean` the only difference with the driver's program is
that the gadget's result is also *returned*, so that `Smtb/Proofs/TraceSound2.lean` can talk about
it; the final state — hence the printed text — is the same.  Mathlib-free.
-/
namespace Smtb.TraceHarness
open Smtb Smtb.Circuit

/-- `driver trace Poseidon1` -/
def tracePoseidon1 : TraceM TV := do
  let a ← input1
  let r ← Poseidon.poseidon1 a; ret [r]; pure r

/-- `driver trace Poseidon2` -/
def tracePoseidon2 : TraceM TV := do
  let a ← input1; let b ← input1
  let r ← Poseidon.poseidon2 a b; ret [r]; pure r

/-- `driver trace Keccak dom n` -/
def traceKeccak (dom n : Nat) : TraceM (List TV) := do
  let inp ← inputs n
  let r ← Keccak.keccakGadget dom inp; ret r; pure r

end Smtb.TraceHarness
