import Smtb.Circuit.Trace
import Smtb.Circuit.Main
/-!
# The harness programs whose traces are compared with the Go recorder (core only)

Each `trace…` program is the program `driver trace …` runs (`Driver/TraceCmd.lean`): inputs are
allocated first as wires `v0 …` with `TraceM.fresh` / `TraceM.freshN`, then the gadget runs, then
the `ret …` line is emitted.  The only difference is that the gadget's result is also *returned*,
so that `Smtb/Proofs/TraceSound.lean` can talk about it; the final state — hence the printed
text — is the same.  This file is Mathlib-free so that the driver can call these definitions.
-/
namespace Smtb.TraceHarness
open Smtb Smtb.Circuit

def inputs (n : Nat) : TraceM (List TV) := TraceM.freshN n
def input1 : TraceM TV := TraceM.fresh
def ret (vs : List TV) : TraceM Unit := TraceM.emit ("ret" ++ TraceM.tvList vs)

/-- `Driver.chunks`: `count` consecutive slices of length `size` -/
def chunks {α : Type} (l : List α) (size count : Nat) : List (List α) :=
  (List.range count).map fun i => (l.drop (i * size)).take size

/-- `driver trace ProofRound` -/
def traceProofRound : TraceM TV := do
  let d ← input1; let h ← input1; let s ← input1
  let r ← proofRound Poseidon.poseidon2 d h s; ret [r]; pure r

/-- `driver trace VerifyProof d` -/
def traceVerifyProof (d : Nat) : TraceM TV := do
  let prf ← inputs (d + 1); let path ← inputs d
  let r ← verifyProof Poseidon.poseidon2 (prf.headD (.c 0)) prf.tail path; ret [r]; pure r

/-- `driver trace InsertionRound d` -/
def traceInsertionRound (d : Nat) : TraceM TV := do
  let idx ← input1; let item ← input1; let prev ← input1; let prf ← inputs d
  let r ← insertionRound Poseidon.poseidon2 d idx item prev prf; ret [r]; pure r

/-- `driver trace InsertionProof d b` -/
def traceInsertionProof (d b : Nat) : TraceM TV := do
  let start ← input1; let pre ← input1; let ids ← inputs b; let prfs ← inputs (b * d)
  let r ← insertionProof Poseidon.poseidon2 d start pre ids (chunks prfs d b); ret [r]; pure r

/-- `driver trace DeletionRound d` -/
def traceDeletionRound (d : Nat) : TraceM TV := do
  let root ← input1; let idx ← input1; let item ← input1; let prf ← inputs d
  let r ← deletionRound Poseidon.poseidon2 d root idx item prf; ret [r]; pure r

/-- `driver trace DeletionProof d b` -/
def traceDeletionProof (d b : Nat) : TraceM TV := do
  let idxs ← inputs b; let pre ← input1; let ids ← inputs b; let prfs ← inputs (b * d)
  let r ← deletionProof Poseidon.poseidon2 d idxs pre ids (chunks prfs d b); ret [r]; pure r

/-- `driver trace ReducedModRCheck P n` -/
def traceReducedModRCheck (P n : Nat) : TraceM Unit := do
  let inp ← inputs n
  reducedModRCheck P inp; ret []

/-- `driver trace ToReducedBigEndian P n` -/
def traceToReducedBigEndian (P n : Nat) : TraceM (List TV) := do
  let v ← input1
  let r ← toReducedBigEndian P v n; ret r; pure r

/-- `driver trace FromBinaryBigEndian n` -/
def traceFromBinaryBigEndian (n : Nat) : TraceM TV := do
  let inp ← inputs n
  let r ← fromBinaryBigEndian inp; ret [r]; pure r

/-- `driver trace Insertion P d b` -/
def traceInsertion (P d b : Nat) : TraceM Unit := do
  let ih ← input1; let start ← input1; let pre ← input1; let post ← input1
  let ids ← inputs b; let prfs ← inputs (b * d)
  insertionCircuit P d ih start pre post ids (chunks prfs d b); ret []

/-- `driver trace Deletion P d b` -/
def traceDeletion (P d b : Nat) : TraceM Unit := do
  if !deletionDepthOk d then
    -- `Define` returns the error before touching the API; the harness allocates inputs first
    let _ ← inputs (4 + 2 * b + b * d)
    TraceM.emit "error max depth supported is 31"; ret []
  else
  let ih ← input1; let idxs ← inputs b; let pre ← input1; let post ← input1
  let ids ← inputs b; let prfs ← inputs (b * d)
  deletionCircuit P d ih idxs pre post ids (chunks prfs d b); ret []

end Smtb.TraceHarness
