/-!
# The gnark API as seen by the circuits of worldcoin/semaphore-mtb (core only)

One Lean program per Go gadget, polymorphic in `CircuitApi`.  Interpretations:
* `Smtb.Circuit.Trace`  – prints the sequence of `frontend.API` calls (tied to the Go recorder);
* `Smtb.Proofs.Sat`     – satisfiability over `ZMod p` (what the theorems are about);
* pure interpretations (`Id`) used as executable specifications.
-/
namespace Smtb

class CircuitApi (m : Type → Type) (V : outParam Type) extends Monad m where
  /-- a Go-level constant (`int`, `uint64`, `big.Int`) used as a `frontend.Variable` -/
  const : Nat → V
  add : V → V → m V
  sub : V → V → m V
  mul : V → V → m V
  /-- `api.Select(b, i1, i2)` -/
  select : V → V → V → m V
  isZero : V → m V
  or_ : V → V → m V
  xor_ : V → V → m V
  and_ : V → V → m V
  /-- `api.ToBinary(v, n)`, little-endian -/
  toBinary : V → Nat → m (List V)
  /-- `api.FromBinary(bs...)`, little-endian -/
  fromBinary : List V → m V
  assertBool : V → m Unit
  assertEq : V → V → m Unit
  /-- a gadget invoked through `abstractor.Call` that a trace may keep opaque (scalar result);
      `params` are the gadget's Go-level integer fields -/
  opaque1 : (name : String) → (params : List Nat) → (args : List V) → (body : m V) → m V
  /-- same, for a gadget returning `n` variables -/
  opaqueN : (name : String) → (params : List Nat) → (args : List V) → (n : Nat) → (body : m (List V)) → m (List V)

export CircuitApi (const add sub mul select isZero or_ xor_ and_ toBinary fromBinary assertBool
  assertEq opaque1 opaqueN)

/-- `big.Int.BitLen` -/
def bitLen (p : Nat) : Nat := if p = 0 then 0 else Nat.log2 p + 1

/-- monadic fold over a list, written structurally so that every interpretation unfolds it -/
def foldlM' {m : Type → Type} [Monad m] {α β : Type} (f : β → α → m β) : β → List α → m β
  | b, [] => pure b
  | b, a :: as => do let b' ← f b a; foldlM' f b' as

def mapM' {m : Type → Type} [Monad m] {α β : Type} (f : α → m β) : List α → m (List β)
  | [] => pure []
  | a :: as => do let b ← f a; let bs ← mapM' f as; pure (b :: bs)

def zipWithM' {m : Type → Type} [Monad m] {α β γ : Type} (f : α → β → m γ) : List α → List β → m (List γ)
  | a :: as, b :: bs => do let c ← f a b; let cs ← zipWithM' f as bs; pure (c :: cs)
  | _, _ => pure []

/-- Go's `for i := len(bits)-8; i >= 0; i -= 8 { out = append(out, bits[i:i+8]...) }` -/
def swapByteOrder {α : Type} (bits : List α) : List α :=
  let n := bits.length / 8
  (List.range n).flatMap fun j => (bits.drop ((bits.length - 8) - 8 * j)).take 8

end Smtb
