import Smtb.Circuit.Api
import Smtb.Circuit.PoseidonTables
/-!
# Poseidon gadgets of `prover/poseidon/poseidon.go` (core only)
-/
namespace Smtb.Circuit.Poseidon
open Smtb CircuitApi

structure Cfg where
  RF : Nat
  RP : Nat
  constants : List (List Nat)
  mds : List (List Nat)

/-- `CFG_2` (poseidon.go:23-28) -/
def cfg2 : Cfg := { RF := 8, RP := 56, constants := PoseidonTables.constants_2, mds := PoseidonTables.mds_2 }
/-- `CFG_3` (poseidon.go:16-21) -/
def cfg3 : Cfg := { RF := 8, RP := 57, constants := PoseidonTables.constants_3, mds := PoseidonTables.mds_3 }

/-- `cfgFor` (poseidon.go:30-38); Go panics for any other width -/
def cfgFor (t : Nat) : Option Cfg :=
  if t = 2 then some cfg2 else if t = 3 then some cfg3 else none

variable {m : Type → Type} {V : Type} [CircuitApi m V]

/-- `sbox.DefineGadget` (poseidon.go:80-85) -/
def sbox (x : V) : m V := do
  let v2 ← mul x x
  let v4 ← mul v2 v2
  mul x v4

/-- one output of `mds.DefineGadget`: `sum = api.Add(sum, api.Mul(inp[j], row[j]))` from `sum = 0` -/
def mdsRow (inp : List V) (row : List Nat) : m V :=
  foldlM' (fun (sum : V) (xc : V × Nat) => do
    let prod ← mul xc.1 (const (m := m) xc.2)
    add sum prod) (const (m := m) 0) (inp.zip row)

/-- `mds.DefineGadget` (poseidon.go:91-102) -/
def mdsMix (cfg : Cfg) (inp : List V) : m (List V) :=
  mapM' (mdsRow inp) (cfg.mds.take inp.length)

/-- `h.Inp[i] = api.Add(h.Inp[i], h.Consts[i])` for every `i` -/
def addConsts (inp : List V) (consts : List Nat) : m (List V) :=
  zipWithM' (fun x c => add x (const (m := m) c)) inp consts

/-- `halfRound.DefineGadget` (poseidon.go:109-115) -/
def halfRound (cfg : Cfg) (inp : List V) (consts : List Nat) : m (List V) := do
  let st ← addConsts inp consts
  match st with
  | [] => mdsMix cfg []
  | x :: rest => do
    let x' ← sbox x
    mdsMix cfg (x' :: rest)

/-- `fullRound.DefineGadget` (poseidon.go:122-130) -/
def fullRound (cfg : Cfg) (inp : List V) (consts : List Nat) : m (List V) := do
  let st ← addConsts inp consts
  let st' ← mapM' sbox st
  mdsMix cfg st'

/-- `poseidon.DefineGadget` (poseidon.go:61-74) -/
def permute (cfg : Cfg) (inputs : List V) : m (List V) := do
  let c := cfg.constants
  let st ← foldlM' (fun st cs => fullRound cfg st cs) inputs (c.take (cfg.RF / 2))
  let st ← foldlM' (fun st cs => halfRound cfg st cs) st ((c.drop (cfg.RF / 2)).take cfg.RP)
  foldlM' (fun st cs => fullRound cfg st cs) st ((c.drop (cfg.RF / 2 + cfg.RP)).take (cfg.RF / 2))

/-- `Poseidon1.DefineGadget` (poseidon.go:44-47) -/
def poseidon1 (a : V) : m V :=
  opaque1 "Poseidon1" [] [a] do
    let st ← permute cfg2 [const (m := m) 0, a]
    pure (st.headD (const (m := m) 0))

/-- `Poseidon2.DefineGadget` (poseidon.go:53-56) -/
def poseidon2 (a b : V) : m V :=
  opaque1 "Poseidon2" [] [a, b] do
    let st ← permute cfg3 [const (m := m) 0, a, b]
    pure (st.headD (const (m := m) 0))

end Smtb.Circuit.Poseidon
