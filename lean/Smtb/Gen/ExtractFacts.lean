/-! regenerated on every run from /repo/formal-verification (T-facts for C17) -/
namespace Smtb.Gen

/-- definitions of the committed FormalVerification.lean -/
def extractDefined : List String :=
  ["Order", "F", "ReducedModRCheck_32", "ToReducedBigEndian_32", "ReducedModRCheck_256", "ToReducedBigEndian_256", "Xor5Round", "Xor5_64_64_64_64_64", "Rot_64_1", "Xor_64_64", "Rot_64_0", "Rot_64_36", "Rot_64_3", "Rot_64_41", "Rot_64_18", "Rot_64_44", "Rot_64_10", "Rot_64_45", "Rot_64_2", "Rot_64_62", "Rot_64_6", "Rot_64_43", "Rot_64_15", "Rot_64_61", "Rot_64_28", "Rot_64_55", "Rot_64_25", "Rot_64_21", "Rot_64_56", "Rot_64_27", "Rot_64_20", "Rot_64_39", "Rot_64_8", "Rot_64_14", "Not_64", "And_64_64", "KeccakRound_64_5_5_64", "KeccakF_64_5_5_64_24_24", "KeccakGadget_640_64_24_640_256_24_1088_1", "FromBinaryBigEndian_256", "sbox", "mds_3", "fullRound_3_3", "halfRound_3_3", "poseidon_3", "Poseidon2", "ProofRound", "VerifyProof_31_30", "DeletionRound_30_30", "DeletionProof_4_4_30_4_4_30", "KeccakGadget_1568_64_24_1568_256_24_1088_1", "InsertionRound_30_30", "InsertionProof_4_30_4_4_30", "DeletionMbuCircuit_4_4_30_4_4_30", "InsertionMbuCircuit_4_30_4_4_30"]

/-- `SemaphoreMTB.*` identifiers used by Main.lean and FormalVerification/*.lean -/
def extractReferenced : List String :=
  ["And_64_64", "DeletionMbuCircuit_4_4_30_4_4_30", "DeletionProof_4_4_30_4_4_30", "DeletionRound_30_30", "F", "FromBinaryBigEndian_256", "InsertionMbuCircuit_4_30_4_4_30", "InsertionProof_4_30_4_4_30", "InsertionRound_30_30", "KeccakF_64_5_5_64_24_24", "KeccakGadget_1568_64_24_1568_256_24_1088_1", "KeccakGadget_640_64_24_640_256_24_1088_1", "KeccakRound_64_5_5_64", "Not_64", "Order", "Poseidon2", "ProofRound", "ReducedModRCheck_256", "ReducedModRCheck_32", "Rot_64_1", "ToReducedBigEndian_256", "ToReducedBigEndian_32", "VerifyProof_31_30", "Xor5Round", "Xor5_64_64_64_64_64", "Xor_64_64", "fullRound_3_3", "halfRound_3_3", "mds_3", "poseidon_3", "sbox"]

end Smtb.Gen
