import Smtb.Proofs.Metrics
/-!
# C20 — request metrics of `/prove`

*After any sequence of requests to /prove, sequential or concurrent and with any mix of methods and
outcomes, the metrics endpoint reports per (method, status code) request totals equal to the
responses actually sent, and the in-flight gauge is back to zero once all of them have completed.*

Model: `Smtb/Model/Metrics.lean` (assumptions P1–P6 about promhttp are listed there).  A concurrent
execution is a history of atomic events; `WellFormed` only constrains the three events of each single
request (begin before count before finish, at most once each) and leaves the interleaving across
requests arbitrary.  A prefix of a well-formed history is what a scrape *during* load observes; a
`Complete` history is one in which every request that began has finished.

All theorems quantify over ALL well-formed histories (any length, any interleaving, any method
strings and status codes).
-/
namespace Smtb.Metrics

/-- During load: after any prefix of a well-formed history the gauge equals the number of requests
that have begun and not yet finished. -/
theorem inFlight_eq_open_requests {h p : List Event} (wf : WellFormed h) (hp : p <+: h) :
    (run init p).inFlight = (openRequests p).length := by
  have wfp := wf.of_prefix hp
  have inv := wfp.inv
  have h1 := inFlight_checkFrom (st := init) Inv.nil (wellFormed_iff_check.1 wfp) rfl
  have h2 := length_filter_not_mem inv.dB inv.dF fun r hr => inv.cB r (inv.fC r hr)
  simp only [List.nil_append] at h1
  simp only [openRequests]
  omega

/-- the same without truncated subtraction: the gauge never underflows -/
theorem inFlight_add_finished_eq_begun {h p : List Event} (wf : WellFormed h) (hp : p <+: h) :
    (run init p).inFlight + (finishes p).length = (begins p).length := by
  have wfp := wf.of_prefix hp
  simpa using inFlight_checkFrom (st := init) Inv.nil (wellFormed_iff_check.1 wfp) rfl

/-- During load: summed over all labels, #finished ≤ Σ totals ≤ #begun. -/
theorem finished_le_counted_le_begun {h p : List Event} (wf : WellFormed h) (hp : p <+: h) :
    (finishes p).length ≤ sumTotals (run init p) ∧
    sumTotals (run init p) ≤ (begins p).length := by
  have inv := (wf.of_prefix hp).inv
  have hs : sumTotals (run init p) = (countIds p).length := by
    simpa [sumTotals, init] using sumTotals_run init p
  rw [hs]
  exact ⟨inv.finished_le_counted, inv.counted_le_begun⟩

/-- … and the sum of the totals is exactly the number of responses sent so far. -/
theorem sumTotals_eq_responses (p : List Event) :
    sumTotals (run init p) = (responses p).length := by
  have : sumTotals (run init p) = (countIds p).length := by
    simpa [sumTotals, init] using sumTotals_run init p
  rw [this, length_responses]

/-- After a complete history the gauge is back to zero. -/
theorem inFlight_zero_when_all_complete {h : List Event} (c : Complete h) :
    (run init h).inFlight = 0 := by
  have inv := c.wf.inv
  have h1 := inFlight_add_finished_eq_begun c.wf (List.prefix_refl h)
  have h2 : (begins h).length ≤ (finishes h).length := nodup_subset_length inv.dB c.done
  omega

/-- After a complete history (in fact after ANY history), for every label pair the reported total
is the number of responses sent whose canonicalised (method, code) is that pair. -/
theorem totals_eq_response_multiset (h : List Event) (l : Label) :
    total (run init h) l = tally (responses h) l := by
  simpa [total, init, lookup] using total_run init h l

/-- In a well-formed history every request is counted at most once, so "number of count events
carrying (m, c)" is "number of requests answered with (m, c)": the responses are in bijection with
the (duplicate-free) list of counted request ids, and in a complete history with ALL requests. -/
theorem responses_one_per_request {h : List Event} (c : Complete h) :
    (countIds h).Nodup ∧ (responses h).length = (countIds h).length ∧
    (∀ r, r ∈ countIds h ↔ r ∈ begins h) := by
  have inv := c.wf.inv
  refine ⟨inv.dC, length_responses h, fun r => ⟨inv.cB r, fun hr => inv.fC r (c.done r hr)⟩⟩

/-- Concurrency does not matter: two complete well-formed histories whose responses agree as
multisets (`List.Perm`) end with the same totals function and the same (zero) gauge. -/
theorem metrics_independent_of_order {h₁ h₂ : List Event} (c₁ : Complete h₁) (c₂ : Complete h₂)
    (same : (responses h₁).Perm (responses h₂)) :
    (∀ l, total (run init h₁) l = total (run init h₂) l) ∧
    (run init h₁).inFlight = (run init h₂).inFlight := by
  refine ⟨fun l => ?_, ?_⟩
  · rw [totals_eq_response_multiset, totals_eq_response_multiset]
    exact (same.map canonLabel).count_eq l
  · rw [inFlight_zero_when_all_complete c₁, inFlight_zero_when_all_complete c₂]

/-- In particular: any complete well-formed re-interleaving of the same events. -/
theorem metrics_independent_of_interleaving {h₁ h₂ : List Event} (c₁ : Complete h₁)
    (c₂ : Complete h₂) (same : h₁.Perm h₂) :
    (∀ l, total (run init h₁) l = total (run init h₂) l) ∧
    (run init h₁).inFlight = (run init h₂).inFlight :=
  metrics_independent_of_order c₁ c₂ (same.filterMap _)

/-- The sequential history used by the driver is complete, and running it yields exactly the tally
of the client-side responses. -/
theorem sequential_metrics (rs : List (String × Nat)) :
    Complete (sequential rs) ∧ (run init (sequential rs)).inFlight = 0 ∧
    ∀ l, total (run init (sequential rs)) l = tally rs l := by
  refine ⟨complete_sequential rs, inFlight_zero_when_all_complete (complete_sequential rs), ?_⟩
  intro l
  rw [totals_eq_response_multiset, sequential, responses_sequentialFrom]

/-- every concurrent complete history agrees with the sequential one over its responses -/
theorem concurrent_eq_sequential {h : List Event} (c : Complete h) :
    (∀ l, total (run init h) l = total (run init (sequential (responses h))) l) ∧
    (run init h).inFlight = (run init (sequential (responses h))).inFlight := by
  refine metrics_independent_of_order c (complete_sequential _) ?_
  rw [sequential, responses_sequentialFrom]

/-! ### canonicalisation facts (assumptions P2/P3 made concrete) -/

example : canonMethod "POST" = "post" := by decide
example : canonMethod "post" = "post" := by decide
example : canonMethod "GET" = "get" := by decide
example : canonMethod "Post" = "unknown" := by decide
example : canonMethod "FOO" = "unknown" := by decide
example : canonMethod "" = "unknown" := by decide
example : canonLabel ("POST", 0) = ("post", 200) := by decide
example : canonLabel ("DELETE", 405) = ("delete", 405) := by decide

/-! ### non-vacuity: a concrete interleaved history of three concurrent requests -/

/-- request 0: POST → 200, request 1: GET → 405, request 2: POST → 400; request 1 overtakes
request 0, request 2 starts while both are in flight and finishes last. -/
def demo : List Event :=
  [.begin 0, .begin 1, .count 1 "GET" 405, .begin 2, .count 0 "POST" 200, .finish 1,
   .count 2 "POST" 400, .finish 0, .finish 2]

example : Complete demo := by decide
example : WellFormed (demo.take 5) ∧ ¬ AllFinished (demo.take 5) := by decide
example : (run init demo).inFlight = 0 := by decide
example : (run init (demo.take 4)).inFlight = 3 := by decide
example : (run init (demo.take 5)).inFlight = 3 ∧ sumTotals (run init (demo.take 5)) = 2 := by
  decide
example : total (run init demo) ("post", 200) = 1 ∧ total (run init demo) ("post", 400) = 1 ∧
    total (run init demo) ("get", 405) = 1 ∧ total (run init demo) ("get", 200) = 0 := by decide
example : openRequests (demo.take 6) = [0, 2] := by decide
/-- ill-formed histories are rejected: count before begin, double finish, finish before count -/
example : ¬ WellFormed [.count 0 "POST" 200, .begin 0, .finish 0] := by decide
example : ¬ WellFormed [.begin 0, .count 0 "POST" 200, .finish 0, .finish 0] := by decide
example : ¬ WellFormed [.begin 0, .finish 0, .count 0 "POST" 200] := by decide
/-- the sequential history of the same responses gives the same metrics -/
example : ∀ l ∈ [("post", 200), ("post", 400), ("get", 405), ("unknown", 405)],
    total (run init demo) l = total (run init (sequential (responses demo))) l := by decide

end Smtb.Metrics

#print axioms Smtb.Metrics.wellFormed_iff_check
#print axioms Smtb.Metrics.complete_iff_checkComplete
#print axioms Smtb.Metrics.inFlight_eq_open_requests
#print axioms Smtb.Metrics.inFlight_add_finished_eq_begun
#print axioms Smtb.Metrics.finished_le_counted_le_begun
#print axioms Smtb.Metrics.sumTotals_eq_responses
#print axioms Smtb.Metrics.inFlight_zero_when_all_complete
#print axioms Smtb.Metrics.totals_eq_response_multiset
#print axioms Smtb.Metrics.responses_one_per_request
#print axioms Smtb.Metrics.metrics_independent_of_order
#print axioms Smtb.Metrics.metrics_independent_of_interleaving
#print axioms Smtb.Metrics.sequential_metrics
#print axioms Smtb.Metrics.concurrent_eq_sequential
