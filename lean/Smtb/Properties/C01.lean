import Smtb.Proofs.Merkle
import Mathlib.Tactic.NormNum.Prime
/-!
# C01 — the insertion gadgets accept exactly valid appends into empty leaves

For every prime `p`, every depth `d` with `2^d ≤ p`, every batch (any length), every
start index / roots / commitments / sibling paths in `ZMod p`, and every choice of the
prover-supplied hint wires (the existentials inside `toBinary`): the gadget is satisfiable
with result `post` iff the batch specification `Batch.insertionSpec` returns `post`.

`hash2`/`H`: any hash gadget that deterministically computes `H`; `Properties/C03.lean`
instantiates it with the Poseidon2 gadget (C05) inside the full circuit.
-/
namespace Smtb.C01
open Smtb Smtb.Sat Smtb.Circuit Smtb.Merkle Smtb.Batch

variable {p : ℕ} [Fact p.Prime]
variable (hash2 : ZMod p → ZMod p → SatM p (ZMod p)) (H : ZMod p → ZMod p → ZMod p)
variable (hH : ∀ a b k, hash2 a b k ↔ k (H a b))
include hH

/-- index addition in the field, as the circuit computes `StartIndex + i` -/
abbrev addi (s : ZMod p) (j : ℕ) : ZMod p := s + (j : ZMod p)

/-- **C01 (gadget level).** `InsertionProof` is satisfiable with final root `post` iff the batch
specification holds: every `(start + i).val` (canonical representative — so past-the-end,
`≥ 2^32` and wrap-around indices are all covered) is `< 2^d`, each empty-leaf path reproduces the
running root, and `post` is the root after writing the commitments in order. -/
theorem insertionProof_sat_iff (d : ℕ) (hd : 2 ^ d ≤ p) (start pre post : ZMod p)
    (ids : List (ZMod p)) (proofs : List (List (ZMod p))) :
    (insertionProof hash2 d start pre ids proofs) (· = post) ↔
      insertionSpec H 0 ZMod.val addi d start 0 pre ids proofs = some post := by
  rw [insertionProof_iff hash2 H hH d hd]
  constructor
  · rintro ⟨r, hr, rfl⟩; exact hr
  · intro h; exact ⟨post, h, rfl⟩

/-- one round, unfolded: range check, emptiness under the running root, new root -/
theorem insertionRound_sat_iff (d : ℕ) (hd : 2 ^ d ≤ p) (idx item prev : ZMod p) (proof : List (ZMod p))
    (k : ZMod p → Prop) :
    (insertionRound hash2 d idx item prev proof) k ↔
      idx.val < 2 ^ d ∧ recover H 0 proof (bitsLE d idx.val) = prev ∧
        k (recover H item proof (bitsLE d idx.val)) :=
  insertionRound_iff hash2 H hH d hd idx item prev proof k

/-- an index outside the tree makes the round unsatisfiable whatever the prover supplies -/
theorem insertionRound_index_out_of_range_unsat (d : ℕ) (hd : 2 ^ d ≤ p) (idx item prev : ZMod p)
    (proof : List (ZMod p)) (k : ZMod p → Prop) (h : 2 ^ d ≤ idx.val) :
    ¬ (insertionRound hash2 d idx item prev proof) k := by
  rw [insertionRound_iff hash2 H hH d hd]; omega

/-- a leaf whose empty-leaf path does not reproduce the running root is rejected -/
theorem insertionRound_occupied_unsat (d : ℕ) (hd : 2 ^ d ≤ p) (idx item prev : ZMod p)
    (proof : List (ZMod p)) (k : ZMod p → Prop)
    (h : recover H 0 proof (bitsLE d idx.val) ≠ prev) :
    ¬ (insertionRound hash2 d idx item prev proof) k := by
  rw [insertionRound_iff hash2 H hH d hd]; tauto

omit hH in
/-- no wrap-around as long as the natural sum stays below the modulus -/
theorem insertion_index_nat (start : ZMod p) (i : ℕ) (h : start.val + i < p) :
    (addi start i).val = start.val + i := by
  have : NeZero p := ⟨(Fact.out : p.Prime).ne_zero⟩
  have hi : i < p := by omega
  rw [addi, ZMod.val_add, ZMod.val_natCast, Nat.mod_eq_of_lt hi, Nat.mod_eq_of_lt h]

end Smtb.C01

/-! ### non-vacuity: a concrete satisfiable batch over `ZMod 101` with a toy hash -/
namespace Smtb.C01.Example
open Smtb Smtb.Batch

instance : Fact (Nat.Prime 101) := ⟨by norm_num⟩

def H (a b : ZMod 101) : ZMod 101 := 3 * a + 5 * b + 7

/-- depth 2, empty tree: leaf 0, level-1 empty node `H 0 0 = 7`, root `H 7 7 = 63`;
inserting 9 at index 0 and then 4 at index 1 -/
example : insertionSpec H 0 ZMod.val Smtb.C01.addi 2 (0 : ZMod 101) 0 (63 : ZMod 101)
    [9, 4] [[0, 7], [9, 7]] = some (H (H 9 4) 7) := by decide

/-- …and the same batch is rejected when the second proof is stale -/
example : insertionSpec H 0 ZMod.val Smtb.C01.addi 2 (0 : ZMod 101) 0 (63 : ZMod 101)
    [9, 4] [[0, 7], [0, 7]] = none := by decide

end Smtb.C01.Example

#print axioms Smtb.C01.insertionProof_sat_iff
#print axioms Smtb.C01.insertionRound_sat_iff
#print axioms Smtb.C01.insertionRound_index_out_of_range_unsat
#print axioms Smtb.C01.insertionRound_occupied_unsat
#print axioms Smtb.C01.insertion_index_nat
