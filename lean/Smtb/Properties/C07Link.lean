import Smtb.Proofs.Link
import Smtb.Properties.C03
import Smtb.Properties.C07
import Smtb.Properties.C09
/-!
# C07Link — "the prover returns a proof" *is* "the circuit is satisfiable"

The service-level model (`Smtb/Model/Prover.lean`, `Smtb/Model/Http.lean`) replaces Groth16 by an
ideal functionality that hands out a proof iff the executable predicate
`Prover.circuitAcceptsInsertion` / `Prover.circuitAcceptsDeletion` (on `ℕ`, reduced mod
`r = bn254r`) is `true`.  The circuit theorems (`C03.insertionCircuit_sat_iff`,
`C03.deletionCircuit_sat_iff`) are about the actual `Define` functions interpreted in the
satisfiability semantics `SatM r` over `ZMod r` (`r` proved prime).

This file proves that the two coincide:

* `circuitAcceptsInsertion_iff_sat`, `circuitAcceptsDeletion_iff_sat` — for every depth `≤ 32`
  (`≤ 31` for deletion), every batch size, every list shape (ragged and mismatching lengths
  included), the executable predicate is `true` **iff** the circuit is satisfiable on the cast
  arguments;
* `prove_ok_iff_circuit_satisfiable` — C07's `prove_ok_iff` with the model predicate replaced by
  circuit satisfiability;
* `respond_ok_iff_circuit_satisfiable`, `respond_200_iff_circuit_satisfiable` — the same for the
  HTTP handler (C09).

## Hypotheses, and why exactly these

* **reduced values**: `start < r` (resp. every deletion index `< r`), `pre < r`, `post < r`, every
  identity commitment `< r`.  They are necessary: the model compares and packs the *numbers*, the
  circuit only sees residues (`start_reduced_needed` below is a counterexample without
  `start < r`).  In the service model they always hold: every `big.Int` enters the witness through
  `red`, and indices are `uint32`s, `< 2^32 < r` (guaranteed by the decoder,
  `Codec.decodeInsertion_startIndex_lt`).
* The input hash `ih` is **arbitrary** (it enters both sides only modulo `r`).
* The **sibling paths are arbitrary** naturals: no `< r` hypothesis on their entries.  They only
  ever enter `hash2 r`, which reduces its arguments, and a recomputed root is a residue as soon as
  the leaf is (`Link.recover_lt`).
* **No shape hypothesis**: `insertionSpec` / `deletionSpec` are the *same* polymorphic functions on
  both sides and the cast preserves every list length, so whatever a ragged shape means (the batch
  stops at the shorter of the lists, `recover` stops at the shorter of path and index bits) it means
  the same on both sides.  `Params.shapeOk` appears in the corollaries only because `prove` checks
  it, not because the link needs it.
* depth `≤ 32` / `≤ 31`: the hypotheses of the C03 theorems (width side conditions of C01/C02).
-/
namespace Smtb.Properties.C07Link
open Smtb Smtb.Sat Smtb.Circuit Smtb.Batch Smtb.Poseidon Smtb.Link Smtb.Codec

/-! ## 1. the acceptance predicates are circuit satisfiability -/

/-- **Insertion.** The executable acceptance predicate of the service model is `true` iff
`InsertionMbuCircuit.Define` is satisfiable on the same values read as field elements. -/
theorem circuitAcceptsInsertion_iff_sat (d : ℕ) (hd : d ≤ 32) (ih start pre post : ℕ)
    (ids : List ℕ) (proofs : List (List ℕ))
    (hstart : start < r) (hpre : pre < r) (hpost : post < r) (hids : ∀ x ∈ ids, x < r) :
    Prover.circuitAcceptsInsertion d ih start pre post ids proofs = true ↔
      (insertionCircuit r d (ih : ZMod r) (start : ZMod r) (pre : ZMod r) (post : ZMod r)
        (ids.map (Nat.cast : ℕ → ZMod r)) (proofs.map (List.map (Nat.cast : ℕ → ZMod r)))
        : SatM r Unit) (fun _ => True) := by
  show _ ↔ (insertionCircuit r d (c ih) (c start) (c pre) (c post) (ids.map c)
    (proofs.map (List.map c)) : SatM r Unit) (fun _ => True)
  rw [C03.insertionCircuit_sat_iff d hd, val_c hstart, val_c hpre, val_c hpost, map_val_c _ hids,
    ← publicInput_insertion, ← mod_eq_iff_c,
    ← insertionSpec_iff d start post hpost ids proofs 0 pre hpre hids]
  unfold Prover.circuitAcceptsInsertion
  simp only [Bool.and_eq_true, decide_eq_true_eq, and_assoc]
  exact Iff.rfl

theorem forall_val_lt (idxs : List ℕ) (h : ∀ i ∈ idxs, i < r) :
    (∀ i ∈ idxs.map c, i.val < 2 ^ 32) ↔ ∀ i ∈ idxs, i < 2 ^ 32 := by
  rw [List.forall_mem_map]
  exact forall₂_congr fun i hi => by rw [val_c (h i hi)]

/-- **Deletion.** -/
theorem circuitAcceptsDeletion_iff_sat (d : ℕ) (hd : d ≤ 31) (ih : ℕ) (idxs : List ℕ)
    (pre post : ℕ) (ids : List ℕ) (proofs : List (List ℕ))
    (hidxs : ∀ i ∈ idxs, i < r) (hpre : pre < r) (hpost : post < r) (hids : ∀ x ∈ ids, x < r) :
    Prover.circuitAcceptsDeletion d ih idxs pre post ids proofs = true ↔
      (deletionCircuit r d (ih : ZMod r) (idxs.map (Nat.cast : ℕ → ZMod r)) (pre : ZMod r)
        (post : ZMod r) (ids.map (Nat.cast : ℕ → ZMod r))
        (proofs.map (List.map (Nat.cast : ℕ → ZMod r))) : SatM r Unit) (fun _ => True) := by
  show _ ↔ (deletionCircuit r d (c ih) (idxs.map c) (c pre) (c post) (ids.map c)
    (proofs.map (List.map c)) : SatM r Unit) (fun _ => True)
  rw [C03.deletionCircuit_sat_iff d hd, val_c hpre, val_c hpost, map_val_c _ hidxs,
    forall_val_lt idxs hidxs, ← publicInput_deletion, ← mod_eq_iff_c,
    ← deletionSpec_iff d post hpost idxs ids proofs pre hpre hidxs hids]
  unfold Prover.circuitAcceptsDeletion
  simp only [Bool.and_eq_true, decide_eq_true_eq, List.all_eq_true, and_assoc]
  exact Iff.rfl

/-! ## 2. the service theorems in circuit terms -/

/-- depth bound of the circuit theorems (deletion circuits deeper than 31 are refused at build
time, `Circuit.deletionDepthOk`) -/
def maxDepth : Prover.Mode → ℕ
  | .insertion => 32
  | .deletion => 31

/-- the `uint32` indices of a parameter set are field elements.  By their Go type they are
`< 2^32 < r`; the model's fields are `Nat`, hence the explicit hypothesis
(`indicesReduced_of_u32`, `decodeParams_indicesReduced` discharge it). -/
def indicesReduced : Prover.Params → Prop
  | .insertion p => p.startIndex < r
  | .deletion p => ∀ i ∈ Prover.DeletionParams.indices p, i < r

/-- **The circuit of the parameters' kind is satisfiable on the parameters as they enter the
witness**: every `big.Int` reduced mod `r` (`Prover.red`) and cast to `ZMod r`, indices cast. -/
def circuitSatisfiable (d : ℕ) : Prover.Params → Prop
  | .insertion p =>
    (insertionCircuit r d ((Prover.red p.inputHash : ℕ) : ZMod r) ((p.startIndex : ℕ) : ZMod r)
      ((Prover.red p.preRoot : ℕ) : ZMod r) ((Prover.red p.postRoot : ℕ) : ZMod r)
      ((p.idComms.map Prover.red).map (Nat.cast : ℕ → ZMod r))
      ((Prover.redRows p.merkleProofs).map (List.map (Nat.cast : ℕ → ZMod r)))
      : SatM r Unit) (fun _ => True)
  | .deletion p =>
    (deletionCircuit r d ((Prover.red p.inputHash : ℕ) : ZMod r)
      ((Prover.DeletionParams.indices p).map (Nat.cast : ℕ → ZMod r))
      ((Prover.red p.preRoot : ℕ) : ZMod r) ((Prover.red p.postRoot : ℕ) : ZMod r)
      ((p.idComms.map Prover.red).map (Nat.cast : ℕ → ZMod r))
      ((Prover.redRows p.merkleProofs).map (List.map (Nat.cast : ℕ → ZMod r)))
      : SatM r Unit) (fun _ => True)

/-- the same statement without `red`: reduce-then-cast is the canonical map `ℤ → ZMod r`
(`fr.Element.SetBigInt`) -/
def circuitSatisfiableInt (d : ℕ) : Prover.Params → Prop
  | .insertion p =>
    (insertionCircuit r d ((p.inputHash : ℤ) : ZMod r) ((p.startIndex : ℕ) : ZMod r)
      ((p.preRoot : ℤ) : ZMod r) ((p.postRoot : ℤ) : ZMod r)
      (p.idComms.map (Int.cast : ℤ → ZMod r))
      (p.merkleProofs.map (List.map (Int.cast : ℤ → ZMod r)))
      : SatM r Unit) (fun _ => True)
  | .deletion p =>
    (deletionCircuit r d ((p.inputHash : ℤ) : ZMod r)
      ((Prover.DeletionParams.indices p).map (Nat.cast : ℕ → ZMod r))
      ((p.preRoot : ℤ) : ZMod r) ((p.postRoot : ℤ) : ZMod r)
      (p.idComms.map (Int.cast : ℤ → ZMod r))
      (p.merkleProofs.map (List.map (Int.cast : ℤ → ZMod r)))
      : SatM r Unit) (fun _ => True)

theorem map_red_cast (l : List ℤ) :
    (l.map Prover.red).map (Nat.cast : ℕ → ZMod r) = l.map (Int.cast : ℤ → ZMod r) := by
  rw [List.map_map]
  exact List.map_congr_left fun x _ => c_red x

theorem redRows_cast (mps : List (List ℤ)) :
    (Prover.redRows mps).map (List.map (Nat.cast : ℕ → ZMod r)) =
      mps.map (List.map (Int.cast : ℤ → ZMod r)) := by
  unfold Prover.redRows
  rw [List.map_map]
  exact List.map_congr_left fun q _ => map_red_cast q

theorem circuitSatisfiable_iff_int (d : ℕ) (params : Prover.Params) :
    circuitSatisfiable d params ↔ circuitSatisfiableInt d params := by
  have h := fun x => c_red x
  unfold c at h
  cases params with
  | insertion p =>
    unfold circuitSatisfiable circuitSatisfiableInt
    simp only [h, map_red_cast, redRows_cast]
  | deletion p =>
    unfold circuitSatisfiable circuitSatisfiableInt
    simp only [h, map_red_cast, redRows_cast]

theorem two_pow_32_lt_r : (2 : ℕ) ^ 32 < r := by decide

theorem red_lt_r (x : ℤ) : Prover.red x < r := Prover.red_lt x

theorem map_red_lt (l : List ℤ) : ∀ x ∈ l.map Prover.red, x < r := by
  intro x hx
  obtain ⟨y, _, rfl⟩ := List.mem_map.mp hx
  exact red_lt_r y

/-- **`Params.accepted` is circuit satisfiability.** -/
theorem accepted_iff_circuit_satisfiable (d : ℕ) (params : Prover.Params)
    (hd : d ≤ maxDepth params.mode) (hidx : indicesReduced params) :
    params.accepted d = true ↔ circuitSatisfiable d params := by
  cases params with
  | insertion p =>
    exact circuitAcceptsInsertion_iff_sat d hd _ _ _ _ _ _ hidx (red_lt_r _) (red_lt_r _)
      (map_red_lt _)
  | deletion p =>
    exact circuitAcceptsDeletion_iff_sat d hd _ _ _ _ _ _ hidx (red_lt_r _) (red_lt_r _)
      (map_red_lt _)

/-- **C07 in circuit terms.** For a system of depth within the circuit theorems' range and
parameters of the system's kind whose `uint32` indices are (as Go values always are) below `r`:
`Prove…` returns the proof `t` iff `ValidateShape` succeeds **and the circuit of the system is
satisfiable** on the parameters reduced mod `r` and read as field elements; `t` then is the token
of this system for the public input `inputHash mod r`. -/
theorem prove_ok_iff_circuit_satisfiable (sys : Prover.System) (params : Prover.Params)
    (hm : params.mode = sys.mode) (hd : sys.depth ≤ maxDepth sys.mode)
    (hidx : indicesReduced params) (t : Prover.Token) :
    Prover.prove sys params = .ok t ↔
      params.shapeOk sys.depth sys.batch = true ∧ circuitSatisfiable sys.depth params ∧
      t = { sysId := sys.id, pub := Prover.red params.inputHash } := by
  rw [C07.prove_ok_iff sys params hm t,
    accepted_iff_circuit_satisfiable sys.depth params (by rw [hm]; exact hd) hidx]

/-- indices that fit `uint32` are field elements -/
theorem indicesReduced_of_u32 (params : Prover.Params)
    (h : match params with
      | .insertion p => p.startIndex < 2 ^ 32
      | .deletion p => ∀ i ∈ Prover.DeletionParams.indices p, i < 2 ^ 32) :
    indicesReduced params := by
  cases params with
  | insertion p => exact lt_trans h two_pow_32_lt_r
  | deletion p => exact fun i hi => lt_trans (h i hi) two_pow_32_lt_r

/-- the JSON decoder only produces `uint32` indices -/
theorem decodeParams_indicesReduced {m : Prover.Mode} {body : String} {ps : Prover.Params}
    (h : Http.decodeParams m body = .ok ps) : indicesReduced ps := by
  unfold Http.decodeParams at h
  cases m with
  | insertion =>
    simp only at h
    split at h
    · rename_i p hp
      cases h
      exact lt_trans (decodeInsertion_startIndex_lt body p hp) two_pow_32_lt_r
    · cases h
  | deletion =>
    simp only at h
    split at h
    · rename_i p hp
      cases h
      intro i hi
      unfold Prover.DeletionParams.indices at hi
      cases hl : p.deletionIndices with
      | none => rw [hl] at hi; simp at hi
      | some l =>
        rw [hl] at hi
        exact lt_trans (decodeDeletion_indices_lt body p hp l hl i hi) two_pow_32_lt_r
    · cases h

/-- the handler answers `200` with proof `t` iff the decoded parameters are proved with `t` -/
theorem respond_ok_iff_prove (sys : Prover.System) (method body : String) (t : Prover.Token) :
    Http.respond sys method body = .ok t ↔
      method = "POST" ∧ ∃ ps, Http.decodeParams sys.mode body = .ok ps ∧
        Prover.prove sys ps = .ok t := by
  rcases C09.respond_cases sys method body with ⟨hm, h⟩ | ⟨hm, e, hd, h⟩ | ⟨hm, ps, hd, hb, h⟩ |
      ⟨hm, ps, t', hd, h1, h2, hp, h⟩ <;> rw [h]
  · simp [hm]
  · simp [hd]
  · simp only [reduceCtorEq, false_iff]
    rintro ⟨_, ps', hd', hp'⟩
    rw [hd] at hd'; cases hd'
    obtain ⟨h1, h2, _⟩ := (C07.prove_ok_iff sys ps (C09.decodeParams_mode hd) t).mp hp'
    simp [h1, h2] at hb
  · constructor
    · intro ht; cases ht; exact ⟨hm, ps, hd, hp⟩
    · rintro ⟨_, ps', hd', hp'⟩
      rw [hd] at hd'; cases hd'
      rw [hp] at hp'; cases hp'; rfl

/-- **C09 in circuit terms, with the proof.** The handler answers `200` with body `t` iff the
request is a `POST` whose body decodes to a parameter set of the system's dimensions **on which
the system's circuit is satisfiable**, and `t` is the system's token for `inputHash mod r`.
No hypothesis on the indices: the decoder guarantees them. -/
theorem respond_ok_iff_circuit_satisfiable (sys : Prover.System)
    (hd : sys.depth ≤ maxDepth sys.mode) (method body : String) (t : Prover.Token) :
    Http.respond sys method body = .ok t ↔
      method = "POST" ∧ ∃ ps, Http.decodeParams sys.mode body = .ok ps ∧
        ps.shapeOk sys.depth sys.batch = true ∧ circuitSatisfiable sys.depth ps ∧
        t = { sysId := sys.id, pub := Prover.red ps.inputHash } := by
  rw [respond_ok_iff_prove]
  constructor
  · rintro ⟨hm, ps, hdec, hp⟩
    exact ⟨hm, ps, hdec, (prove_ok_iff_circuit_satisfiable sys ps (C09.decodeParams_mode hdec) hd
      (decodeParams_indicesReduced hdec) t).mp hp⟩
  · rintro ⟨hm, ps, hdec, hrest⟩
    exact ⟨hm, ps, hdec, (prove_ok_iff_circuit_satisfiable sys ps (C09.decodeParams_mode hdec) hd
      (decodeParams_indicesReduced hdec) t).mpr hrest⟩

/-- **`C09.respond_200_iff_valid_batch` in circuit terms.** `200` exactly for `POST` requests whose
body decodes to a parameter set with the system's dimensions on which the system's circuit is
satisfiable. -/
theorem respond_200_iff_circuit_satisfiable (sys : Prover.System)
    (hd : sys.depth ≤ maxDepth sys.mode) (method body : String) :
    ((∃ t, Http.respond sys method body = .ok t) ↔
      method = "POST" ∧ ∃ ps, Http.decodeParams sys.mode body = .ok ps ∧
        ps.shapeOk sys.depth sys.batch = true ∧ circuitSatisfiable sys.depth ps) ∧
    ((Http.respond sys method body).status = 200 ↔ ∃ t, Http.respond sys method body = .ok t) := by
  refine ⟨?_, (C09.respond_200_iff_valid_batch sys method body).2⟩
  constructor
  · rintro ⟨t, ht⟩
    obtain ⟨hm, ps, hdec, h1, h2, _⟩ :=
      (respond_ok_iff_circuit_satisfiable sys hd method body t).mp ht
    exact ⟨hm, ps, hdec, h1, h2⟩
  · rintro ⟨hm, ps, hdec, h1, h2⟩
    exact ⟨_, (respond_ok_iff_circuit_satisfiable sys hd method body _).mpr
      ⟨hm, ps, hdec, h1, h2, rfl⟩⟩

/-! ## 3. Non-vacuity, and necessity of the reducedness hypothesis -/

namespace Example
open C07.Example

/-- the valid depth-1 batch of `C07.Example` (kernel-evaluated model predicate) yields a
satisfying assignment of the actual insertion circuit over `ZMod r` -/
theorem good_circuit_satisfiable :
    (insertionCircuit r 1 (ih : ZMod r) ((0 : ℕ) : ZMod r) (pre : ZMod r) (post : ZMod r)
      ([1].map (Nat.cast : ℕ → ZMod r)) ([[0]].map (List.map (Nat.cast : ℕ → ZMod r)))
      : SatM r Unit) (fun _ => True) :=
  (circuitAcceptsInsertion_iff_sat 1 (by decide) ih 0 pre post [1] [[0]] (by decide) (by decide)
    (by decide) (by decide)).mp good_accepted

/-- … and the same batch with the 33-bit start index `2^32` does not: unsatisfiability of the
circuit obtained from the model predicate being `false` (the link used right-to-left) -/
theorem bad_circuit_unsatisfiable :
    ¬ (insertionCircuit r 1 (ih : ZMod r) ((2 ^ 32 : ℕ) : ZMod r) (pre : ZMod r) (post : ZMod r)
      ([1].map (Nat.cast : ℕ → ZMod r)) ([[0]].map (List.map (Nat.cast : ℕ → ZMod r)))
      : SatM r Unit) (fun _ => True) := by
  rw [← circuitAcceptsInsertion_iff_sat 1 (by decide) ih (2 ^ 32) pre post [1] [[0]] (by decide)
    (by decide) (by decide) (by decide)]
  unfold Prover.circuitAcceptsInsertion
  have : decide ((2 : ℕ) ^ 32 < 2 ^ 32) = false := by decide
  rw [this]
  simp

/-- the HTTP example of C09: the `200` answer means the circuit is satisfiable on the decoded body -/
example : ∃ ps, Http.decodeParams .insertion C09.Example.goodBody = .ok ps ∧
    circuitSatisfiable 1 ps := by
  obtain ⟨_, ps, hdec, _, hsat, _⟩ :=
    (respond_ok_iff_circuit_satisfiable sysI (by decide) "POST" C09.Example.goodBody _).mp
      C09.Example.respond_good
  exact ⟨ps, hdec, hsat⟩

/-- **the hypothesis `start < r` cannot be dropped**: with `start = r` the model rejects (the
number `r` does not fit 32 bits) while the circuit, which sees the residue `0`, is satisfiable -/
theorem start_reduced_needed :
    Prover.circuitAcceptsInsertion 1 ih r pre post [1] [[0]] = false ∧
    (insertionCircuit r 1 (ih : ZMod r) ((r : ℕ) : ZMod r) (pre : ZMod r) (post : ZMod r)
      ([1].map (Nat.cast : ℕ → ZMod r)) ([[0]].map (List.map (Nat.cast : ℕ → ZMod r)))
      : SatM r Unit) (fun _ => True) := by
  constructor
  · unfold Prover.circuitAcceptsInsertion
    have : decide (r < 2 ^ 32) = false := by decide
    rw [this]; rfl
  · have h := good_circuit_satisfiable
    rwa [Nat.cast_zero, ← ZMod.natCast_self r] at h

end Example

end Smtb.Properties.C07Link

#print axioms Smtb.Properties.C07Link.circuitAcceptsInsertion_iff_sat
#print axioms Smtb.Properties.C07Link.circuitAcceptsDeletion_iff_sat
#print axioms Smtb.Properties.C07Link.circuitSatisfiable_iff_int
#print axioms Smtb.Properties.C07Link.accepted_iff_circuit_satisfiable
#print axioms Smtb.Properties.C07Link.prove_ok_iff_circuit_satisfiable
#print axioms Smtb.Properties.C07Link.decodeParams_indicesReduced
#print axioms Smtb.Properties.C07Link.respond_ok_iff_prove
#print axioms Smtb.Properties.C07Link.respond_ok_iff_circuit_satisfiable
#print axioms Smtb.Properties.C07Link.respond_200_iff_circuit_satisfiable
#print axioms Smtb.Properties.C07Link.Example.good_circuit_satisfiable
#print axioms Smtb.Properties.C07Link.Example.bad_circuit_unsatisfiable
#print axioms Smtb.Properties.C07Link.Example.start_reduced_needed
