import Smtb.Model.Merkle
import Smtb.Model.Tree
import Smtb.Proofs.Tree

/-!
# C18 — the off-chain Poseidon tree (`poseidon_tree/poseidon_tree.go`) is a correct Merkle tree

All statements are for every depth `d`, every history of `Update(index, value)` calls (any
length, any order, repeated indices, writing `zero`, indices `≥ 2^d`), an abstract field `F`, an
abstract two-to-one hash `H` (no assumptions) and an abstract `zero`.

* `reach H zero d hist` is the Go tree after `NewTree(d)` followed by the updates in `hist`.
* `leavesAfter zero d hist` is the specification-level leaf assignment: start from all `zero`,
  and for each `(i, v)` set leaf `i mod 2^d` to `v` (the Go code ignores index bits `≥ d`).
* `Merkle.rootOf`, `Merkle.pathOf`, `Merkle.recover`, `Merkle.bitsLE` are the dense reference
  tree, its genuine sibling paths, the verifier-side root recomputation and the direction bits.
-/
namespace Smtb.Properties.C18

open Smtb.Merkle Smtb.Tree

variable {F : Type} [Inhabited F] (H : F → F → F) (zero : F)

/-- the tree reached from `NewTree(d)` by the update history `hist` -/
abbrev reach (d : Nat) (hist : List (Nat × F)) : Tree F :=
  (newTree H zero d).run H zero hist

omit [Inhabited F] in
/-- running one more `Update` is the same as extending the history -/
theorem reach_snoc (d : Nat) (hist : List (Nat × F)) (i : Nat) (v : F) :
    reach H zero d (hist ++ [(i, v)]) = ((reach H zero d hist).update H zero i v).1 :=
  Tree.run_snoc H zero _ hist i v

/-- **Root correctness.** `Root()` of every reachable tree is the root of the dense reference tree
over the abstract leaves. -/
theorem root_eq_dense (d : Nat) (hist : List (Nat × F)) :
    (reach H zero d hist).rootValue zero = rootOf H d (leavesAfter zero d hist) :=
  (reachable_reprT d hist).rootValue_eq

/-- **`Update` returns an authenticating path.**  For a reachable tree `t` and
`(t', prf) := t.Update(i, v)`: `prf` has length `d`; it is the genuine sibling path of leaf
`i mod 2^d`; it authenticates the OLD leaf value against the OLD root, and the NEW value `v`
against the NEW root (Go computes the proof on the new tree; the siblings of leaf `i` are not
changed by updating leaf `i`, so both hold). -/
theorem update_proof_authenticates (d : Nat) (hist : List (Nat × F)) (i : Nat) (v : F) :
    let t := reach H zero d hist
    let t' := (t.update H zero i v).1
    let prf := (t.update H zero i v).2
    prf.length = d ∧
    prf = pathOf H d (leavesAfter zero d hist) i ∧
    recover H (leavesAfter zero d hist (i % 2 ^ d)) prf (bitsLE d (i % 2 ^ d)) = t.rootValue zero ∧
    recover H v prf (bitsLE d (i % 2 ^ d)) = t'.rootValue zero := by
  intro t t' prf
  have hR := reachable_reprT (H := H) (zero := zero) d hist
  have hprf : prf = pathOf H d (leavesAfter zero d hist) i := hR.update_proof i v
  have hR' := hR.update i v
  refine ⟨by rw [hprf, pathOf_length], hprf, ?_, ?_⟩
  · rw [hprf, bitsLE_mod d d i (Nat.le_refl d), recover_pathOf, hR.rootValue_eq]
  · have hnew := recover_pathOf H d (setLeaf (leavesAfter zero d hist) (i % 2 ^ d) v) i
    rw [pathOf_setLeaf] at hnew
    rw [hprf, bitsLE_mod d d i (Nat.le_refl d), hR'.rootValue_eq, ← hnew]
    simp [setLeaf]

/-- every reachable tree stores exactly the abstract leaves (structural lookup `leafOf`) -/
theorem leafOf_reach (d : Nat) (hist : List (Nat × F)) (j : Nat) :
    leafOf zero (reach H zero d hist).root j = leavesAfter zero d hist (j % 2 ^ d) :=
  (reachable_reprT (H := H) d hist).2.leafOf_eq j

/-- the updated leaf holds the new value -/
theorem update_hit (d : Nat) (hist : List (Nat × F)) (i : Nat) (v : F) :
    leavesAfter zero d (hist ++ [(i, v)]) (i % 2 ^ d) = v ∧
    leafOf zero ((reach H zero d hist).update H zero i v).1.root i = v := by
  have h1 : leavesAfter zero d (hist ++ [(i, v)]) (i % 2 ^ d) = v := by
    rw [leavesAfter_snoc]; simp [setLeaf]
  refine ⟨h1, ?_⟩
  rw [← reach_snoc, leafOf_reach, h1]

/-- **Frame.**  Updating leaf `i` leaves every leaf `j` with `j mod 2^d ≠ i mod 2^d` alone, both
in the abstract leaf assignment and in the stored tree. -/
theorem update_frame (d : Nat) (hist : List (Nat × F)) (i : Nat) (v : F) (j : Nat)
    (hne : j % 2 ^ d ≠ i % 2 ^ d) :
    let t := reach H zero d hist
    let t' := (t.update H zero i v).1
    leavesAfter zero d (hist ++ [(i, v)]) (j % 2 ^ d) = leavesAfter zero d hist (j % 2 ^ d) ∧
    leafOf zero t'.root j = leafOf zero t.root j := by
  intro t t'
  have h1 : leavesAfter zero d (hist ++ [(i, v)]) (j % 2 ^ d)
      = leavesAfter zero d hist (j % 2 ^ d) := by
    rw [leavesAfter_snoc]; simp [setLeaf, hne]
  refine ⟨h1, ?_⟩
  show leafOf zero ((reach H zero d hist).update H zero i v).1.root j = _
  rw [← reach_snoc, leafOf_reach, leafOf_reach, h1]

/-- **Representation invariant.**  Every reachable tree is well formed (`WF`: each full node of
depth `> 0` caches `H` of its children's values and its children are exactly one level lower; each
empty node of depth `dep` finds the roots of the all-zero dense trees of depth `0 … dep` in range
in `emptyTreeValues`, in particular its `value()` is the all-zero root of its depth), its root has
depth `d`, and the shared table is still the one built by `NewTree` (length `d + 1`). -/
theorem tree_wf_invariant (d : Nat) (hist : List (Nat × F)) :
    let t := reach H zero d hist
    WF H zero t.emptyTreeValues t.root ∧
    t.root.depth = d ∧
    t.emptyTreeValues = initHashes H zero d ∧
    t.emptyTreeValues.length = d + 1 ∧
    TableOK H zero t.emptyTreeValues d := by
  intro t
  have hR := reachable_reprT (H := H) (zero := zero) d hist
  have hev : t.emptyTreeValues = initHashes H zero d := Tree.run_emptyTreeValues H zero hist _
  exact ⟨hR.2.wf, hR.2.depth_eq, hev, hR.1, hev ▸ initHashes_tableOK H zero d⟩

omit [Inhabited F] in
/-- what `WF` buys: the cached value of any well-formed node (reachable or not) is the dense root
over its own leaves, and an empty node's value is the all-zero root -/
theorem wf_value (ev : List F) (n : Node F) (h : WF H zero ev n) :
    n.value ev zero = rootOf H n.depth (leafOf zero n) := h.value_eq

omit [Inhabited F] in
theorem wf_empty_value (ev : List F) (dep : Nat) (h : WF H zero ev (.empty dep)) :
    (Node.empty dep : Node F).value ev zero = rootOf H dep (fun _ => zero) :=
  TableOK.getD h (Nat.le_refl dep)

/-! ## Non-vacuity: a concrete run

`F := Nat`, `H a b := 2a + 3b + 1`, depth 3, four updates: a repeated index (5), a write of `zero`,
and an out-of-range index (13 ≡ 5 mod 8). -/

section Example

def exH (a b : Nat) : Nat := 2 * a + 3 * b + 1
def exHist : List (Nat × Nat) := [(5, 7), (2, 9), (5, 0), (13, 4)]
def exTree : Tree Nat := reach exH 0 3 exHist

/-- the tree just before the last update -/
def exPrev : Tree Nat := reach exH 0 3 [(5, 7), (2, 9), (5, 0)]

/-- `NewTree(3)` builds the table `[0, H 0 0, …]` and has the all-zero root -/
example : (newTree exH 0 3).emptyTreeValues = [0, 1, 6, 31] := by decide
example : (newTree exH 0 3).rootValue 0 = 31 := by decide

/-- the final root, evaluated through the Go model … -/
example : exTree.rootValue 0 = 211 := by decide
/-- … differs from the empty root … -/
example : exTree.rootValue 0 ≠ (newTree exH 0 3).rootValue 0 := by decide
/-- … and agrees with the independently evaluated dense reference tree (`root_eq_dense`) -/
example : rootOf exH 3 (leavesAfter 0 3 exHist) = 211 := by decide
example : (List.range 8).map (leavesAfter 0 3 exHist) = [0, 0, 9, 0, 0, 4, 0, 0] := by decide
example : (List.range 8).map (leafOf 0 exTree.root) = [0, 0, 9, 0, 0, 4, 0, 0] := by decide

/-- the last `Update(13, 4)` (13 ≡ 5 mod 8): returned proof, old root, new root -/
example : (exPrev.update exH 0 13 4).2 = [0, 1, 60] := by decide
example : exPrev.rootValue 0 = 139 := by decide
example : (exPrev.update exH 0 13 4).1.rootValue 0 = 211 := by decide
example : recover exH 0 [0, 1, 60] (bitsLE 3 (13 % 2 ^ 3)) = 139 := by decide
example : recover exH 4 [0, 1, 60] (bitsLE 3 (13 % 2 ^ 3)) = 211 := by decide
/-- a wrong leaf value does not authenticate (the equations above are not trivially true) -/
example : recover exH 5 [0, 1, 60] (bitsLE 3 (13 % 2 ^ 3)) ≠ 211 := by decide

/-- the general theorems instantiate at this run -/
example : exTree.rootValue 0 = rootOf exH 3 (leavesAfter 0 3 exHist) :=
  root_eq_dense exH 0 3 exHist
example : WF exH 0 exTree.emptyTreeValues exTree.root := (tree_wf_invariant exH 0 3 exHist).1

end Example

end Smtb.Properties.C18

#print axioms Smtb.Properties.C18.root_eq_dense
#print axioms Smtb.Properties.C18.update_proof_authenticates
#print axioms Smtb.Properties.C18.update_frame
#print axioms Smtb.Properties.C18.update_hit
#print axioms Smtb.Properties.C18.leafOf_reach
#print axioms Smtb.Properties.C18.tree_wf_invariant
#print axioms Smtb.Properties.C18.wf_value
#print axioms Smtb.Properties.C18.wf_empty_value
