import Smtb.Proofs.Pack
import Smtb.Proofs.GenParams
import Smtb.Proofs.GenProvable
import Smtb.Properties.C03
/-!
# C08 — the off-chain input-hash helpers compute the hash the circuit enforces

Subject: `ComputeInputHashInsertion` (`/repo/prover/insertion_proving_system.go:47-68`),
`ComputeInputHashDeletion` (`/repo/prover/deletion_proving_system.go:50-64`) and the
`gen-test-params` command (`/repo/main.go:212-273`), at the state after the repair commit
`ee23ff1`.  Model: `Smtb/Model/Pack.lean` (tied to the Go code by the differential test
`harness/cmd/corr08` ↔ `driver corr c08`).

* **Specification** = `packInsertion` / `packDeletion`: 4-byte big-endian indices, 32-byte
  big-endian roots and commitments (what the verifier contract packs).  `pack_bits_*` shows that
  this byte string *is* the bit string the circuits feed to Keccak (`Sat.insertionHashBits`,
  `Sat.deletionHashBits`, used by C03), and `helper_hash_is_public_input_*` closes the chain to
  the field element C03 proves the circuit to enforce.
* "In range": roots and commitments `< 2^256`.  Indices are Go `uint32`s; the packing lemmas hold
  for every `Nat` index (only the low 32 bits are written, in Go by the type, in the model by
  `u32be`), so no hypothesis on indices is needed except for injectivity.
* For a root `≥ 2^256` the CURRENT helpers panic in `FillBytes` (`helper_panics_*`); such values
  are outside the property's quantifier ("values in range").
* The pre-repair helpers (`…Old`) are kept as regression model: they agree with the specification
  only for roots with a non-zero leading byte (`…Old_partial`) and hash a shorter string for every
  root `< 2^248` (`…Old_short`, witnesses `…Old_defect`).
-/
namespace Smtb.Properties.C08
open Smtb Smtb.Bits Smtb.Pack Smtb.Batch Smtb.Poseidon

/-! ## The current helpers pack exactly the on-chain byte string -/

/-- **Insertion, full strength**: every start index, all roots and commitments below `2^256`, every
batch size. -/
theorem helperPackInsertion_eq (start pre post : ℕ) (ids : List ℕ)
    (hpre : pre < 2 ^ 256) (hpost : post < 2 ^ 256) (hids : ∀ id ∈ ids, id < 2 ^ 256) :
    helperPackInsertion start pre post ids = some (packInsertion start pre post ids) :=
  Pack.helperPackInsertion_eq start pre post ids hpre hpost hids

/-- **Deletion, full strength.** -/
theorem helperPackDeletion_eq (idxs : List ℕ) (pre post : ℕ)
    (hpre : pre < 2 ^ 256) (hpost : post < 2 ^ 256) :
    helperPackDeletion idxs pre post = some (packDeletion idxs pre post) :=
  Pack.helperPackDeletion_eq idxs pre post hpre hpost

/-- out of range: `FillBytes` panics for a root of more than 32 bytes -/
theorem helper_panics_insertion (start pre post : ℕ) (ids : List ℕ)
    (h : 2 ^ 256 ≤ pre ∨ 2 ^ 256 ≤ post) : helperPackInsertion start pre post ids = none := by
  unfold helperPackInsertion
  rcases h with h | h
  · rw [fillBytes32_none h]
  · rw [fillBytes32_none h]; cases fillBytes32 pre <;> rfl

theorem helper_panics_deletion (idxs : List ℕ) (pre post : ℕ)
    (h : 2 ^ 256 ≤ pre ∨ 2 ^ 256 ≤ post) : helperPackDeletion idxs pre post = none := by
  unfold helperPackDeletion
  rcases h with h | h
  · rw [fillBytes32_none h]
  · rw [fillBytes32_none h]; cases fillBytes32 pre <;> rfl

/-! ## The packing is the bit string the circuit hashes -/

theorem pack_bits_insertion (s pre post : ℕ) (ids : List ℕ) :
    bitsOfBytes (packInsertion s pre post ids) = Sat.insertionHashBits s pre post ids :=
  Pack.pack_bits_insertion s pre post ids

theorem pack_bits_deletion (idxs : List ℕ) (pre post : ℕ) :
    bitsOfBytes (packDeletion idxs pre post) = Sat.deletionHashBits idxs pre post :=
  Pack.pack_bits_deletion idxs pre post

/-- **The helper's hash is the circuit's hash (insertion).** -/
theorem helper_hash_is_circuit_hash_insertion (start pre post : ℕ) (ids : List ℕ)
    (hpre : pre < 2 ^ 256) (hpost : post < 2 ^ 256) (hids : ∀ id ∈ ids, id < 2 ^ 256) :
    inputHashInsertion start pre post ids =
      some (natOfBytesBE (KeccakRef.bitsToBytes (KeccakRef.keccak256Bits
        (Sat.insertionHashBits start pre post ids)))) := by
  unfold inputHashInsertion hashOf KeccakRef.keccak256
  rw [helperPackInsertion_eq start pre post ids hpre hpost hids, Option.map_some, bytesToBits_eq,
    pack_bits_insertion]

/-- **The helper's hash is the circuit's hash (deletion).** -/
theorem helper_hash_is_circuit_hash_deletion (idxs : List ℕ) (pre post : ℕ)
    (hpre : pre < 2 ^ 256) (hpost : post < 2 ^ 256) :
    inputHashDeletion idxs pre post =
      some (natOfBytesBE (KeccakRef.bitsToBytes (KeccakRef.keccak256Bits
        (Sat.deletionHashBits idxs pre post)))) := by
  unfold inputHashDeletion hashOf KeccakRef.keccak256
  rw [helperPackDeletion_eq idxs pre post hpre hpost, Option.map_some, bytesToBits_eq,
    pack_bits_deletion]

/-- … and it is the hash of the specification packing (what the contract computes) -/
theorem helper_hash_is_spec_hash_insertion (start pre post : ℕ) (ids : List ℕ)
    (hpre : pre < 2 ^ 256) (hpost : post < 2 ^ 256) (hids : ∀ id ∈ ids, id < 2 ^ 256) :
    inputHashInsertion start pre post ids = some (specHashInsertion start pre post ids) := by
  unfold inputHashInsertion specHashInsertion
  rw [helperPackInsertion_eq start pre post ids hpre hpost hids]; rfl

theorem helper_hash_is_spec_hash_deletion (idxs : List ℕ) (pre post : ℕ)
    (hpre : pre < 2 ^ 256) (hpost : post < 2 ^ 256) :
    inputHashDeletion idxs pre post = some (specHashDeletion idxs pre post) := by
  unfold inputHashDeletion specHashDeletion
  rw [helperPackDeletion_eq idxs pre post hpre hpost]; rfl

/-- **Closing the chain to C03**: reduced modulo `r`, the helper's hash is the public input that
`C03.insertionCircuit_sat_iff` shows the insertion circuit to enforce. -/
theorem helper_hash_is_public_input_insertion (start pre post : ℕ) (ids : List ℕ)
    (hpre : pre < 2 ^ 256) (hpost : post < 2 ^ 256) (hids : ∀ id ∈ ids, id < 2 ^ 256) :
    ∃ h, inputHashInsertion start pre post ids = some h ∧
      ((h : ℕ) : ZMod C03.r) = C03.insertionPublicInput start pre post ids := by
  refine ⟨_, helper_hash_is_circuit_hash_insertion start pre post ids hpre hpost hids, ?_⟩
  unfold C03.insertionPublicInput
  rw [natOfBytesBE_bitsToBytes _ (by rw [keccak256Bits_length]; decide)]

theorem helper_hash_is_public_input_deletion (idxs : List ℕ) (pre post : ℕ)
    (hpre : pre < 2 ^ 256) (hpost : post < 2 ^ 256) :
    ∃ h, inputHashDeletion idxs pre post = some h ∧
      ((h : ℕ) : ZMod C03.r) = C03.deletionPublicInput idxs pre post := by
  refine ⟨_, helper_hash_is_circuit_hash_deletion idxs pre post hpre hpost, ?_⟩
  unfold C03.deletionPublicInput
  rw [natOfBytesBE_bitsToBytes _ (by rw [keccak256Bits_length]; decide)]

/-! ## Injectivity of the packing -/

/-- different start index / root / commitment / batch size ⇒ different byte string -/
theorem pack_injective_insertion (s pre post : ℕ) (ids : List ℕ) (s' pre' post' : ℕ) (ids' : List ℕ)
    (hs : s < 2 ^ 32) (hpre : pre < 2 ^ 256) (hpost : post < 2 ^ 256) (hids : ∀ id ∈ ids, id < 2 ^ 256)
    (hs' : s' < 2 ^ 32) (hpre' : pre' < 2 ^ 256) (hpost' : post' < 2 ^ 256)
    (hids' : ∀ id ∈ ids', id < 2 ^ 256)
    (h : packInsertion s pre post ids = packInsertion s' pre' post' ids') :
    s = s' ∧ pre = pre' ∧ post = post' ∧ ids = ids' := by
  have hlen : ids.length = ids'.length := by
    have := congrArg List.length h
    rw [length_packInsertion, length_packInsertion] at this
    omega
  rw [two_pow_256] at hpre hpost hids hpre' hpost' hids'
  rw [two_pow_32] at hs hs'
  unfold packInsertion at h
  obtain ⟨h123, h4⟩ := List.append_inj h (by simp [length_bytesBE])
  obtain ⟨h12, h3⟩ := List.append_inj h123 (by simp [length_bytesBE])
  obtain ⟨h1, h2⟩ := List.append_inj h12 (by simp [length_bytesBE])
  exact ⟨bytesBE_inj 4 hs hs' h1, bytesBE_inj 32 hpre hpre' h2, bytesBE_inj 32 hpost hpost' h3,
    flatMap_bytesBE_inj 32 ids ids' hlen hids hids' h4⟩

theorem pack_injective_deletion (idxs : List ℕ) (pre post : ℕ) (idxs' : List ℕ) (pre' post' : ℕ)
    (hidx : ∀ i ∈ idxs, i < 2 ^ 32) (hpre : pre < 2 ^ 256) (hpost : post < 2 ^ 256)
    (hidx' : ∀ i ∈ idxs', i < 2 ^ 32) (hpre' : pre' < 2 ^ 256) (hpost' : post' < 2 ^ 256)
    (h : packDeletion idxs pre post = packDeletion idxs' pre' post') :
    idxs = idxs' ∧ pre = pre' ∧ post = post' := by
  have hlen : idxs.length = idxs'.length := by
    have := congrArg List.length h
    rw [length_packDeletion, length_packDeletion] at this
    omega
  rw [two_pow_256] at hpre hpost hpre' hpost'
  rw [two_pow_32] at hidx hidx'
  unfold packDeletion at h
  obtain ⟨h12, h3⟩ := List.append_inj h (by
    rw [List.length_append, List.length_append, length_flatMap_bytesBE, length_flatMap_bytesBE,
      length_bytesBE, length_bytesBE, hlen])
  obtain ⟨h1, h2⟩ := List.append_inj h12 (by
    rw [length_flatMap_bytesBE, length_flatMap_bytesBE, hlen])
  exact ⟨flatMap_bytesBE_inj 4 idxs idxs' hlen hidx hidx' h1, bytesBE_inj 32 hpre hpre' h2,
    bytesBE_inj 32 hpost hpost' h3⟩

/-! ## The pre-repair helpers (regression model of the defect repaired by `ee23ff1`) -/

/-- the old helper was right exactly when both roots have a non-zero leading byte -/
theorem helperPackInsertionOld_partial (start pre post : ℕ) (ids : List ℕ)
    (hpre : pre < 2 ^ 256) (hpost : post < 2 ^ 256) (hids : ∀ id ∈ ids, id < 2 ^ 256)
    (hpre' : 2 ^ 248 ≤ pre) (hpost' : 2 ^ 248 ≤ post) :
    helperPackInsertionOld start pre post ids = packInsertion start pre post ids :=
  Pack.helperPackInsertionOld_partial start pre post ids hpre hpost hids hpre' hpost'

theorem helperPackDeletionOld_partial (idxs : List ℕ) (pre post : ℕ)
    (hpre : pre < 2 ^ 256) (hpost : post < 2 ^ 256) (hpre' : 2 ^ 248 ≤ pre) (hpost' : 2 ^ 248 ≤ post) :
    helperPackDeletionOld idxs pre post = packDeletion idxs pre post :=
  Pack.helperPackDeletionOld_partial idxs pre post hpre hpost hpre' hpost'

/-- for EVERY pre-root with a leading zero byte the old helper hashed a shorter byte string -/
theorem helperPackInsertionOld_short (start pre post : ℕ) (ids : List ℕ)
    (hpost : post < 2 ^ 256) (hids : ∀ id ∈ ids, id < 2 ^ 256) (hpre : pre < 2 ^ 248) :
    helperPackInsertionOld start pre post ids ≠ packInsertion start pre post ids := by
  intro h
  have := Pack.helperPackInsertionOld_short start pre post ids hpost hids hpre
  rw [h] at this
  exact Nat.lt_irrefl _ this

theorem helperPackDeletionOld_short (idxs : List ℕ) (pre post : ℕ)
    (hpost : post < 2 ^ 256) (hpre : pre < 2 ^ 248) :
    helperPackDeletionOld idxs pre post ≠ packDeletion idxs pre post := by
  intro h
  have := Pack.helperPackDeletionOld_short idxs pre post hpost hpre
  rw [h] at this
  exact Nat.lt_irrefl _ this

/-- concrete witness (`pre = 1`), by evaluation -/
theorem helperPackInsertionOld_defect :
    ∃ (s pre post : ℕ) (ids : List ℕ), s < 2 ^ 32 ∧ pre < 2 ^ 256 ∧ post < 2 ^ 256 ∧
      (∀ id ∈ ids, id < 2 ^ 256) ∧
      helperPackInsertionOld s pre post ids ≠ packInsertion s pre post ids :=
  ⟨0, 1, 2 ^ 255, [5], by decide +kernel⟩

theorem helperPackDeletionOld_defect :
    ∃ (idxs : List ℕ) (pre post : ℕ), (∀ i ∈ idxs, i < 2 ^ 32) ∧ pre < 2 ^ 256 ∧ post < 2 ^ 256 ∧
      helperPackDeletionOld idxs pre post ≠ packDeletion idxs pre post :=
  ⟨[7], 1, 2 ^ 255, by decide +kernel⟩

/-- the witness at the level of the hash value (Keccak evaluated on 64-bit words, C04) -/
theorem inputHashInsertionOld_defect : inputHashInsertionOld 0 1 (2 ^ 255) [5] ≠ specHashInsertion 0 1 (2 ^ 255) [5] := by
  unfold inputHashInsertionOld specHashInsertion hashOf
  rw [Proofs.Keccak.keccak256_eq_W, Proofs.Keccak.keccak256_eq_W]
  decide +kernel

/-- … while the current helper returns the specification's hash on the same input -/
theorem inputHashInsertion_witness :
    inputHashInsertion 0 1 (2 ^ 255) [5] = some (specHashInsertion 0 1 (2 ^ 255) [5]) :=
  helper_hash_is_spec_hash_insertion 0 1 (2 ^ 255) [5] (by decide) (by decide) (by decide)

/-! ## `gen-test-params` emits provable parameters -/

/-- **Insertion mode**, every depth with `2^d ≤ r` and every batch size `b ≤ 2^d`: the emitted
batch has the right shape, satisfies the insertion specification of C01 for the Poseidon tree
hash (start index 0, every leaf empty before its insertion, post-root reached), and the emitted
input hash is the one the circuit enforces. -/
theorem genTestParams_insertion_valid (d b : ℕ) (hb : b ≤ 2 ^ d) (hd : 2 ^ d ≤ bn254r) :
    (genInsertion d b).startIndex = 0 ∧
    (genInsertion d b).idComms = (List.range b).map (· + 1) ∧
    (genInsertion d b).merkleProofs.length = b ∧
    (∀ prf ∈ (genInsertion d b).merkleProofs, prf.length = d) ∧
    insertionSpec H254 0 id (fun s j => (s + j) % bn254r) d 0 0 (genInsertion d b).preRoot
      (genInsertion d b).idComms (genInsertion d b).merkleProofs = some (genInsertion d b).postRoot ∧
    genInsertionHash d b = some (natOfBytesBE (KeccakRef.bitsToBytes (KeccakRef.keccak256Bits
      (Sat.insertionHashBits 0 (genInsertion d b).preRoot (genInsertion d b).postRoot
        (genInsertion d b).idComms)))) := by
  obtain ⟨h1, h2, h3, h4⟩ : (genInsertion d b).startIndex = 0 ∧
      (genInsertion d b).idComms = (List.range b).map (· + 1) ∧
      (genInsertion d b).merkleProofs.length = b ∧
      ∀ prf ∈ (genInsertion d b).merkleProofs, prf.length = d := genInsertionG_shape H254 0 id d b
  have hr := bn254r_lt
  refine ⟨h1, h2, h3, h4, ?_, ?_⟩
  · exact genInsertionG_valid H254 0 id id (fun s j => (s + j) % bn254r) 0 d b hb
      (fun j hj => by simp only [id, Nat.zero_add]; exact Nat.mod_eq_of_lt (by omega))
  · have hP : ∀ a c, H254 a c < 2 ^ 256 := fun a c => lt_trans (H254_lt a c) hr
    have hpre : (genInsertion d b).preRoot < 2 ^ 256 :=
      reach_root_pred H254 0 (· < 2 ^ 256) hP (by norm_num) d [] (by simp)
    have hpost : (genInsertion d b).postRoot < 2 ^ 256 := by
      show (runUpdates H254 0 (Tree.newTree H254 0 d) (insUpdates id b)).1.rootValue 0 < 2 ^ 256
      rw [runUpdates_fst]
      refine reach_root_pred H254 0 (· < 2 ^ 256) hP (by norm_num) d _ ?_
      intro u hu
      obtain ⟨i, hi, rfl⟩ := List.mem_map.mp hu
      have := List.mem_range.mp hi
      simp only [id]; omega
    unfold genInsertionHash
    simp only []
    rw [h1]
    refine helper_hash_is_circuit_hash_insertion 0 _ _ _ hpre hpost ?_
    rw [h2]
    intro x hx
    obtain ⟨i, hi, rfl⟩ := List.mem_map.mp hx
    have := List.mem_range.mp hi
    show i + 1 < 2 ^ 256
    omega

/-- **Deletion mode**, every depth with `2^d ≤ r` and every batch size with `2b ≤ 2^d`: the tree
is filled with `1 … 2b`, the even leaves `0, 2, …, 2(b-1)` are deleted presenting their values
`1, 3, …`; the emitted batch satisfies the deletion specification of C02 and carries the input
hash the circuit enforces. -/
theorem genTestParams_deletion_valid (d b : ℕ) (hb : 2 * b ≤ 2 ^ d) (hd : 2 ^ d ≤ bn254r) :
    (genDeletion d b).deletionIndices = (List.range b).map (2 * ·) ∧
    (genDeletion d b).idComms = (List.range b).map (2 * · + 1) ∧
    (genDeletion d b).merkleProofs.length = b ∧
    (∀ prf ∈ (genDeletion d b).merkleProofs, prf.length = d) ∧
    deletionSpec H254 0 id d (genDeletion d b).preRoot (genDeletion d b).deletionIndices
      (genDeletion d b).idComms (genDeletion d b).merkleProofs = some (genDeletion d b).postRoot ∧
    genDeletionHash d b = some (natOfBytesBE (KeccakRef.bitsToBytes (KeccakRef.keccak256Bits
      (Sat.deletionHashBits (genDeletion d b).deletionIndices (genDeletion d b).preRoot
        (genDeletion d b).postRoot)))) := by
  obtain ⟨h1, h2, h3, h4⟩ : (genDeletion d b).deletionIndices = (List.range b).map (2 * ·) ∧
      (genDeletion d b).idComms = (List.range b).map (2 * · + 1) ∧
      (genDeletion d b).merkleProofs.length = b ∧
      ∀ prf ∈ (genDeletion d b).merkleProofs, prf.length = d := genDeletionG_shape H254 0 id d b
  have hr := bn254r_lt
  refine ⟨h1, h2, h3, h4, ?_, ?_⟩
  · have := genDeletionG_valid H254 0 id id id d b hb (fun j _ => rfl)
    rwa [List.map_id] at this
  · have hP : ∀ a c, H254 a c < 2 ^ 256 := fun a c => lt_trans (H254_lt a c) hr
    have hfillv : ∀ u ∈ fillUpdates (id : ℕ → ℕ) b, u.2 < 2 ^ 256 := by
      intro u hu
      obtain ⟨i, hi, rfl⟩ := List.mem_map.mp hu
      have := List.mem_range.mp hi
      simp only [id]; omega
    have hpre : (genDeletion d b).preRoot < 2 ^ 256 := by
      show (runUpdates H254 0 (Tree.newTree H254 0 d) (fillUpdates id b)).1.rootValue 0 < 2 ^ 256
      rw [runUpdates_fst]
      exact reach_root_pred H254 0 (· < 2 ^ 256) hP (by norm_num) d _ hfillv
    have hpost : (genDeletion d b).postRoot < 2 ^ 256 := by
      show (runUpdates H254 0 (runUpdates H254 0 (Tree.newTree H254 0 d) (fillUpdates id b)).1
        (delUpdates 0 b)).1.rootValue 0 < 2 ^ 256
      rw [runUpdates_fst, runUpdates_fst, ← Tree.Tree.run_append]
      refine reach_root_pred H254 0 (· < 2 ^ 256) hP (by norm_num) d _ ?_
      intro u hu
      rcases List.mem_append.mp hu with hu | hu
      · exact hfillv u hu
      · obtain ⟨i, _, rfl⟩ := List.mem_map.mp hu
        norm_num
    unfold genDeletionHash
    exact helper_hash_is_circuit_hash_deletion _ _ _ hpre hpost

/-! ## … and the emitted parameters satisfy the circuits (composition with C03) -/

section provable
open Smtb.Sat Smtb.Circuit

theorem val_cast_of_lt {x : ℕ} (h : x < bn254r) : ((x : ℕ) : ZMod C03.r).val = x := by
  rw [ZMod.val_natCast]; exact Nat.mod_eq_of_lt h

theorem map_val_cast (l : List ℕ) (h : ∀ x ∈ l, x < bn254r) :
    (l.map fun x => ((x : ℕ) : ZMod C03.r)).map ZMod.val = l := by
  rw [List.map_map]
  conv_rhs => rw [← List.map_id l]
  exact List.map_congr_left fun x hx => val_cast_of_lt (h x hx)

theorem two_pow_32_lt_r : (2 : ℕ) ^ 32 < bn254r := by decide

/-- roots of the insertion run are field elements -/
theorem genInsertion_roots_lt (d b : ℕ) (hb : b < bn254r) :
    (genInsertion d b).preRoot < bn254r ∧ (genInsertion d b).postRoot < bn254r := by
  constructor
  · exact reach_root_pred H254 0 (· < bn254r) H254_lt bn254r_pos d [] (by simp)
  · show (runUpdates H254 0 (Tree.newTree H254 0 d) (insUpdates id b)).1.rootValue 0 < bn254r
    rw [runUpdates_fst]
    refine reach_root_pred H254 0 (· < bn254r) H254_lt bn254r_pos d _ ?_
    intro u hu
    obtain ⟨i, hi, rfl⟩ := List.mem_map.mp hu
    have := List.mem_range.mp hi
    show i + 1 < bn254r
    omega

theorem genDeletion_roots_lt (d b : ℕ) (hb : 2 * b < bn254r) :
    (genDeletion d b).preRoot < bn254r ∧ (genDeletion d b).postRoot < bn254r := by
  have hfillv : ∀ u ∈ fillUpdates (id : ℕ → ℕ) b, u.2 < bn254r := by
    intro u hu
    obtain ⟨i, hi, rfl⟩ := List.mem_map.mp hu
    have := List.mem_range.mp hi
    show i + 1 < bn254r
    omega
  constructor
  · show (runUpdates H254 0 (Tree.newTree H254 0 d) (fillUpdates id b)).1.rootValue 0 < bn254r
    rw [runUpdates_fst]
    exact reach_root_pred H254 0 (· < bn254r) H254_lt bn254r_pos d _ hfillv
  · show (runUpdates H254 0 (runUpdates H254 0 (Tree.newTree H254 0 d) (fillUpdates id b)).1
      (delUpdates 0 b)).1.rootValue 0 < bn254r
    rw [runUpdates_fst, runUpdates_fst, ← Tree.Tree.run_append]
    refine reach_root_pred H254 0 (· < bn254r) H254_lt bn254r_pos d _ ?_
    intro u hu
    rcases List.mem_append.mp hu with hu | hu
    · exact hfillv u hu
    · obtain ⟨i, _, rfl⟩ := List.mem_map.mp hu
      exact bn254r_pos

/-- **`gen-test-params --mode insertion` emits provable parameters**: for every depth `d ≤ 32`
and batch size `b ≤ 2^d`, the insertion circuit of that dimension is satisfiable on the emitted
parameter set (values read as field elements), i.e. a proof can be generated for it. -/
theorem genTestParams_insertion_provable (d b : ℕ) (hd : d ≤ 32) (hb : b ≤ 2 ^ d) :
    ∃ ih, genInsertionHash d b = some ih ∧
      (insertionCircuit C03.r d ((ih : ℕ) : ZMod C03.r)
        (((genInsertion d b).startIndex : ℕ) : ZMod C03.r)
        (((genInsertion d b).preRoot : ℕ) : ZMod C03.r)
        (((genInsertion d b).postRoot : ℕ) : ZMod C03.r)
        ((genInsertion d b).idComms.map fun x => ((x : ℕ) : ZMod C03.r))
        ((genInsertion d b).merkleProofs.map (List.map fun x => ((x : ℕ) : ZMod C03.r)))
        : SatM C03.r Unit) (fun _ => True) := by
  have hdr : 2 ^ d ≤ bn254r := (C03.depth_ok d hd).1
  have h2d : 2 ^ d ≤ 2 ^ 32 := Nat.pow_le_pow_right (by norm_num) hd
  have h32 := two_pow_32_lt_r
  obtain ⟨h1, h2, _, _, hspec, _⟩ := genTestParams_insertion_valid d b hb hdr
  obtain ⟨hpre, hpost⟩ := genInsertion_roots_lt d b (by omega)
  have hids : ∀ x ∈ (genInsertion d b).idComms, x < bn254r := by
    rw [h2]
    intro x hx
    obtain ⟨i, hi, rfl⟩ := List.mem_map.mp hx
    have := List.mem_range.mp hi
    show i + 1 < bn254r
    omega
  have hr := bn254r_lt
  obtain ⟨ih, hih, hpub⟩ := helper_hash_is_public_input_insertion 0 (genInsertion d b).preRoot
    (genInsertion d b).postRoot (genInsertion d b).idComms (by omega) (by omega)
    (fun x hx => lt_trans (hids x hx) hr)
  refine ⟨ih, by unfold genInsertionHash; simp only []; rw [h1]; exact hih, ?_⟩
  rw [C03.insertionCircuit_sat_iff d hd, h1, val_cast_of_lt hpre, val_cast_of_lt hpost,
    map_val_cast _ hids, Nat.cast_zero, ZMod.val_zero]
  refine ⟨by norm_num, hpub, ?_⟩
  have := insertionSpec_map (fun x : ℕ => ((x : ℕ) : ZMod C03.r)) H254 (poseidonH C03.r) cast_H254
    0 id ZMod.val (fun s j => (s + j) % bn254r) (fun s j => s + (j : ZMod C03.r)) 0 0 d
    (genInsertion d b).idComms (genInsertion d b).merkleProofs 0 (genInsertion d b).preRoot
    (genInsertion d b).postRoot (by
      intro j _ _
      simp only [zero_add, id, ZMod.val_natCast]) hspec
  simpa only [Nat.cast_zero] using this

/-- **`gen-test-params --mode deletion` emits provable parameters**: every depth `d ≤ 31`, every
batch size with `2b ≤ 2^d`. -/
theorem genTestParams_deletion_provable (d b : ℕ) (hd : d ≤ 31) (hb : 2 * b ≤ 2 ^ d) :
    ∃ ih, genDeletionHash d b = some ih ∧
      (deletionCircuit C03.r d ((ih : ℕ) : ZMod C03.r)
        ((genDeletion d b).deletionIndices.map fun x => ((x : ℕ) : ZMod C03.r))
        (((genDeletion d b).preRoot : ℕ) : ZMod C03.r)
        (((genDeletion d b).postRoot : ℕ) : ZMod C03.r)
        ((genDeletion d b).idComms.map fun x => ((x : ℕ) : ZMod C03.r))
        ((genDeletion d b).merkleProofs.map (List.map fun x => ((x : ℕ) : ZMod C03.r)))
        : SatM C03.r Unit) (fun _ => True) := by
  have hdr : 2 ^ d ≤ bn254r := (C03.depth_ok d (by omega)).1
  have h2d : 2 ^ d ≤ 2 ^ 31 := Nat.pow_le_pow_right (by norm_num) hd
  have h32 := two_pow_32_lt_r
  obtain ⟨h1, _, _, _, hspec, _⟩ := genTestParams_deletion_valid d b hb hdr
  obtain ⟨hpre, hpost⟩ := genDeletion_roots_lt d b (by omega)
  have hidx : ∀ x ∈ (genDeletion d b).deletionIndices, x < 2 ^ 32 := by
    rw [h1]
    intro x hx
    obtain ⟨i, hi, rfl⟩ := List.mem_map.mp hx
    have := List.mem_range.mp hi
    show 2 * i < 2 ^ 32
    omega
  have hidxr : ∀ x ∈ (genDeletion d b).deletionIndices, x < bn254r :=
    fun x hx => lt_trans (hidx x hx) h32
  have hr := bn254r_lt
  obtain ⟨ih, hih, hpub⟩ := helper_hash_is_public_input_deletion (genDeletion d b).deletionIndices
    (genDeletion d b).preRoot (genDeletion d b).postRoot (by omega) (by omega)
  refine ⟨ih, hih, ?_⟩
  rw [C03.deletionCircuit_sat_iff d hd, val_cast_of_lt hpre, val_cast_of_lt hpost,
    map_val_cast _ hidxr]
  refine ⟨?_, hpub, ?_⟩
  · intro i hi
    obtain ⟨x, hx, rfl⟩ := List.mem_map.mp hi
    rw [val_cast_of_lt (hidxr x hx)]
    exact hidx x hx
  · have := deletionSpec_map (fun x : ℕ => ((x : ℕ) : ZMod C03.r)) H254 (poseidonH C03.r) cast_H254
      0 id ZMod.val d (genDeletion d b).deletionIndices (genDeletion d b).idComms
      (genDeletion d b).merkleProofs (genDeletion d b).preRoot (genDeletion d b).postRoot
      (fun i hi => val_cast_of_lt (hidxr i hi)) hspec
    simpa only [Nat.cast_zero] using this

end provable

/-! ## Non-vacuity -/

/-- the hypotheses of the two theorems hold for every supported dimension, e.g. … -/
example : (3 : ℕ) ≤ 2 ^ 2 ∧ 2 ^ 2 ≤ bn254r := by decide
example : (2 : ℕ) ^ 32 ≤ bn254r := by decide

/-- the CURRENT helper on a root with 31 leading zero bytes: exactly the 100 bytes of the
specification -/
example : helperPackInsertion 7 1 (2 ^ 255) [5] =
    some ([0, 0, 0, 7] ++ (List.replicate 31 0 ++ [1]) ++ (128 :: List.replicate 31 0) ++
      (List.replicate 31 0 ++ [5])) := by decide +kernel

/-- the pre-repair helper on the same input: 69 bytes -/
example : helperPackInsertionOld 7 1 (2 ^ 255) [5] =
    [0, 0, 0, 7] ++ [1] ++ (128 :: List.replicate 31 0) ++ (List.replicate 31 0 ++ [5]) := by
  decide +kernel

example : helperPackDeletion [1, 2 ^ 32 - 1] 0 255 =
    some ([0, 0, 0, 1, 255, 255, 255, 255] ++ List.replicate 32 0 ++ (List.replicate 31 0 ++ [255])) := by
  decide +kernel

/-- `FillBytes` panics for `2^256` -/
example : helperPackInsertion 0 (2 ^ 256) 0 [] = none := by decide +kernel

/-- a commitment of 33 bytes is appended unpadded (outside the quantifier, but modelled) -/
example : (helperPackInsertion 0 0 0 [2 ^ 256]).map List.length = some 101 := by decide +kernel

end Smtb.Properties.C08

#print axioms Smtb.Properties.C08.helperPackInsertion_eq
#print axioms Smtb.Properties.C08.helperPackDeletion_eq
#print axioms Smtb.Properties.C08.helper_panics_insertion
#print axioms Smtb.Properties.C08.helper_panics_deletion
#print axioms Smtb.Properties.C08.pack_bits_insertion
#print axioms Smtb.Properties.C08.pack_bits_deletion
#print axioms Smtb.Properties.C08.helper_hash_is_circuit_hash_insertion
#print axioms Smtb.Properties.C08.helper_hash_is_circuit_hash_deletion
#print axioms Smtb.Properties.C08.helper_hash_is_spec_hash_insertion
#print axioms Smtb.Properties.C08.helper_hash_is_spec_hash_deletion
#print axioms Smtb.Properties.C08.helper_hash_is_public_input_insertion
#print axioms Smtb.Properties.C08.helper_hash_is_public_input_deletion
#print axioms Smtb.Properties.C08.pack_injective_insertion
#print axioms Smtb.Properties.C08.pack_injective_deletion
#print axioms Smtb.Properties.C08.helperPackInsertionOld_partial
#print axioms Smtb.Properties.C08.helperPackDeletionOld_partial
#print axioms Smtb.Properties.C08.helperPackInsertionOld_short
#print axioms Smtb.Properties.C08.helperPackDeletionOld_short
#print axioms Smtb.Properties.C08.helperPackInsertionOld_defect
#print axioms Smtb.Properties.C08.helperPackDeletionOld_defect
#print axioms Smtb.Properties.C08.inputHashInsertionOld_defect
#print axioms Smtb.Properties.C08.inputHashInsertion_witness
#print axioms Smtb.Properties.C08.genTestParams_insertion_valid
#print axioms Smtb.Properties.C08.genTestParams_deletion_valid
#print axioms Smtb.Properties.C08.genTestParams_insertion_provable
#print axioms Smtb.Properties.C08.genTestParams_deletion_provable
