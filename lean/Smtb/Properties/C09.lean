import Smtb.Model.Http
import Smtb.Proofs.Codec
import Smtb.Properties.C07
/-!
# C09 — `/prove` answers every request with the documented status, code and a valid proof

Subject: `server/server.go:111-168` (`proveHandler.ServeHTTP`), with the decoder of
`prover/marshal.go` (model `Smtb/Model/Codec/Json.lean`, property C16) and the prover glue
(model `Smtb/Model/Prover.lean`, property C07).  Model: `Smtb/Model/Http.lean`.

Quantifiers: every proving system `sys` of either mode (the server is started with the mode of
its keys, `respond sys`), every method string, every body text (the body *bytes* enter through
`Codec.utf8Lossy`, as in C16), every history of requests.

Standing assumption: Groth16 as an ideal functionality (header of `Smtb/Model/Prover.lean`).
"Valid batch" = the document decodes, has the system's dimensions, and the circuit accepts the
values reduced mod `r` (`Params.accepted`, i.e. `circuitAcceptsInsertion/Deletion`).

Totality ("no request makes the handler crash or hang") is the fact that `respond` is a total
function with four outcomes, together with `C07.prove_never_panics`; the 500 branch and the
`200 null` answer of an unknown handler mode are discussed in the header of the model.
Nothing is `_partial`.
-/
namespace Smtb.Properties.C09
open Smtb.Codec Smtb.Prover Smtb.Http

theorem decodeParams_mode {m : Mode} {body : String} {ps : Params}
    (h : decodeParams m body = .ok ps) : ps.mode = m := by
  unfold decodeParams at h
  cases m with
  | insertion =>
    simp only at h
    split at h
    · cases h; rfl
    · cases h
  | deletion =>
    simp only at h
    split at h
    · cases h; rfl
    · cases h

/-- `prove` on well-moded parameters in closed form -/
theorem prove_decoded (sys : System) (ps : Params) (hm : ps.mode = sys.mode) :
    (∃ t, prove sys ps = .ok t) ↔
      (ps.shapeOk sys.depth sys.batch = true ∧ ps.accepted sys.depth = true) := by
  constructor
  · rintro ⟨t, ht⟩
    have := (C07.prove_ok_iff sys ps hm t).mp ht
    exact ⟨this.1, this.2.1⟩
  · rintro ⟨h1, h2⟩
    exact ⟨_, (C07.prove_ok_iff sys ps hm _).mpr ⟨h1, h2, rfl⟩⟩

/-- The handler in closed form: a case distinction on (method, decoder result, validity). -/
theorem respond_cases (sys : System) (method body : String) :
    (method ≠ "POST" ∧ respond sys method body = .methodNotAllowed) ∨
    (method = "POST" ∧ ∃ e, decodeParams sys.mode body = .error e ∧
      respond sys method body = .malformedBody) ∨
    (method = "POST" ∧ ∃ ps, decodeParams sys.mode body = .ok ps ∧
      (ps.shapeOk sys.depth sys.batch && ps.accepted sys.depth) = false ∧
      respond sys method body = .provingError) ∨
    (method = "POST" ∧ ∃ ps t, decodeParams sys.mode body = .ok ps ∧
      ps.shapeOk sys.depth sys.batch = true ∧ ps.accepted sys.depth = true ∧
      prove sys ps = .ok t ∧ respond sys method body = .ok t) := by
  by_cases hm : method = "POST"
  · cases hd : decodeParams sys.mode body with
    | error e =>
      refine Or.inr (Or.inl ⟨hm, e, rfl, ?_⟩)
      unfold respond respondCfg
      rw [if_neg (by simp [hm]), hd]
    | ok ps =>
      have hmode := decodeParams_mode hd
      have hiff := prove_decoded sys ps hmode
      cases hp : prove sys ps with
      | error e =>
        refine Or.inr (Or.inr (Or.inl ⟨hm, ps, rfl, ?_, ?_⟩))
        · cases hb : (ps.shapeOk sys.depth sys.batch && ps.accepted sys.depth) with
          | false => rfl
          | true =>
            rw [Bool.and_eq_true] at hb
            obtain ⟨t, ht⟩ := hiff.mpr hb
            rw [hp] at ht; cases ht
        · unfold respond respondCfg
          rw [if_neg (by simp [hm]), hd]
          simp only [hp]
      | ok t =>
        have := hiff.mp ⟨t, hp⟩
        refine Or.inr (Or.inr (Or.inr ⟨hm, ps, t, rfl, this.1, this.2, hp, ?_⟩))
        unfold respond respondCfg
        rw [if_neg (by simp [hm]), hd]
        simp only [hp]
  · refine Or.inl ⟨hm, ?_⟩
    unfold respond respondCfg
    rw [if_pos hm]

/-- **`respond_405_iff`.** 405 exactly for the methods other than the exact string `POST`
(`"post"`, `"GET"`, `""`, … all get 405; the body is not even read). -/
theorem respond_405_iff (sys : System) (method body : String) :
    (respond sys method body = .methodNotAllowed ↔ method ≠ "POST") ∧
    ((respond sys method body).status = 405 ↔ method ≠ "POST") := by
  rcases respond_cases sys method body with ⟨hm, h⟩ | ⟨hm, e, _, h⟩ | ⟨hm, ps, _, _, h⟩ |
      ⟨hm, ps, t, _, _, _, _, h⟩ <;> rw [h] <;> simp [hm, Resp.status]

/-- **`respond_malformed_iff`.** `malformed_body` exactly for POST requests whose body is not a
well-formed parameter document of the server's mode. -/
theorem respond_malformed_iff (sys : System) (method body : String) :
    respond sys method body = .malformedBody ↔
      method = "POST" ∧ ∃ e, decodeParams sys.mode body = .error e := by
  rcases respond_cases sys method body with ⟨hm, h⟩ | ⟨hm, e, hd, h⟩ | ⟨hm, ps, hd, _, h⟩ |
      ⟨hm, ps, t, hd, _, _, _, h⟩ <;> rw [h]
  · simp [hm]
  · simp [hm, hd]
  · simp [hm, hd]
  · simp [hm, hd]

/-- `proving_error` exactly for POST requests with a well-formed document that has the wrong
dimensions or does not describe a valid batch. -/
theorem respond_provingError_iff (sys : System) (method body : String) :
    respond sys method body = .provingError ↔
      method = "POST" ∧ ∃ ps, decodeParams sys.mode body = .ok ps ∧
        (ps.shapeOk sys.depth sys.batch && ps.accepted sys.depth) = false := by
  rcases respond_cases sys method body with ⟨hm, h⟩ | ⟨hm, e, hd, h⟩ | ⟨hm, ps, hd, hb, h⟩ |
      ⟨hm, ps, t, hd, h1, h2, _, h⟩ <;> rw [h]
  · simp [hm]
  · simp [hd]
  · simp only [true_iff]; exact ⟨hm, ps, hd, hb⟩
  · simp only [reduceCtorEq, false_iff]
    rintro ⟨_, ps', hps', hb⟩
    rw [hd] at hps'; cases hps'
    simp [h1, h2] at hb

/-- **`respond_200_iff_valid_batch`.** 200 exactly for POST requests whose body decodes to a
parameter set with the system's dimensions that the circuit accepts. -/
theorem respond_200_iff_valid_batch (sys : System) (method body : String) :
    ((∃ t, respond sys method body = .ok t) ↔
      method = "POST" ∧ ∃ ps, decodeParams sys.mode body = .ok ps ∧
        ps.shapeOk sys.depth sys.batch = true ∧ ps.accepted sys.depth = true) ∧
    ((respond sys method body).status = 200 ↔ ∃ t, respond sys method body = .ok t) := by
  constructor
  · rcases respond_cases sys method body with ⟨hm, h⟩ | ⟨hm, e, hd, h⟩ | ⟨hm, ps, hd, hb, h⟩ |
        ⟨hm, ps, t, hd, h1, h2, _, h⟩ <;> rw [h]
    · simp [hm]
    · simp [hd]
    · simp only [reduceCtorEq, exists_false, false_iff]
      rintro ⟨_, ps', hps', h1, h2⟩
      rw [hd] at hps'; cases hps'
      simp [h1, h2] at hb
    · exact ⟨fun _ => ⟨hm, ps, hd, h1, h2⟩, fun _ => ⟨t, rfl⟩⟩
  · cases respond sys method body with
    | methodNotAllowed => simp [Resp.status]
    | malformedBody => simp [Resp.status]
    | provingError => simp [Resp.status]
    | ok t => simp [Resp.status]

/-- **`respond_total_classified`.** Every request gets exactly one of the four documented answers,
and which one is determined as documented.  (The four cases are mutually exclusive: the
constructors of `Resp` are distinct and so are the four conditions.) -/
theorem respond_total_classified (sys : System) (method body : String) :
    (method ≠ "POST" ∧ respond sys method body = .methodNotAllowed ∧
      (respond sys method body).status = 405 ∧ (respond sys method body).code = none) ∨
    (method = "POST" ∧ (∃ e, decodeParams sys.mode body = .error e) ∧
      respond sys method body = .malformedBody ∧
      (respond sys method body).status = 400 ∧
      (respond sys method body).code = some "malformed_body") ∨
    (method = "POST" ∧ (∃ ps, decodeParams sys.mode body = .ok ps ∧
        (ps.shapeOk sys.depth sys.batch && ps.accepted sys.depth) = false) ∧
      respond sys method body = .provingError ∧
      (respond sys method body).status = 400 ∧
      (respond sys method body).code = some "proving_error") ∨
    (method = "POST" ∧ (∃ ps, decodeParams sys.mode body = .ok ps ∧
        ps.shapeOk sys.depth sys.batch = true ∧ ps.accepted sys.depth = true) ∧
      (∃ t, respond sys method body = .ok t) ∧
      (respond sys method body).status = 200 ∧ (respond sys method body).code = none) := by
  by_cases hm : method = "POST"
  · cases hd : decodeParams sys.mode body with
    | error e =>
      have h := (respond_malformed_iff sys method body).mpr ⟨hm, e, hd⟩
      exact Or.inr (Or.inl ⟨hm, ⟨e, rfl⟩, h, by rw [h]; rfl, by rw [h]; rfl⟩)
    | ok ps =>
      cases hb : (ps.shapeOk sys.depth sys.batch && ps.accepted sys.depth) with
      | false =>
        have h := (respond_provingError_iff sys method body).mpr ⟨hm, ps, hd, hb⟩
        exact Or.inr (Or.inr (Or.inl ⟨hm, ⟨ps, rfl, hb⟩, h, by rw [h]; rfl, by rw [h]; rfl⟩))
      | true =>
        rw [Bool.and_eq_true] at hb
        obtain ⟨t, h⟩ := (respond_200_iff_valid_batch sys method body).1.mpr ⟨hm, ps, hd, hb.1, hb.2⟩
        exact Or.inr (Or.inr (Or.inr ⟨hm, ⟨ps, rfl, hb.1, hb.2⟩, ⟨t, h⟩, by rw [h]; rfl, by rw [h]; rfl⟩))
  · have h := (respond_405_iff sys method body).1.mpr hm
    exact Or.inl ⟨hm, h, by rw [h]; rfl, by rw [h]; rfl⟩

/-- the four conditions of `respond_total_classified` exclude one another: the answer is a
function of (is the method POST, does the body decode, is the decoded batch valid) -/
theorem respond_outcomes_exclusive (sys : System) (method body : String) :
    (respond sys method body = .methodNotAllowed → method ≠ "POST") ∧
    (respond sys method body = .malformedBody → ∀ ps, decodeParams sys.mode body ≠ .ok ps) ∧
    (respond sys method body = .provingError → ∀ t, respond sys method body ≠ .ok t) := by
  refine ⟨(respond_405_iff sys method body).1.mp, ?_, ?_⟩
  · intro h ps hps
    obtain ⟨_, e, he⟩ := (respond_malformed_iff sys method body).mp h
    rw [hps] at he; cases he
  · intro h t ht
    rw [h] at ht; cases ht

/-- **`respond_200_body_verifies`.** The proof in a 200 answer verifies, under the server's own
proving system, for the input hash *of the request* (any representative mod `r`); it is rejected
for every non-congruent hash and by every other proving system. -/
theorem respond_200_body_verifies (sys : System) (method body : String) (t : Token)
    (h : respond sys method body = .ok t) :
    ∃ ps, decodeParams sys.mode body = .ok ps ∧
      (∀ k : Int, verify sys (ps.inputHash + k * (r : Int)) t = true) ∧
      verify sys ps.inputHash t = true ∧
      (∀ h' : Int, h'.emod (r : Int) ≠ ps.inputHash.emod (r : Int) → verify sys h' t = false) ∧
      (∀ sys' : System, sys'.id ≠ sys.id → ∀ h' : Int, verify sys' h' t = false) := by
  rcases respond_cases sys method body with ⟨hm, h'⟩ | ⟨hm, e, hd, h'⟩ | ⟨hm, ps, hd, hb, h'⟩ |
      ⟨hm, ps, t', hd, h1, h2, hp, h'⟩ <;> rw [h'] at h <;> try (cases h; done)
  cases h
  refine ⟨ps, hd, fun k => C07.verify_own_hash sys ps t hp k, ?_,
    fun h' hne => C07.verify_other_hash_rejects sys ps t hp h' hne,
    fun sys' hid h' => C07.verify_other_system_rejects sys sys' ps t hp hid h'⟩
  have := C07.verify_own_hash sys ps t hp 0
  simpa using this

/-- **`respond_stateless`.** On one server, the answer to the `n`-th request of *any* history of
requests is `respond` of that request alone: the handler's mutable state is `Unit`.  In
particular a malformed, unprovable or non-POST request does not influence later answers. -/
theorem respond_stateless (sys : System) (hist : List Request) (n : Nat) (rq : Request)
    (h : hist[n]? = some rq) :
    (serve sys () hist)[n]? = some (respond sys rq.method rq.body) := by
  induction hist generalizing n with
  | nil => simp at h
  | cons a rest ih =>
    cases n with
    | zero =>
      simp only [List.getElem?_cons_zero, Option.some.injEq] at h
      subst h
      simp [serve, handle]
    | succ m =>
      simp only [List.getElem?_cons_succ] at h
      simpa [serve, handle] using ih m h

/-- the server answers exactly as many requests as it received -/
theorem serve_length (sys : System) (hist : List Request) :
    (serve sys () hist).length = hist.length := by
  induction hist with
  | nil => rfl
  | cons a rest ih => simp [serve, handle, ih]

/-! ## Non-vacuity -/

theorem prove_insertion (sys : System) (p : InsertionParams) :
    prove sys (.insertion p) = proveInsertion sys p := rfl

theorem decodeParams_insertion (body : String) (p : InsertionParams)
    (h : decodeInsertion body = .ok p) : decodeParams .insertion body = .ok (.insertion p) := by
  unfold decodeParams; simp only [h]

theorem decodeParams_deletion (body : String) (p : DeletionParams)
    (h : decodeDeletion body = .ok p) : decodeParams .deletion body = .ok (.deletion p) := by
  unfold decodeParams; simp only [h]

/-- the 200 path in one lemma (also for a handler mode that differs from the system's) -/
theorem respondCfg_ok (m : Mode) (sys : System) (body : String) (ps : Params) (t : Token)
    (hd : decodeParams m body = .ok ps) (hp : prove sys ps = .ok t) :
    respondCfg m sys "POST" body = .ok t := by
  unfold respondCfg
  rw [if_neg (by simp), hd]
  simp only [hp]

namespace Example
open C07.Example

/-- JSON text of the valid depth-1 batch of `C07.Example` -/
def goodBody : String := encodeInsertion good

/-- not `POST`: 405 whatever the body -/
example : respond sysI "GET" goodBody = .methodNotAllowed :=
  (respond_405_iff sysI "GET" goodBody).1.mpr (by decide)
example : respond sysI "post" goodBody = .methodNotAllowed :=
  (respond_405_iff sysI "post" goodBody).1.mpr (by decide)

/-- malformed bodies: 400 malformed_body (the empty object `{}` is malformed because
`fromHex ""` fails; an index `2^32` does not fit `uint32`) -/
example : respond sysI "POST" "" = .malformedBody := by decide +kernel
example : respond sysI "POST" "{}" = .malformedBody := by decide +kernel
example : respond sysI "POST" "{\"inputHash\":\"zz\"}" = .malformedBody := by decide +kernel
example : respond sysI "POST" "{\"startIndex\":4294967296}" = .malformedBody := by decide +kernel
example : respond sysD "POST" "[1,2" = .malformedBody := by decide +kernel

/-- a well-formed document with the wrong dimensions (no identity commitments at all):
400 proving_error -/
example : respond sysI "POST" "{\"inputHash\":\"0x1\",\"preRoot\":\"0x0\",\"postRoot\":\"0x0\"}" =
    .provingError := by decide +kernel
example : respond sysD "POST" "{\"inputHash\":\"0x1\",\"preRoot\":\"0x0\",\"postRoot\":\"0x0\"}" =
    .provingError := by decide +kernel

theorem decode_goodBody : decodeInsertion goodBody = .ok good :=
  Smtb.Codec.decodeInsertion_encodeInsertion good (InsertionParams.nonNeg_ofNat ..) (by decide)

/-- the valid batch: 200 with the proof token of `C07.Example.prove_good` -/
theorem respond_good : respond sysI "POST" goodBody = .ok { sysId := 7, pub := ih } :=
  respondCfg_ok _ _ _ _ _ (decodeParams_insertion _ _ decode_goodBody)
    ((prove_insertion _ _).trans prove_good)

end Example

end Smtb.Properties.C09

#print axioms Smtb.Properties.C09.respond_total_classified
#print axioms Smtb.Properties.C09.respond_outcomes_exclusive
#print axioms Smtb.Properties.C09.respond_405_iff
#print axioms Smtb.Properties.C09.respond_malformed_iff
#print axioms Smtb.Properties.C09.respond_provingError_iff
#print axioms Smtb.Properties.C09.respond_200_iff_valid_batch
#print axioms Smtb.Properties.C09.respond_200_body_verifies
#print axioms Smtb.Properties.C09.respond_stateless
#print axioms Smtb.Properties.C09.serve_length
#print axioms Smtb.Properties.C09.Example.respond_good
