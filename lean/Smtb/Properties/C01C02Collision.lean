import Smtb.Proofs.DenseCollision
import Smtb.Properties.C01
import Smtb.Properties.C02
import Smtb.Properties.C01Dense
import Smtb.Properties.C02Dense
import Smtb.Properties.C03
import Mathlib.Data.Fintype.Pigeonhole
import Mathlib.Data.ZMod.Basic

/-!
# C01 / C02 at tree level for a REAL (non-injective) hash

`Properties/C01Dense.lean` and `Properties/C02Dense.lean` relate `Batch.insertionSpec` /
`Batch.deletionSpec` to the dense Merkle tree under the hypothesis

`hinj : ∀ a b c d, H a b = H c d → a = c ∧ b = d`.

**No such `H` exists on a finite carrier with more than one element** (`no_injective_hash`,
`no_injective_hash_zmod` below: pigeonhole), in particular not on the circuit's own carrier
`ZMod p`.  Those theorems are therefore vacuous for the hash the circuit really computes; only the
examples over `ℕ` with `Nat.pair` inhabit them.  This file replaces them by statements that make
**no assumption on `H` at all**.

## Statements (insertion; deletion is analogous)

* (a) COMPLETENESS, every `H`: `insertion_complete` (the ← direction of
  `C01Dense.insertion_dense`, without `hinj` and without the length side conditions),
  `insertion_complete_genuine` (the batch carrying the tree's own sibling paths
  `DenseCollision.insertionPaths`), `insertion_complete_noWrap` (consecutive positions, emptiness
  stated about the original tree).
* (b) SOUNDNESS UP TO A COLLISION, every `H`:
  `insertion_sound_or_collision` — if the specification accepts, then the right-hand side of
  `C01Dense.insertion_dense` holds OR `∃ a b c e, (a, b) ≠ (c, e) ∧ H a b = H c e`.
  `insertion_sound_or_located_collision` — the sharper form: the collision is *located*
  (`DenseCollision.OpeningCollision`): for some slot `k`, a pair of sibling nodes of the genuine
  running tree `f_k` collides with a pair that the verifier hashes while recomputing the presented
  path `proofs[k]` from the empty leaf.
* (c) over `ZMod p`, composed with `C01.insertionProof_sat_iff` / `C02.deletionProof_sat_iff`
  (any hash gadget `hash2` computing `H`), with the project's Poseidon gadget
  (`Sat.poseidon2_hH`, `Sat.poseidonH`), and with the full circuits over BN254
  (`C03.insertionCircuit_sat_iff` / `C03.deletionCircuit_sat_iff`).
* (d) non-vacuity over `ℕ` with the non-injective toy hash `tH a b = (a + 2 b) mod 5`:
  completeness applies and evaluates; a forged path IS accepted (so the collision branch of (b)
  cannot be dropped), and the located collision is exhibited.

## How to read (b) over a finite field

Over `ZMod p` the bare disjunct `∃ a b c e, (a, b) ≠ (c, e) ∧ H a b = H c e` is a *theorem*
(`collision_of_card`), so as a classical statement `…_sound_or_collision` is informative only
through its proof: the proof is the reduction "accepted batch that is not the genuine one ↦
collision".  The located forms (`…_sound_or_located_collision`) state that reduction explicitly —
their collision branch names the slot, the tree state and the presented path in which the
collision sits — and are not trivially true: they are the statements to cite.
-/
namespace Smtb.C01C02Collision

open Smtb.Merkle Smtb.Batch Smtb.Tree Smtb.DenseBatch Smtb.DenseCollision

variable {F : Type}

/-! ## 0. The old hypothesis is unsatisfiable on finite carriers -/

/-- pigeonhole: every two-to-one function on a finite type with at least two elements has a
collision -/
theorem collision_of_card [Fintype F] (hcard : 1 < Fintype.card F) (H : F → F → F) :
    ∃ a b c e, (a, b) ≠ (c, e) ∧ H a b = H c e := by
  have hlt : Fintype.card F < Fintype.card (F × F) := by
    rw [Fintype.card_prod]; nlinarith
  obtain ⟨x, y, hne, heq⟩ :=
    Fintype.exists_ne_map_eq_of_card_lt (fun q : F × F => H q.1 q.2) hlt
  exact ⟨x.1, x.2, y.1, y.2, fun h => hne h, heq⟩

/-- the hypothesis `hinj` of `C01Dense` / `C02Dense` is unsatisfiable on every finite carrier with
at least two elements -/
theorem no_injective_hash [Fintype F] (hcard : 1 < Fintype.card F) (H : F → F → F) :
    ¬ ∀ a b c d, H a b = H c d → a = c ∧ b = d :=
  (collision_iff_not_injective H).1 (collision_of_card hcard H)

/-- …in particular on the circuit's carrier `ZMod p` -/
theorem no_injective_hash_zmod (p : ℕ) [Fact p.Prime] (H : ZMod p → ZMod p → ZMod p) :
    ¬ ∀ a b c d, H a b = H c d → a = c ∧ b = d := by
  have : NeZero p := ⟨(Fact.out : p.Prime).ne_zero⟩
  apply no_injective_hash
  rw [ZMod.card]
  exact (Fact.out : p.Prime).one_lt

/-! ## 0'. What `childPair` is (sanity of the located-collision predicate) -/

/-- **`childPair` in closed form.**  `childPair H d f a b` holds only for genuine sibling nodes: there
are a level `k < d` and a position `j` such that `a` is the root of the depth-`k` subtree over the
leaves `[2j·2^k, (2j+1)·2^k)` and `b` the root of the depth-`k` subtree over the next block
`[(2j+1)·2^k, (2j+2)·2^k)`, both inside `[0, 2^d)`. -/
theorem childPair_node (H : F → F → F) : ∀ (d : ℕ) (f : ℕ → F) (a b : F), childPair H d f a b →
    ∃ k j, k < d ∧ (2 * j + 2) * 2 ^ k ≤ 2 ^ d ∧
      a = rootOf H k (fun x => f (x + 2 * j * 2 ^ k)) ∧
      b = rootOf H k (fun x => f (x + (2 * j + 1) * 2 ^ k))
  | 0, _, _, _, h => h.elim
  | d + 1, f, a, b, h => by
    rcases h with ⟨rfl, rfl⟩ | h | h
    · refine ⟨d, 0, by omega, by rw [pow_succ]; omega, ?_, ?_⟩
      · simp
      · simp
    · obtain ⟨k, j, hk, hj, ha, hb⟩ := childPair_node H d f a b h
      exact ⟨k, j, by omega, by rw [pow_succ]; omega, ha, hb⟩
    · obtain ⟨k, j, hk, hj, ha, hb⟩ := childPair_node H d _ a b h
      obtain ⟨m, rfl⟩ : ∃ m, d = k + 1 + m := ⟨d - (k + 1), by omega⟩
      have hpow : 2 ^ (k + 1 + m) = 2 * 2 ^ m * 2 ^ k := by rw [pow_add, pow_succ]; ring
      refine ⟨k, j + 2 ^ m, by omega, ?_, ?_, ?_⟩
      · have h2 : 2 ^ (k + 1 + m + 1) = 2 * (2 * 2 ^ m * 2 ^ k) := by rw [pow_succ, hpow]; ring
        rw [h2]
        rw [hpow] at hj
        have h3 : (2 * (j + 2 ^ m) + 2) * 2 ^ k = (2 * j + 2) * 2 ^ k + 2 * 2 ^ m * 2 ^ k := by ring
        rw [h3]
        omega
      · rw [ha]; congr 1; funext x; congr 1; rw [hpow]; ring
      · rw [hb]; congr 1; funext x; congr 1; rw [hpow]; ring

/-! ## 1. Insertion -/

section Insertion

variable [DecidableEq F] [Inhabited F] (H : F → F → F) (zero : F)

/-- **C01 (a), completeness — every `H`.**  The right-hand side of `C01Dense.insertion_dense`
implies acceptance with the root of the updated tree: if every slot position
`val (addi start k)` is inside the tree, the leaf there is `zero` in the running tree
`f_k = insertLeavesAt pos 0 f (ids.take k)` and `proofs[k]` is the genuine sibling path of that
leaf in `f_k`, then the specification returns the root of the tree with the commitments written. -/
theorem insertion_complete (val : F → Nat) (addi : F → Nat → F) (d : Nat) (start : F)
    (f : Nat → F) (ids : List F) (proofs : List (List F))
    (h : ∀ k, k < ids.length →
      val (addi start k) < 2 ^ d ∧
      insertLeavesAt (fun j => val (addi start j)) 0 f (ids.take k) (val (addi start k)) = zero ∧
      proofs[k]? = some (pathOf H d
        (insertLeavesAt (fun j => val (addi start j)) 0 f (ids.take k)) (val (addi start k)))) :
    insertionSpec H zero val addi d start 0 (rootOf H d f) ids proofs =
      some (rootOf H d (insertLeavesAt (fun j => val (addi start j)) 0 f ids)) := by
  apply insertionSpec_complete_aux H zero val addi d start ids proofs 0 f
  simpa only [Nat.zero_add] using h

/-- **C01 (a), completeness for the genuine batch — every `H`.**  The batch that carries the
tree's own sibling paths (`insertionPaths`: slot `k` gets `pathOf H d f_k (pos k)`) into leaves that
are in range and empty when they are reached is accepted, and the result is the root of the
updated tree. -/
theorem insertion_complete_genuine (val : F → Nat) (addi : F → Nat → F) (d : Nat) (start : F)
    (f : Nat → F) (ids : List F)
    (h : ∀ k, k < ids.length →
      val (addi start k) < 2 ^ d ∧
      insertLeavesAt (fun j => val (addi start j)) 0 f (ids.take k) (val (addi start k)) = zero) :
    insertionSpec H zero val addi d start 0 (rootOf H d f) ids
        (insertionPaths H d (fun j => val (addi start j)) 0 f ids) =
      some (rootOf H d (insertLeavesAt (fun j => val (addi start j)) 0 f ids)) := by
  apply insertion_complete
  intro k hk
  refine ⟨(h k hk).1, (h k hk).2, ?_⟩
  have := insertionPaths_getElem? H d (fun j => val (addi start j)) ids 0 f k hk
  simpa only [Nat.zero_add] using this

/-- **C01 (a), completeness, consecutive positions — every `H`.**  If slot `k` is at position
`s + k`, all of `s … s + |ids| - 1` are inside the tree and EMPTY IN THE ORIGINAL TREE `f`, then the
batch with the genuine paths is accepted and the result is the root of
`insertLeaves f s ids` (`f` with `ids` written at `s, s+1, …`). -/
theorem insertion_complete_noWrap (val : F → Nat) (addi : F → Nat → F) (d : Nat) (start : F)
    (s : Nat) (f : Nat → F) (ids : List F)
    (hpos : ∀ k, k < ids.length → val (addi start k) = s + k)
    (h : ∀ k, k < ids.length → s + k < 2 ^ d ∧ f (s + k) = zero) :
    insertionSpec H zero val addi d start 0 (rootOf H d f) ids
        (insertionPaths H d (fun j => val (addi start j)) 0 f ids) =
      some (rootOf H d (insertLeaves f s ids)) := by
  have hfull : insertLeavesAt (fun j => val (addi start j)) 0 f ids = insertLeaves f s ids :=
    insertLeavesAt_eq_insertLeaves _ ids 0 s f (by simpa using hpos)
  rw [← hfull]
  apply insertion_complete_genuine
  intro k hk
  have htake : insertLeavesAt (fun j => val (addi start j)) 0 f (ids.take k) =
      insertLeaves f s (ids.take k) := by
    apply insertLeavesAt_eq_insertLeaves _ _ 0 s f
    intro j hj
    have hj' : j < ids.length := by
      rw [List.length_take] at hj; omega
    simpa using hpos j hj'
  rw [htake, hpos k hk, insertLeaves_take_next]
  exact h k hk

/-- **C01 (b), soundness up to a LOCATED collision — every `H`.**  If the specification accepts a
batch from the root of the dense tree over `f`, then either the tree-level relation of
`C01Dense.insertion_dense` holds, or for some slot `k` the presented path `proofs[k]`, recomputed
from the empty leaf, exhibits a collision of `H` against a pair of sibling nodes of the genuine
running tree `f_k` (`OpeningCollision`, see `Smtb.Proofs.DenseCollision`). -/
theorem insertion_sound_or_located_collision (val : F → Nat) (addi : F → Nat → F) (d : Nat)
    (start : F) (f : Nat → F) (ids : List F) (proofs : List (List F)) (post : F)
    (hlen : ids.length = proofs.length) (hprf : ∀ prf ∈ proofs, prf.length = d)
    (h : insertionSpec H zero val addi d start 0 (rootOf H d f) ids proofs = some post) :
    ((∀ k, k < ids.length →
        val (addi start k) < 2 ^ d ∧
        insertLeavesAt (fun j => val (addi start j)) 0 f (ids.take k) (val (addi start k)) = zero ∧
        proofs[k]? = some (pathOf H d
          (insertLeavesAt (fun j => val (addi start j)) 0 f (ids.take k)) (val (addi start k)))) ∧
      post = rootOf H d (insertLeavesAt (fun j => val (addi start j)) 0 f ids)) ∨
    (∃ k prf, k < ids.length ∧ proofs[k]? = some prf ∧
      OpeningCollision H d (insertLeavesAt (fun j => val (addi start j)) 0 f (ids.take k))
        (val (addi start k)) zero prf) := by
  have := insertionSpec_sound_aux H zero val addi d start ids proofs 0 f post hlen hprf h
  simpa only [Nat.zero_add] using this

/-- **C01 (b), soundness up to a collision — every `H`.**  If the specification accepts a batch
from the root of the dense tree over `f`, then EITHER the tree-level relation holds (the right-hand
side of `C01Dense.insertion_dense`: every slot position is inside the tree, the leaf there is empty
in the running tree, the presented path is the genuine one, `post` is the root of the updated tree)
OR there is an explicit collision of `H`. -/
theorem insertion_sound_or_collision (val : F → Nat) (addi : F → Nat → F) (d : Nat)
    (start : F) (f : Nat → F) (ids : List F) (proofs : List (List F)) (post : F)
    (hlen : ids.length = proofs.length) (hprf : ∀ prf ∈ proofs, prf.length = d)
    (h : insertionSpec H zero val addi d start 0 (rootOf H d f) ids proofs = some post) :
    ((∀ k, k < ids.length →
        val (addi start k) < 2 ^ d ∧
        insertLeavesAt (fun j => val (addi start j)) 0 f (ids.take k) (val (addi start k)) = zero ∧
        proofs[k]? = some (pathOf H d
          (insertLeavesAt (fun j => val (addi start j)) 0 f (ids.take k)) (val (addi start k)))) ∧
      post = rootOf H d (insertLeavesAt (fun j => val (addi start j)) 0 f ids)) ∨
    (∃ a b c e, (a, b) ≠ (c, e) ∧ H a b = H c e) := by
  rcases insertion_sound_or_located_collision H zero val addi d start f ids proofs post hlen hprf h
    with hrel | ⟨_, _, _, _, hcol⟩
  · exact Or.inl hrel
  · exact Or.inr hcol.collision

/-- (b) for consecutive positions, in the shape of `C01Dense.insertion_dense_original_empty`
(emptiness stated about the ORIGINAL leaves).  Proved the classical way: if `H` is injective the
old theorem applies, otherwise the negation is a collision. -/
theorem insertion_noWrap_sound_or_collision (val : F → Nat) (addi : F → Nat → F) (d : Nat)
    (start : F) (s : Nat) (f : Nat → F) (ids : List F) (proofs : List (List F)) (post : F)
    (hlen : ids.length = proofs.length) (hprf : ∀ prf ∈ proofs, prf.length = d)
    (hpos : ∀ k, k < ids.length → val (addi start k) = s + k)
    (h : insertionSpec H zero val addi d start 0 (rootOf H d f) ids proofs = some post) :
    ((∀ k, k < ids.length →
        s + k < 2 ^ d ∧
        f (s + k) = zero ∧
        proofs[k]? = some (pathOf H d (insertLeaves f s (ids.take k)) (s + k))) ∧
      post = rootOf H d (insertLeaves f s ids)) ∨
    (∃ a b c e, (a, b) ≠ (c, e) ∧ H a b = H c e) := by
  by_cases hinj : ∀ a b c d, H a b = H c d → a = c ∧ b = d
  · exact Or.inl ((C01Dense.insertion_dense_original_empty H zero hinj val addi d start s f ids
      proofs post hlen hprf hpos).1 h)
  · exact Or.inr ((collision_iff_not_injective H).2 hinj)

end Insertion

/-! ## 2. Deletion -/

section Deletion

variable [DecidableEq F] [Inhabited F] (H : F → F → F) (zero : F)

/-- **C02 (a), completeness — every `H`.**  The right-hand side of `C02Dense.deletion_dense`
implies acceptance with the root of the updated tree: every index is `< 2^(d+1)`; a real slot
(`< 2^d`) presents the value its leaf holds in the running tree
`f_k = deleteLeaves zero d f ((idxs.take k).map val)` with the genuine sibling path; a padding slot
presents anything. -/
theorem deletion_complete (val : F → Nat) (d : Nat) (f : Nat → F) (idxs ids : List F)
    (proofs : List (List F))
    (hlen1 : idxs.length = ids.length) (hlen2 : ids.length = proofs.length)
    (h : ∀ k idx, idxs[k]? = some idx →
      val idx < 2 ^ (d + 1) ∧
      (val idx < 2 ^ d →
        ids[k]? = some (deleteLeaves zero d f ((idxs.take k).map val) (val idx)) ∧
        proofs[k]? = some (pathOf H d (deleteLeaves zero d f ((idxs.take k).map val))
          (val idx)))) :
    deletionSpec H zero val d (rootOf H d f) idxs ids proofs =
      some (rootOf H d (deleteLeaves zero d f (idxs.map val))) :=
  deletionSpec_complete_aux H zero val d idxs ids proofs f hlen1 hlen2 h

/-- **C02 (a), completeness for the genuine batch — every `H`.**  The batch in which every slot
presents what its leaf holds when the slot is reached (`deletionItems`) together with the tree's
own sibling path (`deletionPaths`) is accepted as soon as all indices are `< 2^(d+1)`, and the
result is the root of the tree with the real slots' leaves cleared. -/
theorem deletion_complete_genuine (val : F → Nat) (d : Nat) (f : Nat → F) (idxs : List F)
    (h : ∀ idx ∈ idxs, val idx < 2 ^ (d + 1)) :
    deletionSpec H zero val d (rootOf H d f) idxs
        (deletionItems zero d f (idxs.map val)) (deletionPaths H zero d f (idxs.map val)) =
      some (rootOf H d (deleteLeaves zero d f (idxs.map val))) := by
  apply deletion_complete
  · rw [deletionItems_length, List.length_map]
  · rw [deletionItems_length, deletionPaths_length]
  · intro k idx hk
    refine ⟨h idx (List.mem_of_getElem? hk), fun _ => ?_⟩
    have hk' : (idxs.map val)[k]? = some (val idx) := by simp [hk]
    rw [List.map_take]
    exact ⟨deletionItems_getElem? zero d _ f k _ hk', deletionPaths_getElem? H zero d _ f k _ hk'⟩

/-- **C02 (b), soundness up to a LOCATED collision — every `H`.**  If the specification accepts a
batch from the root of the dense tree over `f`, then either the tree-level relation of
`C02Dense.deletion_dense` holds, or some REAL slot `k` (index `< 2^d`) presents an item and a path
which, recomputed, exhibit a collision of `H` against a pair of sibling nodes of the genuine
running tree `f_k`. -/
theorem deletion_sound_or_located_collision (val : F → Nat) (d : Nat) (f : Nat → F)
    (idxs ids : List F) (proofs : List (List F)) (post : F)
    (hlen1 : idxs.length = ids.length) (hlen2 : ids.length = proofs.length)
    (hprf : ∀ prf ∈ proofs, prf.length = d)
    (h : deletionSpec H zero val d (rootOf H d f) idxs ids proofs = some post) :
    ((∀ k idx, idxs[k]? = some idx →
        val idx < 2 ^ (d + 1) ∧
        (val idx < 2 ^ d →
          ids[k]? = some (deleteLeaves zero d f ((idxs.take k).map val) (val idx)) ∧
          proofs[k]? = some (pathOf H d (deleteLeaves zero d f ((idxs.take k).map val))
            (val idx)))) ∧
      post = rootOf H d (deleteLeaves zero d f (idxs.map val))) ∨
    (∃ k idx item prf, idxs[k]? = some idx ∧ ids[k]? = some item ∧ proofs[k]? = some prf ∧
      val idx < 2 ^ d ∧
      OpeningCollision H d (deleteLeaves zero d f ((idxs.take k).map val)) (val idx) item prf) :=
  deletionSpec_sound_aux H zero val d idxs ids proofs f post hlen1 hlen2 hprf h

/-- **C02 (b), soundness up to a collision — every `H`.**  If the specification accepts a batch
from the root of the dense tree over `f`, then EITHER the tree-level relation holds (the right-hand
side of `C02Dense.deletion_dense`) OR there is an explicit collision of `H`. -/
theorem deletion_sound_or_collision (val : F → Nat) (d : Nat) (f : Nat → F)
    (idxs ids : List F) (proofs : List (List F)) (post : F)
    (hlen1 : idxs.length = ids.length) (hlen2 : ids.length = proofs.length)
    (hprf : ∀ prf ∈ proofs, prf.length = d)
    (h : deletionSpec H zero val d (rootOf H d f) idxs ids proofs = some post) :
    ((∀ k idx, idxs[k]? = some idx →
        val idx < 2 ^ (d + 1) ∧
        (val idx < 2 ^ d →
          ids[k]? = some (deleteLeaves zero d f ((idxs.take k).map val) (val idx)) ∧
          proofs[k]? = some (pathOf H d (deleteLeaves zero d f ((idxs.take k).map val))
            (val idx)))) ∧
      post = rootOf H d (deleteLeaves zero d f (idxs.map val))) ∨
    (∃ a b c e, (a, b) ≠ (c, e) ∧ H a b = H c e) := by
  rcases deletion_sound_or_located_collision H zero val d f idxs ids proofs post hlen1 hlen2 hprf h
    with hrel | ⟨_, _, _, _, _, _, _, _, hcol⟩
  · exact Or.inl hrel
  · exact Or.inr hcol.collision

/-- the same statement obtained the classical way from `C02Dense.deletion_dense` (kept to show that
the two routes agree: if `H` is injective the old theorem applies, otherwise the negation is a
collision) -/
theorem deletion_sound_or_collision_classical (val : F → Nat) (d : Nat) (f : Nat → F)
    (idxs ids : List F) (proofs : List (List F)) (post : F)
    (hlen1 : idxs.length = ids.length) (hlen2 : ids.length = proofs.length)
    (hprf : ∀ prf ∈ proofs, prf.length = d)
    (h : deletionSpec H zero val d (rootOf H d f) idxs ids proofs = some post) :
    ((∀ k idx, idxs[k]? = some idx →
        val idx < 2 ^ (d + 1) ∧
        (val idx < 2 ^ d →
          ids[k]? = some (deleteLeaves zero d f ((idxs.take k).map val) (val idx)) ∧
          proofs[k]? = some (pathOf H d (deleteLeaves zero d f ((idxs.take k).map val))
            (val idx)))) ∧
      post = rootOf H d (deleteLeaves zero d f (idxs.map val))) ∨
    (∃ a b c e, (a, b) ≠ (c, e) ∧ H a b = H c e) := by
  by_cases hinj : ∀ a b c d, H a b = H c d → a = c ∧ b = d
  · exact Or.inl ((C02Dense.deletion_dense H zero hinj val d f idxs ids proofs post hlen1 hlen2
      hprf).1 h)
  · exact Or.inr ((collision_iff_not_injective H).2 hinj)

end Deletion

/-! ## 3. Over `ZMod p`: the gadgets, Poseidon, the full circuits -/

section Circuit

open Smtb Smtb.Sat Smtb.Circuit

variable {p : ℕ} [Fact p.Prime]

section AnyHashGadget

variable (hash2 : ZMod p → ZMod p → SatM p (ZMod p)) (H : ZMod p → ZMod p → ZMod p)
variable (hH : ∀ a b k, hash2 a b k ↔ k (H a b))
include hH

/-- **C01 (c), any hash gadget.**  If the insertion-proof gadget, started from the root of the
dense tree over `f`, is satisfiable with output `post`, then the tree-level relation holds or the
hash the gadget computes has a (located) collision.  Hypotheses: those of
`C01.insertionProof_sat_iff` and of `C01Dense.insertion_dense` minus `hinj`. -/
theorem insertionProof_sat_sound_located (d : ℕ) (hd : 2 ^ d ≤ p) (start post : ZMod p)
    (f : ℕ → ZMod p) (ids : List (ZMod p)) (proofs : List (List (ZMod p)))
    (hlen : ids.length = proofs.length) (hprf : ∀ prf ∈ proofs, prf.length = d)
    (hsat : (insertionProof hash2 d start (rootOf H d f) ids proofs) (· = post)) :
    ((∀ k, k < ids.length →
        (C01.addi start k).val < 2 ^ d ∧
        insertLeavesAt (fun j => (C01.addi start j).val) 0 f (ids.take k) (C01.addi start k).val
          = 0 ∧
        proofs[k]? = some (pathOf H d
          (insertLeavesAt (fun j => (C01.addi start j).val) 0 f (ids.take k))
          (C01.addi start k).val)) ∧
      post = rootOf H d (insertLeavesAt (fun j => (C01.addi start j).val) 0 f ids)) ∨
    (∃ k prf, k < ids.length ∧ proofs[k]? = some prf ∧
      OpeningCollision H d (insertLeavesAt (fun j => (C01.addi start j).val) 0 f (ids.take k))
        (C01.addi start k).val 0 prf) :=
  insertion_sound_or_located_collision H 0 ZMod.val C01.addi d start f ids proofs post hlen hprf
    ((C01.insertionProof_sat_iff hash2 H hH d hd start _ post ids proofs).1 hsat)

theorem insertionProof_sat_sound (d : ℕ) (hd : 2 ^ d ≤ p) (start post : ZMod p)
    (f : ℕ → ZMod p) (ids : List (ZMod p)) (proofs : List (List (ZMod p)))
    (hlen : ids.length = proofs.length) (hprf : ∀ prf ∈ proofs, prf.length = d)
    (hsat : (insertionProof hash2 d start (rootOf H d f) ids proofs) (· = post)) :
    ((∀ k, k < ids.length →
        (C01.addi start k).val < 2 ^ d ∧
        insertLeavesAt (fun j => (C01.addi start j).val) 0 f (ids.take k) (C01.addi start k).val
          = 0 ∧
        proofs[k]? = some (pathOf H d
          (insertLeavesAt (fun j => (C01.addi start j).val) 0 f (ids.take k))
          (C01.addi start k).val)) ∧
      post = rootOf H d (insertLeavesAt (fun j => (C01.addi start j).val) 0 f ids)) ∨
    (∃ a b c e, (a, b) ≠ (c, e) ∧ H a b = H c e) :=
  insertion_sound_or_collision H 0 ZMod.val C01.addi d start f ids proofs post hlen hprf
    ((C01.insertionProof_sat_iff hash2 H hH d hd start _ post ids proofs).1 hsat)

/-- **C01 (c), completeness at gadget level.**  The genuine batch satisfies the gadget's
constraints with output the root of the updated tree (no collision assumption). -/
theorem insertionProof_sat_complete (d : ℕ) (hd : 2 ^ d ≤ p) (start : ZMod p)
    (f : ℕ → ZMod p) (ids : List (ZMod p)) (proofs : List (List (ZMod p)))
    (h : ∀ k, k < ids.length →
      (C01.addi start k).val < 2 ^ d ∧
      insertLeavesAt (fun j => (C01.addi start j).val) 0 f (ids.take k) (C01.addi start k).val
        = 0 ∧
      proofs[k]? = some (pathOf H d
        (insertLeavesAt (fun j => (C01.addi start j).val) 0 f (ids.take k))
        (C01.addi start k).val)) :
    (insertionProof hash2 d start (rootOf H d f) ids proofs)
      (· = rootOf H d (insertLeavesAt (fun j => (C01.addi start j).val) 0 f ids)) :=
  (C01.insertionProof_sat_iff hash2 H hH d hd start _ _ ids proofs).2
    (insertion_complete H 0 ZMod.val C01.addi d start f ids proofs h)

/-- **C02 (c), any hash gadget**, located form. -/
theorem deletionProof_sat_sound_located (d : ℕ) (hd : 2 ^ (d + 1) ≤ p) (idxs : List (ZMod p))
    (post : ZMod p) (f : ℕ → ZMod p) (ids : List (ZMod p)) (proofs : List (List (ZMod p)))
    (hlen1 : idxs.length = ids.length) (hlen2 : ids.length = proofs.length)
    (hprf : ∀ prf ∈ proofs, prf.length = d)
    (hsat : (deletionProof hash2 d idxs (rootOf H d f) ids proofs) (· = post)) :
    ((∀ k idx, idxs[k]? = some idx →
        idx.val < 2 ^ (d + 1) ∧
        (idx.val < 2 ^ d →
          ids[k]? = some (deleteLeaves 0 d f ((idxs.take k).map ZMod.val) idx.val) ∧
          proofs[k]? = some (pathOf H d (deleteLeaves 0 d f ((idxs.take k).map ZMod.val))
            idx.val))) ∧
      post = rootOf H d (deleteLeaves 0 d f (idxs.map ZMod.val))) ∨
    (∃ k idx item prf, idxs[k]? = some idx ∧ ids[k]? = some item ∧ proofs[k]? = some prf ∧
      idx.val < 2 ^ d ∧
      OpeningCollision H d (deleteLeaves 0 d f ((idxs.take k).map ZMod.val)) idx.val item prf) :=
  deletion_sound_or_located_collision H 0 ZMod.val d f idxs ids proofs post hlen1 hlen2 hprf
    ((C02.deletionProof_sat_iff hash2 H hH d hd idxs _ post ids proofs).1 hsat)

theorem deletionProof_sat_sound (d : ℕ) (hd : 2 ^ (d + 1) ≤ p) (idxs : List (ZMod p))
    (post : ZMod p) (f : ℕ → ZMod p) (ids : List (ZMod p)) (proofs : List (List (ZMod p)))
    (hlen1 : idxs.length = ids.length) (hlen2 : ids.length = proofs.length)
    (hprf : ∀ prf ∈ proofs, prf.length = d)
    (hsat : (deletionProof hash2 d idxs (rootOf H d f) ids proofs) (· = post)) :
    ((∀ k idx, idxs[k]? = some idx →
        idx.val < 2 ^ (d + 1) ∧
        (idx.val < 2 ^ d →
          ids[k]? = some (deleteLeaves 0 d f ((idxs.take k).map ZMod.val) idx.val) ∧
          proofs[k]? = some (pathOf H d (deleteLeaves 0 d f ((idxs.take k).map ZMod.val))
            idx.val))) ∧
      post = rootOf H d (deleteLeaves 0 d f (idxs.map ZMod.val))) ∨
    (∃ a b c e, (a, b) ≠ (c, e) ∧ H a b = H c e) :=
  deletion_sound_or_collision H 0 ZMod.val d f idxs ids proofs post hlen1 hlen2 hprf
    ((C02.deletionProof_sat_iff hash2 H hH d hd idxs _ post ids proofs).1 hsat)

/-- **C02 (c), completeness at gadget level.** -/
theorem deletionProof_sat_complete (d : ℕ) (hd : 2 ^ (d + 1) ≤ p) (idxs : List (ZMod p))
    (f : ℕ → ZMod p) (ids : List (ZMod p)) (proofs : List (List (ZMod p)))
    (hlen1 : idxs.length = ids.length) (hlen2 : ids.length = proofs.length)
    (h : ∀ k idx, idxs[k]? = some idx →
      idx.val < 2 ^ (d + 1) ∧
      (idx.val < 2 ^ d →
        ids[k]? = some (deleteLeaves 0 d f ((idxs.take k).map ZMod.val) idx.val) ∧
        proofs[k]? = some (pathOf H d (deleteLeaves 0 d f ((idxs.take k).map ZMod.val))
          idx.val))) :
    (deletionProof hash2 d idxs (rootOf H d f) ids proofs)
      (· = rootOf H d (deleteLeaves 0 d f (idxs.map ZMod.val))) :=
  (C02.deletionProof_sat_iff hash2 H hH d hd idxs _ _ ids proofs).2
    (deletion_complete H 0 ZMod.val d f idxs ids proofs hlen1 hlen2 h)

end AnyHashGadget

/-! ### The project's Poseidon gadget (`Circuit.Poseidon.poseidon2`, computing `Sat.poseidonH p`) -/

/-- **C01 (c), Poseidon.**  If the insertion-proof gadget instantiated with the Poseidon2 gadget,
started from the Poseidon root of the dense tree over `f`, is satisfiable with output `post`, then
the tree-level relation holds or Poseidon (`Sat.poseidonH p`, i.e. `Poseidon.hash2` on canonical
representatives) has a collision. -/
theorem insertionProof_poseidon_sound (d : ℕ) (hd : 2 ^ d ≤ p) (start post : ZMod p)
    (f : ℕ → ZMod p) (ids : List (ZMod p)) (proofs : List (List (ZMod p)))
    (hlen : ids.length = proofs.length) (hprf : ∀ prf ∈ proofs, prf.length = d)
    (hsat : (insertionProof (Circuit.Poseidon.poseidon2 : ZMod p → ZMod p → SatM p (ZMod p)) d start
      (rootOf (poseidonH p) d f) ids proofs) (· = post)) :
    ((∀ k, k < ids.length →
        (C01.addi start k).val < 2 ^ d ∧
        insertLeavesAt (fun j => (C01.addi start j).val) 0 f (ids.take k) (C01.addi start k).val
          = 0 ∧
        proofs[k]? = some (pathOf (poseidonH p) d
          (insertLeavesAt (fun j => (C01.addi start j).val) 0 f (ids.take k))
          (C01.addi start k).val)) ∧
      post = rootOf (poseidonH p) d
        (insertLeavesAt (fun j => (C01.addi start j).val) 0 f ids)) ∨
    (∃ a b c e, (a, b) ≠ (c, e) ∧ poseidonH p a b = poseidonH p c e) :=
  insertionProof_sat_sound _ (poseidonH p) poseidon2_hH d hd start post f ids proofs hlen hprf hsat

/-- **C01 (c), Poseidon, located form.** -/
theorem insertionProof_poseidon_sound_located (d : ℕ) (hd : 2 ^ d ≤ p) (start post : ZMod p)
    (f : ℕ → ZMod p) (ids : List (ZMod p)) (proofs : List (List (ZMod p)))
    (hlen : ids.length = proofs.length) (hprf : ∀ prf ∈ proofs, prf.length = d)
    (hsat : (insertionProof (Circuit.Poseidon.poseidon2 : ZMod p → ZMod p → SatM p (ZMod p)) d start
      (rootOf (poseidonH p) d f) ids proofs) (· = post)) :
    ((∀ k, k < ids.length →
        (C01.addi start k).val < 2 ^ d ∧
        insertLeavesAt (fun j => (C01.addi start j).val) 0 f (ids.take k) (C01.addi start k).val
          = 0 ∧
        proofs[k]? = some (pathOf (poseidonH p) d
          (insertLeavesAt (fun j => (C01.addi start j).val) 0 f (ids.take k))
          (C01.addi start k).val)) ∧
      post = rootOf (poseidonH p) d
        (insertLeavesAt (fun j => (C01.addi start j).val) 0 f ids)) ∨
    (∃ k prf, k < ids.length ∧ proofs[k]? = some prf ∧
      OpeningCollision (poseidonH p) d
        (insertLeavesAt (fun j => (C01.addi start j).val) 0 f (ids.take k))
        (C01.addi start k).val 0 prf) :=
  insertionProof_sat_sound_located _ (poseidonH p) poseidon2_hH d hd start post f ids proofs hlen
    hprf hsat

/-- **C01 (c), Poseidon, completeness.** -/
theorem insertionProof_poseidon_complete (d : ℕ) (hd : 2 ^ d ≤ p) (start : ZMod p)
    (f : ℕ → ZMod p) (ids : List (ZMod p)) (proofs : List (List (ZMod p)))
    (h : ∀ k, k < ids.length →
      (C01.addi start k).val < 2 ^ d ∧
      insertLeavesAt (fun j => (C01.addi start j).val) 0 f (ids.take k) (C01.addi start k).val
        = 0 ∧
      proofs[k]? = some (pathOf (poseidonH p) d
        (insertLeavesAt (fun j => (C01.addi start j).val) 0 f (ids.take k))
        (C01.addi start k).val)) :
    (insertionProof (Circuit.Poseidon.poseidon2 : ZMod p → ZMod p → SatM p (ZMod p)) d start
        (rootOf (poseidonH p) d f) ids proofs)
      (· = rootOf (poseidonH p) d (insertLeavesAt (fun j => (C01.addi start j).val) 0 f ids)) :=
  insertionProof_sat_complete _ (poseidonH p) poseidon2_hH d hd start f ids proofs h

/-- **C02 (c), Poseidon.**  If the deletion-proof gadget instantiated with the Poseidon2 gadget,
started from the Poseidon root of the dense tree over `f`, is satisfiable with output `post`, then
the tree-level relation holds or Poseidon has a collision. -/
theorem deletionProof_poseidon_sound (d : ℕ) (hd : 2 ^ (d + 1) ≤ p) (idxs : List (ZMod p))
    (post : ZMod p) (f : ℕ → ZMod p) (ids : List (ZMod p)) (proofs : List (List (ZMod p)))
    (hlen1 : idxs.length = ids.length) (hlen2 : ids.length = proofs.length)
    (hprf : ∀ prf ∈ proofs, prf.length = d)
    (hsat : (deletionProof (Circuit.Poseidon.poseidon2 : ZMod p → ZMod p → SatM p (ZMod p)) d idxs
      (rootOf (poseidonH p) d f) ids proofs) (· = post)) :
    ((∀ k idx, idxs[k]? = some idx →
        idx.val < 2 ^ (d + 1) ∧
        (idx.val < 2 ^ d →
          ids[k]? = some (deleteLeaves 0 d f ((idxs.take k).map ZMod.val) idx.val) ∧
          proofs[k]? = some (pathOf (poseidonH p) d
            (deleteLeaves 0 d f ((idxs.take k).map ZMod.val)) idx.val))) ∧
      post = rootOf (poseidonH p) d (deleteLeaves 0 d f (idxs.map ZMod.val))) ∨
    (∃ a b c e, (a, b) ≠ (c, e) ∧ poseidonH p a b = poseidonH p c e) :=
  deletionProof_sat_sound _ (poseidonH p) poseidon2_hH d hd idxs post f ids proofs hlen1 hlen2
    hprf hsat

/-- **C02 (c), Poseidon, located form.** -/
theorem deletionProof_poseidon_sound_located (d : ℕ) (hd : 2 ^ (d + 1) ≤ p)
    (idxs : List (ZMod p)) (post : ZMod p) (f : ℕ → ZMod p) (ids : List (ZMod p))
    (proofs : List (List (ZMod p)))
    (hlen1 : idxs.length = ids.length) (hlen2 : ids.length = proofs.length)
    (hprf : ∀ prf ∈ proofs, prf.length = d)
    (hsat : (deletionProof (Circuit.Poseidon.poseidon2 : ZMod p → ZMod p → SatM p (ZMod p)) d idxs
      (rootOf (poseidonH p) d f) ids proofs) (· = post)) :
    ((∀ k idx, idxs[k]? = some idx →
        idx.val < 2 ^ (d + 1) ∧
        (idx.val < 2 ^ d →
          ids[k]? = some (deleteLeaves 0 d f ((idxs.take k).map ZMod.val) idx.val) ∧
          proofs[k]? = some (pathOf (poseidonH p) d
            (deleteLeaves 0 d f ((idxs.take k).map ZMod.val)) idx.val))) ∧
      post = rootOf (poseidonH p) d (deleteLeaves 0 d f (idxs.map ZMod.val))) ∨
    (∃ k idx item prf, idxs[k]? = some idx ∧ ids[k]? = some item ∧ proofs[k]? = some prf ∧
      idx.val < 2 ^ d ∧
      OpeningCollision (poseidonH p) d (deleteLeaves 0 d f ((idxs.take k).map ZMod.val))
        idx.val item prf) :=
  deletionProof_sat_sound_located _ (poseidonH p) poseidon2_hH d hd idxs post f ids proofs hlen1
    hlen2 hprf hsat

/-- **C02 (c), Poseidon, completeness.** -/
theorem deletionProof_poseidon_complete (d : ℕ) (hd : 2 ^ (d + 1) ≤ p) (idxs : List (ZMod p))
    (f : ℕ → ZMod p) (ids : List (ZMod p)) (proofs : List (List (ZMod p)))
    (hlen1 : idxs.length = ids.length) (hlen2 : ids.length = proofs.length)
    (h : ∀ k idx, idxs[k]? = some idx →
      idx.val < 2 ^ (d + 1) ∧
      (idx.val < 2 ^ d →
        ids[k]? = some (deleteLeaves 0 d f ((idxs.take k).map ZMod.val) idx.val) ∧
        proofs[k]? = some (pathOf (poseidonH p) d
          (deleteLeaves 0 d f ((idxs.take k).map ZMod.val)) idx.val))) :
    (deletionProof (Circuit.Poseidon.poseidon2 : ZMod p → ZMod p → SatM p (ZMod p)) d idxs
        (rootOf (poseidonH p) d f) ids proofs)
      (· = rootOf (poseidonH p) d (deleteLeaves 0 d f (idxs.map ZMod.val))) :=
  deletionProof_sat_complete _ (poseidonH p) poseidon2_hH d hd idxs f ids proofs hlen1 hlen2 h

end Circuit

/-! ### The full circuits over BN254 (`C03.insertionCircuit_sat_iff`, `C03.deletionCircuit_sat_iff`) -/

section FullCircuit

open Smtb Smtb.Sat Smtb.Circuit Smtb.Properties.C03

/-- **C03/C01 at tree level.**  If the full insertion circuit over BN254 is satisfiable with
pre-root the Poseidon root of the dense tree over `f`, then the tree-level relation holds or
Poseidon over BN254 has a collision. -/
theorem insertionCircuit_sound (d : ℕ) (hd : d ≤ 32) (ih start post : ZMod r)
    (f : ℕ → ZMod r) (ids : List (ZMod r)) (proofs : List (List (ZMod r)))
    (hlen : ids.length = proofs.length) (hprf : ∀ prf ∈ proofs, prf.length = d)
    (hsat : (insertionCircuit r d ih start (rootOf (poseidonH r) d f) post ids proofs :
      SatM r Unit) (fun _ => True)) :
    ((∀ k, k < ids.length →
        (C01.addi start k).val < 2 ^ d ∧
        insertLeavesAt (fun j => (C01.addi start j).val) 0 f (ids.take k) (C01.addi start k).val
          = 0 ∧
        proofs[k]? = some (pathOf (poseidonH r) d
          (insertLeavesAt (fun j => (C01.addi start j).val) 0 f (ids.take k))
          (C01.addi start k).val)) ∧
      post = rootOf (poseidonH r) d
        (insertLeavesAt (fun j => (C01.addi start j).val) 0 f ids)) ∨
    (∃ a b c e, (a, b) ≠ (c, e) ∧ poseidonH r a b = poseidonH r c e) :=
  insertion_sound_or_collision (poseidonH r) 0 ZMod.val C01.addi d start f ids proofs post hlen
    hprf ((insertionCircuit_sat_iff d hd ih start _ post ids proofs).1 hsat).2.2

/-- **C03/C02 at tree level.** -/
theorem deletionCircuit_sound (d : ℕ) (hd : d ≤ 31) (ih : ZMod r) (idxs : List (ZMod r))
    (post : ZMod r) (f : ℕ → ZMod r) (ids : List (ZMod r)) (proofs : List (List (ZMod r)))
    (hlen1 : idxs.length = ids.length) (hlen2 : ids.length = proofs.length)
    (hprf : ∀ prf ∈ proofs, prf.length = d)
    (hsat : (deletionCircuit r d ih idxs (rootOf (poseidonH r) d f) post ids proofs :
      SatM r Unit) (fun _ => True)) :
    ((∀ k idx, idxs[k]? = some idx →
        idx.val < 2 ^ (d + 1) ∧
        (idx.val < 2 ^ d →
          ids[k]? = some (deleteLeaves 0 d f ((idxs.take k).map ZMod.val) idx.val) ∧
          proofs[k]? = some (pathOf (poseidonH r) d
            (deleteLeaves 0 d f ((idxs.take k).map ZMod.val)) idx.val))) ∧
      post = rootOf (poseidonH r) d (deleteLeaves 0 d f (idxs.map ZMod.val))) ∨
    (∃ a b c e, (a, b) ≠ (c, e) ∧ poseidonH r a b = poseidonH r c e) :=
  deletion_sound_or_collision (poseidonH r) 0 ZMod.val d f idxs ids proofs post hlen1 hlen2 hprf
    ((deletionCircuit_sat_iff d hd ih idxs _ post ids proofs).1 hsat).2.2

end FullCircuit

/-! ## 4. Non-vacuity with a NON-injective hash

`F := ℕ`, `zero := 0`, `tH a b := (a + 2 * b) % 5`.  `tH` is not injective
(`tH 3 0 = tH 0 4 = 3`), so `C01Dense.insertion_dense` / `C02Dense.deletion_dense` say nothing about
it; the theorems of this file do. -/

section Example

def tH (a b : Nat) : Nat := (a + 2 * b) % 5

/-- depth 2, leaves `[3, 0, 0, 0]` -/
def tF : Nat → Nat := fun j => if j = 0 then 3 else 0

/-- depth 2, leaves `[3, 4, 0, 0]` -/
def tG : Nat → Nat := fun j => if j = 0 then 3 else if j = 1 then 4 else 0

/-- `tH` is not injective: the hypothesis `hinj` of the old theorems fails for it -/
theorem tH_not_injective : ¬ ∀ a b c d, tH a b = tH c d → a = c ∧ b = d := by
  intro h
  have := h 3 0 0 4 (by decide)
  omega

/-! ### insertion: completeness applies and evaluates -/

/-- the genuine paths for appending `[4, 1]` at positions 1, 2 of `[3, 0, 0, 0]` -/
example : insertionPaths tH 2 (fun j => id (1 + j)) 0 tF [4, 1] = [[3, 0], [0, 1]] := by decide

/-- **completeness, through the theorem** (the hypotheses — positions in range, leaves 1 and 2
empty in `tF` — are checked by evaluation) -/
theorem tH_insertion_accepts :
    insertionSpec tH 0 id (· + ·) 2 1 0 (rootOf tH 2 tF) [4, 1]
        (insertionPaths tH 2 (fun j => id (1 + j)) 0 tF [4, 1]) =
      some (rootOf tH 2 (insertLeaves tF 1 [4, 1])) :=
  insertion_complete_noWrap tH 0 id (· + ·) 2 1 1 tF [4, 1] (fun _ _ => rfl) (by decide)

/-- …and it evaluates: leaves `[3, 4, 1, 0]`, root `tH (tH 3 4) (tH 1 0) = 3`; the same by `decide` -/
example : (List.range 4).map (insertLeaves tF 1 [4, 1]) = [3, 4, 1, 0] := by decide
example : rootOf tH 2 (insertLeaves tF 1 [4, 1]) = 3 := by decide
example : insertionSpec tH 0 id (· + ·) 2 1 0 (rootOf tH 2 tF) [4, 1] [[3, 0], [0, 1]] = some 3 := by
  decide

/-! ### insertion: a forged path is accepted, so the collision branch cannot be dropped -/

/-- leaf 0 of `[3, 0, 0, 0]` is OCCUPIED, yet the path `[4, 0]` "proves" it empty, because
`tH 0 4 = 3 = tH 3 0`: the specification accepts overwriting it with `1` -/
theorem tH_forged_insertion_accepted :
    insertionSpec tH 0 id (· + ·) 2 0 0 (rootOf tH 2 tF) [1] [[4, 0]] = some 4 := by decide

/-- the tree-level relation fails for this accepted batch (leaf 0 is not empty) … -/
theorem tH_forged_insertion_not_genuine :
    ¬ ((∀ k, k < [1].length →
        id (0 + k) < 2 ^ 2 ∧
        insertLeavesAt (fun j => id (0 + j)) 0 tF ([1].take k) (id (0 + k)) = 0 ∧
        [[4, 0]][k]? = some (pathOf tH 2
          (insertLeavesAt (fun j => id (0 + j)) 0 tF ([1].take k)) (id (0 + k)))) ∧
      4 = rootOf tH 2 (insertLeavesAt (fun j => id (0 + j)) 0 tF [1])) := by
  rintro ⟨h, -⟩
  have := (h 0 (by decide)).2.1
  revert this
  decide

/-- … hence `insertion_sound_or_located_collision` yields a located collision: it sits in slot 0,
between the sibling nodes of the genuine tree and the pairs hashed along the forged path -/
theorem tH_forged_insertion_collision :
    ∃ k prf, k < [1].length ∧ [[4, 0]][k]? = some prf ∧
      OpeningCollision tH 2 (insertLeavesAt (fun j => id (0 + j)) 0 tF ([1].take k))
        (id (0 + k)) 0 prf := by
  rcases insertion_sound_or_located_collision tH 0 id (· + ·) 2 0 tF [1] [[4, 0]] 4 rfl
    (by decide) tH_forged_insertion_accepted with h | h
  · exact absurd h tH_forged_insertion_not_genuine
  · exact h

/-- the collision itself: the genuine leaf pair `(3, 0)` against the forged pair `(0, 4)` -/
example : OpeningCollision tH 2 tF 0 0 [4, 0] :=
  ⟨3, 0, 0, 4, Or.inr (Or.inl (Or.inl ⟨rfl, rfl⟩)), by decide, by decide, by decide⟩

/-! ### deletion: completeness applies and evaluates; a forged deletion is accepted -/

/-- the genuine batch for deleting leaf 1 of `[3, 4, 0, 0]`, then a padding slot (index 5) -/
example : deletionItems 0 2 tG [1, 5] = [4, 0] := by decide
example : deletionPaths tH 0 2 tG [1, 5] = [[3, 0], [3, 0]] := by decide

/-- **completeness, through the theorem** -/
theorem tH_deletion_accepts :
    deletionSpec tH 0 id 2 (rootOf tH 2 tG) [1, 5]
        (deletionItems 0 2 tG ([1, 5].map id)) (deletionPaths tH 0 2 tG ([1, 5].map id)) =
      some (rootOf tH 2 (deleteLeaves 0 2 tG ([1, 5].map id))) :=
  deletion_complete_genuine tH 0 id 2 tG [1, 5] (by decide)

example : (List.range 4).map (deleteLeaves 0 2 tG ([1, 5].map id)) = [3, 0, 0, 0] := by decide
example : rootOf tH 2 (deleteLeaves 0 2 tG ([1, 5].map id)) = 3 := by decide
/-- the same by evaluation (the padding slot may carry garbage) -/
example : deletionSpec tH 0 id 2 (rootOf tH 2 tG) [1, 5] [4, 77] [[3, 0], [8, 9]] = some 3 := by
  decide

/-- leaf 0 of `[3, 4, 0, 0]` holds `3`, yet the specification accepts a deletion of leaf 0 that
presents the value `1` with the path `[0, 0]` (`tH 1 0 = 1 = tH 3 4`) -/
theorem tH_forged_deletion_accepted :
    deletionSpec tH 0 id 2 (rootOf tH 2 tG) [0] [1] [[0, 0]] = some 0 := by decide

theorem tH_forged_deletion_collision :
    ∃ k idx item prf, [0][k]? = some idx ∧ [1][k]? = some item ∧ [[0, 0]][k]? = some prf ∧
      id idx < 2 ^ 2 ∧
      OpeningCollision tH 2 (deleteLeaves 0 2 tG (([0].take k).map id)) (id idx) item prf := by
  rcases deletion_sound_or_located_collision tH 0 id 2 tG [0] [1] [[0, 0]] 0 rfl rfl (by decide)
    tH_forged_deletion_accepted with h | h
  · exfalso
    have := ((h.1 0 0 rfl).2 (by decide)).1
    revert this
    decide
  · exact h

end Example

end Smtb.C01C02Collision

#print axioms Smtb.DenseCollision.collision_iff_not_injective
#print axioms Smtb.DenseCollision.opening_sound
#print axioms Smtb.DenseCollision.insertionSpec_complete_aux
#print axioms Smtb.DenseCollision.insertionSpec_sound_aux
#print axioms Smtb.DenseCollision.deletionSpec_complete_aux
#print axioms Smtb.DenseCollision.deletionSpec_sound_aux
#print axioms Smtb.C01C02Collision.collision_of_card
#print axioms Smtb.C01C02Collision.no_injective_hash
#print axioms Smtb.C01C02Collision.no_injective_hash_zmod
#print axioms Smtb.C01C02Collision.childPair_node
#print axioms Smtb.C01C02Collision.insertion_complete
#print axioms Smtb.C01C02Collision.insertion_complete_genuine
#print axioms Smtb.C01C02Collision.insertion_complete_noWrap
#print axioms Smtb.C01C02Collision.insertion_sound_or_located_collision
#print axioms Smtb.C01C02Collision.insertion_sound_or_collision
#print axioms Smtb.C01C02Collision.insertion_noWrap_sound_or_collision
#print axioms Smtb.C01C02Collision.deletion_complete
#print axioms Smtb.C01C02Collision.deletion_complete_genuine
#print axioms Smtb.C01C02Collision.deletion_sound_or_located_collision
#print axioms Smtb.C01C02Collision.deletion_sound_or_collision
#print axioms Smtb.C01C02Collision.deletion_sound_or_collision_classical
#print axioms Smtb.C01C02Collision.insertionProof_sat_sound_located
#print axioms Smtb.C01C02Collision.insertionProof_sat_sound
#print axioms Smtb.C01C02Collision.insertionProof_sat_complete
#print axioms Smtb.C01C02Collision.deletionProof_sat_sound_located
#print axioms Smtb.C01C02Collision.deletionProof_sat_sound
#print axioms Smtb.C01C02Collision.deletionProof_sat_complete
#print axioms Smtb.C01C02Collision.insertionProof_poseidon_sound
#print axioms Smtb.C01C02Collision.insertionProof_poseidon_sound_located
#print axioms Smtb.C01C02Collision.insertionProof_poseidon_complete
#print axioms Smtb.C01C02Collision.deletionProof_poseidon_sound
#print axioms Smtb.C01C02Collision.deletionProof_poseidon_sound_located
#print axioms Smtb.C01C02Collision.deletionProof_poseidon_complete
#print axioms Smtb.C01C02Collision.insertionCircuit_sound
#print axioms Smtb.C01C02Collision.deletionCircuit_sound
#print axioms Smtb.C01C02Collision.tH_insertion_accepts
#print axioms Smtb.C01C02Collision.tH_forged_insertion_accepted
#print axioms Smtb.C01C02Collision.tH_forged_insertion_collision
#print axioms Smtb.C01C02Collision.tH_deletion_accepts
#print axioms Smtb.C01C02Collision.tH_forged_deletion_accepted
#print axioms Smtb.C01C02Collision.tH_forged_deletion_collision
