import Smtb.Model.Merkle
import Smtb.Model.Batch
import Smtb.Proofs.Tree
import Smtb.Proofs.DenseBatch
import Mathlib.Data.Nat.Pairing

/-!
# C01 at tree level — what an accepted insertion batch means for the Merkle tree

The circuit theorems (`Properties/C01.lean`, `C03.lean`) say: the insertion gadget is satisfiable
with result `post` **iff** `Batch.insertionSpec … = some post`, and `insertionSpec` is a chain of
checks "the presented sibling path, with the *empty* leaf, recomputes to the running root" plus
root recomputations with the commitment.  This file proves what that chain *means* for the dense
reference tree `Merkle.rootOf`:

> an insertion batch is accepted from the root of the tree over leaves `f` **iff** every slot
> position lies inside the tree, the leaf at that position is EMPTY in the tree whose root is the
> running root, the presented path is the GENUINE sibling path of that position, and `post` is the
> root of the tree with the commitments written.

## The assumption `hinj`

Everything is over an abstract carrier `F`, an abstract `zero : F` and an abstract `H : F → F → F`.
The theorems take the **explicit hypothesis**

`hinj : ∀ a b c d, H a b = H c d → a = c ∧ b = d`    (collision-freedom of `H`).

It is a hypothesis of these theorems, never an axiom, and the circuit theorems themselves do not
need it.  For the real hash (Poseidon2 over BN254) `hinj` is a *cryptographic assumption*: it
cannot hold literally for a map `F × F → F` on a finite field and is meant in the usual
computational sense (nobody can exhibit a collision).  Accordingly these theorems are the bridge
from "the path reproduces the root" (what the circuit enforces) to "the leaf really has that value
in the tree with that root" (what the protocol needs), and they are exactly as strong as the
collision-freedom of the hash.

## Statements

* `path_binding`, `path_binding_lt`, `path_binding_iff`, `leaf_binding` — one path.
* `insertion_dense` — the batch, for arbitrary index arithmetic `val`/`addi` (slot `k` is at
  position `val (addi start k)`, so this composes directly with `C01.insertionProof_sat_iff` at
  `val := ZMod.val`, `addi := C01.addi`, wrap-around included).
* `insertion_dense_noWrap` — the same when the positions are `s, s+1, …` (for the circuit:
  `C01.insertion_index_nat`), with the running leaves `insertLeaves f s (ids.take k)`.
* `insertion_dense_nat` — the instance `F := ℕ`, `val := id`, `addi := (· + ·)`.
* `insertion_dense_original_empty` — same as `insertion_dense_noWrap`, with emptiness stated about
  the ORIGINAL leaves `f` (slot `k` writes a position no earlier slot touched).
* `insertLeaves_spec` — the closed form of `insertLeaves`.
-/
namespace Smtb.C01Dense

open Smtb.Merkle Smtb.Batch Smtb.Tree Smtb.DenseBatch

variable {F : Type}

/-! ## 1. Path binding -/

section Binding

variable (H : F → F → F) (hinj : ∀ a b c d, H a b = H c d → a = c ∧ b = d)
include hinj

/-- **Path binding** (any index; bits of `i` at positions `≥ d` are ignored by `bitsLE d`). -/
theorem path_binding (d : Nat) (f : Nat → F) (i : Nat) (v : F) (sibs : List F)
    (hlen : sibs.length = d) (h : recover H v sibs (bitsLE d i) = rootOf H d f) :
    v = f (i % 2 ^ d) ∧ sibs = pathOf H d f i :=
  (recover_eq_rootOf_iff H hinj d f i v sibs hlen).1 h

/-- **Path binding** for an in-range index: a path of length `d` that recomputes from `v` to the
root of the dense tree over `f` along the bits of `i < 2^d` shows that leaf `i` holds `v`, and it
is the genuine sibling path of leaf `i`. -/
theorem path_binding_lt (d : Nat) (f : Nat → F) (i : Nat) (v : F) (sibs : List F)
    (hlen : sibs.length = d) (hi : i < 2 ^ d)
    (h : recover H v sibs (bitsLE d i) = rootOf H d f) :
    v = f i ∧ sibs = pathOf H d f i := by
  have := path_binding H hinj d f i v sibs hlen h
  rwa [Nat.mod_eq_of_lt hi] at this

/-- path binding as an equivalence (the converse is `Tree.recover_pathOf` and needs no `hinj`) -/
theorem path_binding_iff (d : Nat) (f : Nat → F) (i : Nat) (v : F) (sibs : List F)
    (hlen : sibs.length = d) (hi : i < 2 ^ d) :
    recover H v sibs (bitsLE d i) = rootOf H d f ↔ v = f i ∧ sibs = pathOf H d f i := by
  have := recover_eq_rootOf_iff H hinj d f i v sibs hlen
  rwa [Nat.mod_eq_of_lt hi] at this

/-- **Leaf binding**: two leaf values that recompute to the same root along the same path (same
siblings, same direction bits) are equal.  (No length condition is needed: `recover` stops at the
shorter of `sibs`/`bits`, so in particular this holds when `sibs.length = bits.length`.) -/
theorem leaf_binding (v w : F) (sibs : List F) (bits : List Bool)
    (h : recover H v sibs bits = recover H w sibs bits) : v = w :=
  recover_leaf_inj H hinj sibs bits v w h

/-- two full-length openings of the same root along the same bits are the same opening -/
theorem opening_unique (v w : F) (sibs sibs' : List F) (bits : List Bool)
    (h1 : sibs.length = bits.length) (h2 : sibs'.length = bits.length)
    (h : recover H v sibs bits = recover H w sibs' bits) : v = w ∧ sibs = sibs' :=
  recover_inj H hinj bits sibs sibs' v w h1 h2 h

end Binding

/-! ## 2. The running leaf assignment -/

section Leaves

variable [Inhabited F]

/-- `insertLeaves f s ids` is: `f` with `ids` written at positions `s, s+1, …, s + |ids| - 1`.
(Definition: `insertLeaves f s [] = f`,
`insertLeaves f s (v :: vs) = insertLeaves (setLeaf f s v) (s + 1) vs`; equivalently
`f_0 = f`, `f_{k+1} = setLeaf f_k (s + k) ids[k]` — `insertLeaves_take_succ`.) -/
theorem insertLeaves_spec (f : Nat → F) (s : Nat) (ids : List F) :
    (∀ k v, ids[k]? = some v → insertLeaves f s ids (s + k) = v) ∧
    (∀ j, j < s ∨ s + ids.length ≤ j → insertLeaves f s ids j = f j) :=
  ⟨fun k v h => insertLeaves_at ids f s k v h,
   fun _ h => h.elim (insertLeaves_of_lt ids f) (insertLeaves_of_ge ids f)⟩

theorem insertLeaves_take_zero (f : Nat → F) (s : Nat) (ids : List F) :
    insertLeaves f s (ids.take 0) = f := rfl

/-- `f_{k+1} = setLeaf f_k (s + k) ids[k]` -/
theorem insertLeaves_take_succ (f : Nat → F) (s : Nat) (ids : List F) (k : Nat) (v : F)
    (h : ids[k]? = some v) :
    insertLeaves f s (ids.take (k + 1)) = setLeaf (insertLeaves f s (ids.take k)) (s + k) v := by
  have hk : k < ids.length := by
    rcases Nat.lt_or_ge k ids.length with h' | h'
    · exact h'
    · rw [List.getElem?_eq_none h'] at h; cases h
  have hv : ids[k] = v := by
    rw [List.getElem?_eq_getElem hk] at h; exact Option.some.inj h
  rw [List.take_succ_eq_append_getElem hk, insertLeaves_snoc, hv, List.length_take,
    Nat.min_eq_left (Nat.le_of_lt hk)]

end Leaves

/-! ## 3. The insertion batch -/

section Insertion

variable [DecidableEq F] [Inhabited F] (H : F → F → F) (zero : F)
variable (hinj : ∀ a b c d, H a b = H c d → a = c ∧ b = d)
include hinj

/-- **C01 at tree level, general index arithmetic.**  Slot `k` is at position
`val (addi start k)`.  The batch is accepted from the root of the dense tree over `f` with result
`post` iff for every slot `k`: the position is inside the tree, the leaf there is `zero` in the
running tree `f_k`, the presented path is the genuine path in `f_k`; and `post` is the root of the
final tree.  Here `f_k = insertLeavesAt pos 0 f (ids.take k)`: `f` after writing `ids[0..k)` at
the positions of slots `0..k`. -/
theorem insertion_dense (val : F → Nat) (addi : F → Nat → F) (d : Nat) (start : F)
    (f : Nat → F) (ids : List F) (proofs : List (List F)) (post : F)
    (hlen : ids.length = proofs.length) (hprf : ∀ prf ∈ proofs, prf.length = d) :
    insertionSpec H zero val addi d start 0 (rootOf H d f) ids proofs = some post ↔
      (∀ k, k < ids.length →
        val (addi start k) < 2 ^ d ∧
        insertLeavesAt (fun j => val (addi start j)) 0 f (ids.take k) (val (addi start k)) = zero ∧
        proofs[k]? = some (pathOf H d
          (insertLeavesAt (fun j => val (addi start j)) 0 f (ids.take k)) (val (addi start k)))) ∧
      post = rootOf H d (insertLeavesAt (fun j => val (addi start j)) 0 f ids) := by
  have := insertionSpec_dense_aux H zero hinj val addi d start ids proofs 0 f post hlen hprf
  simpa only [Nat.zero_add] using this

/-- **C01 at tree level, consecutive positions.**  If slot `k` is at position `s + k` (no
wrap-around in the index arithmetic), the batch is accepted from `pre = rootOf H d f` with result
`post` iff every `s + k` is inside the tree, leaf `s + k` is EMPTY in the running tree
`f_k = insertLeaves f s (ids.take k)` (whose root is the running root), `proofs[k]` is the genuine
sibling path of leaf `s + k` in `f_k`, and `post` is the root of the tree with all commitments
written. -/
theorem insertion_dense_noWrap (val : F → Nat) (addi : F → Nat → F) (d : Nat) (start : F) (s : Nat)
    (f : Nat → F) (ids : List F) (proofs : List (List F)) (post : F)
    (hlen : ids.length = proofs.length) (hprf : ∀ prf ∈ proofs, prf.length = d)
    (hpos : ∀ k, k < ids.length → val (addi start k) = s + k) :
    insertionSpec H zero val addi d start 0 (rootOf H d f) ids proofs = some post ↔
      (∀ k, k < ids.length →
        s + k < 2 ^ d ∧
        insertLeaves f s (ids.take k) (s + k) = zero ∧
        proofs[k]? = some (pathOf H d (insertLeaves f s (ids.take k)) (s + k))) ∧
      post = rootOf H d (insertLeaves f s ids) := by
  rw [insertion_dense H zero hinj val addi d start f ids proofs post hlen hprf]
  have hfull : insertLeavesAt (fun j => val (addi start j)) 0 f ids = insertLeaves f s ids :=
    insertLeavesAt_eq_insertLeaves _ ids 0 s f (by simpa using hpos)
  have htake : ∀ k, k < ids.length →
      insertLeavesAt (fun j => val (addi start j)) 0 f (ids.take k) = insertLeaves f s (ids.take k) := by
    intro k hk
    apply insertLeavesAt_eq_insertLeaves _ _ 0 s f
    intro j hj
    have hj' : j < ids.length := by
      rw [List.length_take] at hj; omega
    simpa using hpos j hj'
  rw [hfull]
  refine and_congr_left' (forall_congr' fun k => imp_congr_right fun hk => ?_)
  rw [htake k hk, hpos k hk]

/-- the same, with emptiness stated about the ORIGINAL tree: slot `k` writes position `s + k`,
which no earlier slot of the batch has touched, so "empty in the running tree" is "empty in `f`" -/
theorem insertion_dense_original_empty (val : F → Nat) (addi : F → Nat → F) (d : Nat) (start : F)
    (s : Nat) (f : Nat → F) (ids : List F) (proofs : List (List F)) (post : F)
    (hlen : ids.length = proofs.length) (hprf : ∀ prf ∈ proofs, prf.length = d)
    (hpos : ∀ k, k < ids.length → val (addi start k) = s + k) :
    insertionSpec H zero val addi d start 0 (rootOf H d f) ids proofs = some post ↔
      (∀ k, k < ids.length →
        s + k < 2 ^ d ∧
        f (s + k) = zero ∧
        proofs[k]? = some (pathOf H d (insertLeaves f s (ids.take k)) (s + k))) ∧
      post = rootOf H d (insertLeaves f s ids) := by
  rw [insertion_dense_noWrap H zero hinj val addi d start s f ids proofs post hlen hprf hpos]
  simp only [insertLeaves_take_next]

/-- an append over an occupied leaf is rejected whatever paths are presented -/
theorem insertion_occupied_rejected (val : F → Nat) (addi : F → Nat → F) (d : Nat) (start : F)
    (s : Nat) (f : Nat → F) (ids : List F) (proofs : List (List F))
    (hlen : ids.length = proofs.length) (hprf : ∀ prf ∈ proofs, prf.length = d)
    (hpos : ∀ k, k < ids.length → val (addi start k) = s + k)
    (k : Nat) (hk : k < ids.length) (hocc : f (s + k) ≠ zero) :
    insertionSpec H zero val addi d start 0 (rootOf H d f) ids proofs = none := by
  cases h : insertionSpec H zero val addi d start 0 (rootOf H d f) ids proofs with
  | none => rfl
  | some post =>
    have := (insertion_dense_original_empty H zero hinj val addi d start s f ids proofs post
      hlen hprf hpos).1 h
    exact absurd (this.1 k hk).2.1 hocc

end Insertion

set_option linter.constructorNameAsVariable false in
/-- **C01 at tree level over `ℕ`** (`val := id`, `addi s j := s + j`; in-range naturals — the
field-level wrap-around is handled by the circuit theorem, which feeds `(start + i).val`).
With `f_0 = f`, `f_{k+1} = setLeaf f_k (start + k) ids[k]`, i.e. `f_k = insertLeaves f start
(ids.take k)`: the specification accepts exactly the appends of the batch into leaves that are
EMPTY in the tree whose root is the running root, with the genuine sibling paths, and the
post-root is the root of the tree with the commitments written. -/
theorem insertion_dense_nat (H : Nat → Nat → Nat) (zero : Nat)
    (hinj : ∀ a b c d, H a b = H c d → a = c ∧ b = d)
    (d start : Nat) (f : Nat → Nat) (ids : List Nat) (proofs : List (List Nat)) (post : Nat)
    (hlen : ids.length = proofs.length) (hprf : ∀ prf ∈ proofs, prf.length = d) :
    insertionSpec H zero id (· + ·) d start 0 (rootOf H d f) ids proofs = some post ↔
      (∀ k, k < ids.length →
        start + k < 2 ^ d ∧
        insertLeaves f start (ids.take k) (start + k) = zero ∧
        proofs[k]? = some (pathOf H d (insertLeaves f start (ids.take k)) (start + k))) ∧
      post = rootOf H d (insertLeaves f start ids) :=
  insertion_dense_noWrap H zero hinj id (· + ·) d start start f ids proofs post hlen hprf
    (fun _ _ => rfl)

/-! ## Non-vacuity

`F := ℕ`, `zero := 0`, `H a b := Nat.pair a b + 1` (Cantor-style pairing shifted by one, so that
`0` is not a hash value).  `H` is genuinely injective, so the hypothesis `hinj` is satisfiable. -/

section Example

def exH (a b : Nat) : Nat := Nat.pair a b + 1

theorem exH_inj : ∀ a b c d, exH a b = exH c d → a = c ∧ b = d := by
  intro a b c d h
  exact Nat.pair_eq_pair.1 (Nat.add_right_cancel h)

/-- depth 2, leaves `[9, 0, 0, 0]` -/
def exF : Nat → Nat := fun j => if j = 0 then 9 else 0

/-- the genuine paths of leaf 1 in `[9,0,0,0]` and of leaf 2 in `[9,4,0,0]` -/
example : pathOf exH 2 exF 1 = [9, 1] := by decide
example : pathOf exH 2 (setLeaf exF 1 4) 2 = [0, 95] := by decide

/-- appending `[4, 6]` at positions 1, 2 with the genuine paths is accepted … -/
theorem ex_accept : insertionSpec exH 0 id (· + ·) 2 1 0 (rootOf exH 2 exF) [4, 6] [[9, 1], [0, 95]]
    = some (rootOf exH 2 (insertLeaves exF 1 [4, 6])) := by decide

/-- … the resulting leaves are `[9, 4, 6, 0]` and the root changed -/
example : (List.range 4).map (insertLeaves exF 1 [4, 6]) = [9, 4, 6, 0] := by decide
example : rootOf exH 2 (insertLeaves exF 1 [4, 6]) ≠ rootOf exH 2 exF := by decide

/-- so the right-hand side of `insertion_dense_nat` is inhabited (obtained through the theorem) -/
example :
    (∀ k, k < 2 → 1 + k < 2 ^ 2 ∧ insertLeaves exF 1 ([4, 6].take k) (1 + k) = 0 ∧
      [[9, 1], [0, 95]][k]? = some (pathOf exH 2 (insertLeaves exF 1 ([4, 6].take k)) (1 + k))) ∧
    rootOf exH 2 (insertLeaves exF 1 [4, 6]) = rootOf exH 2 (insertLeaves exF 1 [4, 6]) :=
  (insertion_dense_nat exH 0 exH_inj 2 1 exF [4, 6] [[9, 1], [0, 95]] _ rfl (by decide)).1 ex_accept

/-- a stale second path (the genuine path of leaf 2 *before* the first write) is rejected -/
example : pathOf exH 2 exF 2 = [0, 91] := by decide
example : insertionSpec exH 0 id (· + ·) 2 1 0 (rootOf exH 2 exF) [4, 6] [[9, 1], [0, 91]] = none := by
  decide

/-- appending at position 0, which is occupied (`exF 0 = 9`), is rejected for EVERY choice of
sibling paths — a statement no finite evaluation gives, obtained from the theorem -/
example (proofs : List (List Nat)) (hlen : proofs.length = 2) (hprf : ∀ prf ∈ proofs, prf.length = 2) :
    insertionSpec exH 0 id (· + ·) 2 0 0 (rootOf exH 2 exF) [4, 6] proofs = none :=
  insertion_occupied_rejected exH 0 exH_inj id (· + ·) 2 0 0 exF [4, 6] proofs hlen.symm hprf
    (fun _ _ => rfl) 0 (by decide) (by decide)

/-- path binding on the example: any opening of the root at index 1 shows the value `0` -/
example (v : Nat) (sibs : List Nat) (hlen : sibs.length = 2)
    (h : recover exH v sibs (bitsLE 2 1) = rootOf exH 2 exF) : v = 0 ∧ sibs = [9, 1] := by
  have := path_binding_lt exH exH_inj 2 exF 1 v sibs hlen (by decide) h
  have e : pathOf exH 2 exF 1 = [9, 1] := by decide
  rw [e] at this
  exact this

end Example

end Smtb.C01Dense

#print axioms Smtb.C01Dense.path_binding
#print axioms Smtb.C01Dense.path_binding_lt
#print axioms Smtb.C01Dense.path_binding_iff
#print axioms Smtb.C01Dense.leaf_binding
#print axioms Smtb.C01Dense.opening_unique
#print axioms Smtb.C01Dense.insertLeaves_spec
#print axioms Smtb.C01Dense.insertLeaves_take_succ
#print axioms Smtb.C01Dense.insertion_dense
#print axioms Smtb.C01Dense.insertion_dense_noWrap
#print axioms Smtb.C01Dense.insertion_dense_original_empty
#print axioms Smtb.C01Dense.insertion_occupied_rejected
#print axioms Smtb.C01Dense.insertion_dense_nat
#print axioms Smtb.C01Dense.exH_inj
#print axioms Smtb.C01Dense.ex_accept
