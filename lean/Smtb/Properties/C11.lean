import Smtb.Proofs.File
/-!
# C11 — proving-system file round trip

*Writing a proving system in the compressed or the raw format and reading it back restores the same
tree depth, batch size, proving key, verifying key and constraint system.  Converting a file to the
raw format preserves this.*

Model: `Smtb/Model/File.lean`.  gnark's section formats are parameters; the theorems hold for ALL
systems with `depth, batch < 2^32` (they are `uint32` in Go) and ALL codecs satisfying `Codecs.H1`
(self-delimiting round trip of the compressed and the raw encoder against the one decoder).
No hypothesis beyond H1 is needed for C11.
-/
namespace Smtb.File

section
variable {PK VK CS : Type} (c : Codecs PK VK CS)

/-- `binary.BigEndian.PutUint32` writes exactly four bytes, each `< 256` -/
theorem header_length (n : Nat) : (u32BE n).length = 4 ∧ ∀ b ∈ u32BE n, b < 256 :=
  ⟨u32BE_length n, u32BE_lt n⟩

/-- `Uint32 ∘ PutUint32 = id` on `uint32` -/
theorem header_roundtrip {n : Nat} (h : n < 2 ^ 32) : readU32BE (u32BE n) = n :=
  readU32BE_u32BE h

/-- reading a written file followed by arbitrary trailing bytes yields the system
(`UnsafeReadFrom` does not check for end of input) -/
theorem read_write_append (h1 : c.H1) (fmt : Format) (ps : System PK VK CS)
    (hd : ps.depth < 2 ^ 32) (hb : ps.batch < 2 ^ 32) (junk : List Byte) :
    read c (write c fmt ps ++ junk) = .ok ps := by
  rw [read_eq_readStaged, readStaged_write_append c h1 fmt ps hd hb junk]; rfl

/-- C11, both formats: `UnsafeReadFrom ∘ WriteTo = id` and `UnsafeReadFrom ∘ WriteRawTo = id` -/
theorem read_write (h1 : c.H1) (fmt : Format) (ps : System PK VK CS)
    (hd : ps.depth < 2 ^ 32) (hb : ps.batch < 2 ^ 32) :
    read c (write c fmt ps) = .ok ps := by
  simpa using read_write_append c h1 fmt ps hd hb []

/-- the first four bytes of the file are the tree depth and the next four the batch size, and they
decode to these values (not swapped), in both formats -/
theorem depth_batch_not_swapped (fmt : Format) (ps : System PK VK CS)
    (hd : ps.depth < 2 ^ 32) (hb : ps.batch < 2 ^ 32) :
    (write c fmt ps).take 4 = u32BE ps.depth ∧
    ((write c fmt ps).drop 4).take 4 = u32BE ps.batch ∧
    readU32BE ((write c fmt ps).take 4) = ps.depth ∧
    readU32BE (((write c fmt ps).drop 4).take 4) = ps.batch := by
  have e1 : (write c fmt ps).take 4 = u32BE ps.depth := by
    rw [write_assoc, take_append_ge _ (by simp [u32BE_length])]; simp [u32BE_length]
  have e2 : ((write c fmt ps).drop 4).take 4 = u32BE ps.batch := by
    rw [write_assoc, List.drop_left' (u32BE_length _),
      take_append_ge _ (by simp [u32BE_length])]
    simp [u32BE_length]
  exact ⟨e1, e2, by rw [e1, readU32BE_u32BE hd], by rw [e2, readU32BE_u32BE hb]⟩

/-- `convert-to-raw` on a compressed file produces exactly the raw file of the same system … -/
theorem convertToRaw_compressed (h1 : c.H1) (ps : System PK VK CS)
    (hd : ps.depth < 2 ^ 32) (hb : ps.batch < 2 ^ 32) :
    convertToRaw c (write c .compressed ps) = .ok (write c .raw ps) := by
  simp [convertToRaw, read_write c h1 .compressed ps hd hb, bind, Except.bind, pure, Except.pure]

/-- … and reading the converted file yields the same system again -/
theorem convertToRaw_preserves (h1 : c.H1) (fmt : Format) (ps : System PK VK CS)
    (hd : ps.depth < 2 ^ 32) (hb : ps.batch < 2 ^ 32) :
    (convertToRaw c (write c fmt ps) >>= read c) = .ok ps := by
  simp [convertToRaw, read_write c h1 _ ps hd hb, bind, Except.bind, pure, Except.pure]

/-- `convert-to-raw` is idempotent: a raw file is converted to itself -/
theorem convertToRaw_raw (h1 : c.H1) (ps : System PK VK CS)
    (hd : ps.depth < 2 ^ 32) (hb : ps.batch < 2 ^ 32) :
    convertToRaw c (write c .raw ps) = .ok (write c .raw ps) := by
  simp [convertToRaw, read_write c h1 .raw ps hd hb, bind, Except.bind, pure, Except.pure]

/-- the two formats differ only inside the two key sections: header and constraint system
sections are byte-identical -/
theorem formats_share_header_and_cs (ps : System PK VK CS) :
    (write c .compressed ps).take 8 = (write c .raw ps).take 8 ∧
    (∃ keys, write c .compressed ps = u32BE ps.depth ++ u32BE ps.batch ++ keys ++ c.cs.enc ps.cs) ∧
    (∃ keys, write c .raw ps = u32BE ps.depth ++ u32BE ps.batch ++ keys ++ c.cs.enc ps.cs) := by
  refine ⟨?_, ⟨c.pk.enc ps.pk ++ c.vk.enc ps.vk, by simp [write, encPK, encVK]⟩,
    ⟨c.pkRaw ps.pk ++ c.vkRaw ps.vk, by simp [write, encPK, encVK]⟩⟩
  have h8 : ∀ fmt, (write c fmt ps).take 8 = u32BE ps.depth ++ u32BE ps.batch := by
    intro fmt
    have : write c fmt ps = (u32BE ps.depth ++ u32BE ps.batch) ++
        (encPK c fmt ps.pk ++ encVK c fmt ps.vk ++ c.cs.enc ps.cs) := by
      simp [write, List.append_assoc]
    rw [this, take_append_ge _ (by simp [u32BE_length])]
    simp [u32BE_length]
  rw [h8, h8]

end

/-! ### non-vacuity: header bytes, and the toy codecs (`Toy.h1 : Toy.codecs.H1`) -/

/-- depth 30, batch 100: bytes 0..3 are the depth, bytes 4..7 the batch -/
example : u32BE 30 ++ u32BE 100 = [0, 0, 0, 30, 0, 0, 0, 100] := by decide
example : u32BE 0x01020304 = [1, 2, 3, 4] := by decide
example : readU32BE [0, 0, 0, 30] = 30 ∧ readU32BE [0, 0, 0, 100] = 100 := by decide
/-- `PutUint32` truncates modulo 2^32 (Go's `uint32` cannot hold more) -/
example : u32BE (2 ^ 32 + 5) = [0, 0, 0, 5] := by decide

example : write Toy.codecs .compressed Toy.system =
    [0, 0, 0, 30, 0, 0, 0, 100, 0, 3, 1, 2, 3, 0, 2, 4, 5, 0, 1, 6] := by decide
example : write Toy.codecs .raw Toy.system =
    [0, 0, 0, 30, 0, 0, 0, 100, 1, 3, 1, 2, 3, 1, 2, 4, 5, 0, 1, 6] := by decide
example : read Toy.codecs (write Toy.codecs .compressed Toy.system) = .ok Toy.system := by decide
example : read Toy.codecs (write Toy.codecs .raw Toy.system) = .ok Toy.system := by decide
example : read Toy.codecs (write Toy.codecs .raw Toy.system ++ [9, 9, 9]) = .ok Toy.system := by
  decide
example : convertToRaw Toy.codecs (write Toy.codecs .compressed Toy.system) =
    .ok (write Toy.codecs .raw Toy.system) := by decide
/-- depth and batch are not interchangeable: swapping them gives a different file, which reads back
as the swapped system -/
example : read Toy.codecs (write Toy.codecs .raw { Toy.system with depth := 100, batch := 30 }) ≠
    .ok Toy.system := by decide
/-- the general theorem instantiated at the toy codecs -/
example (ps : System (List Byte) (List Byte) (List Byte)) (hd : ps.depth < 2 ^ 32)
    (hb : ps.batch < 2 ^ 32) (fmt : Format) :
    read Toy.codecs (write Toy.codecs fmt ps) = .ok ps :=
  read_write Toy.codecs Toy.h1 fmt ps hd hb

end Smtb.File

#print axioms Smtb.File.header_length
#print axioms Smtb.File.header_roundtrip
#print axioms Smtb.File.read_write_append
#print axioms Smtb.File.read_write
#print axioms Smtb.File.depth_batch_not_swapped
#print axioms Smtb.File.convertToRaw_compressed
#print axioms Smtb.File.convertToRaw_preserves
#print axioms Smtb.File.convertToRaw_raw
#print axioms Smtb.File.formats_share_header_and_cs
#print axioms Smtb.File.Toy.h1
