import Smtb.Gen.Facts
/-!
# C13 — regenerated-facts obligations: no shared mutable state on the request path

`Smtb/Gen/Facts.lean` is regenerated from the current tree on every run by a go/ast walk over
the packages `main`, `server`, `server/wrapped_http`, `prover`, `prover/keccak`,
`prover/poseidon`, `logging`, `poseidon_tree`.  `concurrent_eq_sequential`
(`Smtb/Properties/C13.lean`) assumes that no step of a request writes shared state; on the Go
side that rests on the facts below, re-decided on every run:

* the only package-level variable assigned inside any function is `logging.log`, assigned only by
  `logging.SetJSONOutput`;
* `SetJSONOutput` is called only from `main.main` (the CLI actions, before `server.Run`) — never
  from a request handler;
* no method of package `server` assigns through its receiver (`proveHandler` has value receivers
  and holds the proving system read-only).

What is *not* covered (named in DESIGN.md): data races inside gnark, promhttp and the Go runtime.
-/
namespace Smtb.Properties.C13Facts
open Smtb

theorem only_logger_is_written :
    Gen.packageVarWrites.all (fun w => w == ("logging", "log", "SetJSONOutput")) = true := by decide

theorem setJSONOutput_only_from_main :
    Gen.setJSONOutputCallers.all (fun c => c == ("main", "main")) = true := by decide

theorem no_receiver_writes_in_server : Gen.receiverWrites = [] := by decide

/-- every package-level variable of the request path (`server`, `server/wrapped_http`, `prover`)
— there is none on the pinned tree — is plain literal data: a basic literal or a slice/array
literal of basic literals.  Together with `only_logger_is_written` (no function assigns to such a
variable or to one of its elements) it is read-only.  A pool, cache, map, struct or computed value
added there breaks this; the check then searches for an isolation failure with bursts of concurrent
requests and the race detector, and reports the broken obligation if it finds none — the simple
syntactic argument for "no shared mutable state" no longer applies (such values are mutated through
method calls and aliases that `packageVarWrites` cannot see). -/
theorem no_globals_on_request_path :
    (Gen.packageVarKinds.filter fun v =>
      (v.1 == "server" || v.1 == "prover" || v.1 == "wrapped_http") && v.2.2 != "literal") = [] := by decide

end Smtb.Properties.C13Facts

#print axioms Smtb.Properties.C13Facts.no_globals_on_request_path
#print axioms Smtb.Properties.C13Facts.only_logger_is_written
#print axioms Smtb.Properties.C13Facts.setJSONOutput_only_from_main
#print axioms Smtb.Properties.C13Facts.no_receiver_writes_in_server
