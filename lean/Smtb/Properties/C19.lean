import Smtb.Proofs.Cli
import Smtb.Properties.C07
import Smtb.Properties.C09
/-!
# C19 — the command-line pipeline composes and its exit status tells the truth

Subject: `main.go` (the `Action`s of `setup`, `r1cs`, `gen-test-params`, `prove`, `verify`,
`convert-to-raw`, `extract-circuit`, and the final `Fatal` of `main`), `logging/logger.go`.
Model: `Smtb/Model/Cli.lean` (abstract file store, arbitrary mode strings with `""` for an absent
flag, exit status 1 for every returned error).  Standing assumption: Groth16 as an ideal
functionality (header of `Smtb/Model/Prover.lean`); the proof text is the token text
`0x<sysId>,0x<pub>`.

Quantifiers: every world (file store, id counter, unwritable paths), every mode string, every
path, every stdin text, every depth and batch size.

`pipeline_composes` keeps as an explicit hypothesis `hgen` that the circuit accepts the generated
test parameters (`Params.accepted d (genParams m d b)`, i.e. `circuitAcceptsInsertion/Deletion`
on their reduced values): this is the statement "the off-chain tree and the circuit agree", proved
in another part of the project.  That the generated parameters have the requested *dimensions* and
survive printing and re-reading is proved here.  Nothing is `_partial`.
-/
namespace Smtb.Properties.C19
open Smtb.Codec Smtb.Prover Smtb.Cli

/-! ## closed forms of `step` on the paths that matter -/

theorem exit_le_one (w : World) (c : Cmd) : exitOf w c = 0 ∨ exitOf w c = 1 := by
  unfold exitOf step
  cases exec w c with
  | ok v => exact Or.inl rfl
  | error e => exact Or.inr rfl

/-- an error leaves the file store and the id counter untouched -/
theorem error_world (w : World) (c : Cmd) (h : exitOf w c ≠ 0) : worldOf w c = w := by
  unfold exitOf step at h
  unfold worldOf step
  cases he : exec w c with
  | ok v => rw [he] at h; exact absurd rfl h
  | error e => rfl

theorem step_setup_ok (w : World) (ms out : String) (m : Mode) (d b : Nat)
    (hm : parseMode ms = some m) (hc : compileFails m d = false) (hw : w.creatable out = true) :
    step w (.setup ms out d b) =
      (({ w with nextId := w.nextId + 1 }).write out
        (.keys { id := w.nextId, mode := m, depth := d, batch := b }), 0, "") := by
  simp [step, exec, hm, hc, hw]

theorem step_gen_ok (w : World) (ms : String) (m : Mode) (d b : Nat) (hm : parseMode ms = some m) :
    step w (.genTestParams ms d b) = (w, 0, encodeParams (genParams m d b) ++ "\n") := by
  simp [step, exec, hm]

theorem step_prove_ok (w : World) (ms keys stdin : String) (sys : System) (m : Mode) (ps : Params)
    (t : Token) (hk : w.readKeys keys = some sys) (hm : parseMode ms = some m)
    (hd : Http.decodeParams m stdin = .ok ps) (hp : Prover.prove sys ps = .ok t) :
    step w (.prove ms keys stdin) = (w, 0, encodeToken t ++ "\n") := by
  simp [step, exec, hk, hm, hd, hp]

theorem step_verify (w : World) (ms keys ihs stdin : String) (h : Int) (sys : System) (tok : Token)
    (m : Mode) (hh : fromHex ihs = some h) (hk : w.readKeys keys = some sys)
    (ht : decodeToken stdin = some tok) (hm : parseMode ms = some m) :
    step w (.verify ms keys ihs stdin) =
      (w, if Prover.verify sys h tok = true then 0 else 1, verifyDiag m) := by
  simp only [step, exec]
  simp only [hh, hk, ht, hm]
  cases Prover.verify sys h tok <;> simp

/-- `prove`: either everything succeeds and the proof line is printed, or exit 1, nothing
printed, world unchanged -/
theorem step_prove_cases (w : World) (ms keys stdin : String) :
    (∃ sys m ps t, w.readKeys keys = some sys ∧ parseMode ms = some m ∧
      Http.decodeParams m stdin = .ok ps ∧ Prover.prove sys ps = .ok t ∧
      step w (.prove ms keys stdin) = (w, 0, encodeToken t ++ "\n")) ∨
    step w (.prove ms keys stdin) = (w, 1, "") := by
  cases hk : w.readKeys keys with
  | none => right; simp [step, exec, hk]
  | some sys =>
    cases hm : parseMode ms with
    | none => right; simp [step, exec, hk, hm]
    | some m =>
      cases hd : Http.decodeParams m stdin with
      | error e => right; simp [step, exec, hk, hm, hd]
      | ok ps =>
        cases hp : Prover.prove sys ps with
        | error e => right; simp [step, exec, hk, hm, hd, hp]
        | ok t =>
          left
          exact ⟨sys, m, ps, t, rfl, rfl, hd, hp, step_prove_ok w ms keys stdin sys m ps t hk hm hd hp⟩

/-- `verify`: either all inputs are well-formed and the verdict decides, or exit 1 with empty
stdout -/
theorem step_verify_cases (w : World) (ms keys ihs stdin : String) :
    (∃ h sys tok m, fromHex ihs = some h ∧ w.readKeys keys = some sys ∧
      decodeToken stdin = some tok ∧ parseMode ms = some m ∧
      step w (.verify ms keys ihs stdin) =
        (w, if Prover.verify sys h tok = true then 0 else 1, verifyDiag m)) ∨
    step w (.verify ms keys ihs stdin) = (w, 1, "") := by
  cases hh : fromHex ihs with
  | none => right; simp [step, exec, hh]
  | some h =>
    cases hk : w.readKeys keys with
    | none => right; simp [step, exec, hh, hk]
    | some sys =>
      cases ht : decodeToken stdin with
      | none => right; simp [step, exec, hh, hk, ht]
      | some tok =>
        cases hm : parseMode ms with
        | none => right; simp [step, exec, hh, hk, ht, hm]
        | some m =>
          left
          exact ⟨h, sys, tok, m, rfl, rfl, rfl, rfl,
            step_verify w ms keys ihs stdin h sys tok m hh hk ht hm⟩

/-! ## `verify` -/

/-- **`verify_exit_truth`.** With readable keys, a decodable proof, a numeric hash and one of the
two modes, `verify` exits 0 exactly when the verifier of the keys' system accepts the proof for
that hash — and with status 1 otherwise. -/
theorem verify_exit_truth (w : World) (ms keys ihs stdin : String) (h : Int) (sys : System)
    (tok : Token) (m : Mode) (hh : fromHex ihs = some h) (hk : w.readKeys keys = some sys)
    (ht : decodeToken stdin = some tok) (hm : parseMode ms = some m) :
    (exitOf w (.verify ms keys ihs stdin) = 0 ↔ Prover.verify sys h tok = true) ∧
    (exitOf w (.verify ms keys ihs stdin) = 1 ↔ Prover.verify sys h tok = false) := by
  unfold exitOf
  rw [step_verify w ms keys ihs stdin h sys tok m hh hk ht hm]
  cases Prover.verify sys h tok <;> simp

/-- Unconditional form: `verify` exits 0 **iff** the hash is a number, the keys file is a proving
system, stdin is a proof, the mode is valid and the verifier accepts.  Every other situation is
exit status 1 (`exit_le_one`). -/
theorem verify_exit_zero_iff (w : World) (ms keys ihs stdin : String) :
    exitOf w (.verify ms keys ihs stdin) = 0 ↔
      ∃ h sys tok m, fromHex ihs = some h ∧ w.readKeys keys = some sys ∧
        decodeToken stdin = some tok ∧ parseMode ms = some m ∧ Prover.verify sys h tok = true := by
  constructor
  · intro hex
    rcases step_verify_cases w ms keys ihs stdin with ⟨h, sys, tok, m, hh, hk, ht, hm, hs⟩ | hs
    · refine ⟨h, sys, tok, m, hh, hk, ht, hm, ?_⟩
      unfold exitOf at hex
      rw [hs] at hex
      cases hv : Prover.verify sys h tok with
      | true => rfl
      | false => simp [hv] at hex
    · unfold exitOf at hex
      rw [hs] at hex
      cases hex
  · rintro ⟨h, sys, tok, m, hh, hk, ht, hm, hv⟩
    exact ((verify_exit_truth w ms keys ihs stdin h sys tok m hh hk ht hm).1).mpr hv

/-- `verify` does not look at *which* of the two modes it is given (both `Verify…` functions
build the same public witness): the exit status under `--mode insertion` and `--mode deletion`
is the same, for keys of either mode. -/
theorem verify_mode_irrelevant (w : World) (keys ihs stdin : String) :
    exitOf w (.verify "insertion" keys ihs stdin) = exitOf w (.verify "deletion" keys ihs stdin) := by
  have h1 : parseMode "insertion" = some .insertion := by decide
  have h2 : parseMode "deletion" = some .deletion := by decide
  cases hh : fromHex ihs with
  | none => simp [exitOf, step, exec, hh]
  | some h =>
    cases hk : w.readKeys keys with
    | none => simp [exitOf, step, exec, hh, hk]
    | some sys =>
      cases ht : decodeToken stdin with
      | none => simp [exitOf, step, exec, hh, hk, ht]
      | some tok =>
        unfold exitOf
        rw [step_verify w _ keys ihs stdin h sys tok _ hh hk ht h1,
          step_verify w _ keys ihs stdin h sys tok _ hh hk ht h2]

/-! ## modes -/

/-- **`bad_mode_nonzero`.** Any mode string other than `insertion` / `deletion` — the empty string
of an absent flag, `Insertion`, `insert`, garbage — makes `setup`, `r1cs`, `gen-test-params`,
`prove` and `verify` exit with status 1; nothing is printed on stdout (in particular not by
`prove`) and no file is written. -/
theorem bad_mode_nonzero (w : World) (ms : String) (hbad : ms ≠ "insertion" ∧ ms ≠ "deletion")
    (out keys stdin ihs : String) (d b : Nat) :
    step w (.setup ms out d b) = (w, 1, "") ∧
    step w (.r1cs ms out d b) = (w, 1, "") ∧
    step w (.genTestParams ms d b) = (w, 1, "") ∧
    step w (.prove ms keys stdin) = (w, 1, "") ∧
    step w (.verify ms keys ihs stdin) = (w, 1, "") := by
  have hm : parseMode ms = none := (parseMode_none_iff ms).mpr hbad
  refine ⟨by simp [step, exec, hm], by simp [step, exec, hm], by simp [step, exec, hm], ?_, ?_⟩
  · rcases step_prove_cases w ms keys stdin with ⟨_, m, _, _, _, hm', _⟩ | hs
    · rw [hm] at hm'; cases hm'
    · exact hs
  · rcases step_verify_cases w ms keys ihs stdin with ⟨_, _, _, m, _, _, _, hm', _⟩ | hs
    · rw [hm] at hm'; cases hm'
    · exact hs

/-- the absent flag is a bad mode -/
example : ("" : String) ≠ "insertion" ∧ ("" : String) ≠ "deletion" := by decide

/-! ## keys -/

/-- **`unreadable_keys_nonzero`.** A keys path that is missing, or holds a text file or any other
non-proving-system content, makes `prove`, `verify` and `convert-to-raw` exit with status 1, with
empty stdout. -/
theorem unreadable_keys_nonzero (w : World) (keys : String)
    (hbad : w.read keys = none ∨ (∃ s, w.read keys = some (.text s)) ∨ w.read keys = some .garbage)
    (ms stdin ihs out : String) :
    step w (.prove ms keys stdin) = (w, 1, "") ∧
    step w (.verify ms keys ihs stdin) = (w, 1, "") ∧
    step w (.convertToRaw keys out) = (w, 1, "") := by
  have hk : w.readKeys keys = none := (readKeys_none_iff w keys).mpr hbad
  refine ⟨by simp [step, exec, hk], ?_, by simp [step, exec, hk]⟩
  rcases step_verify_cases w ms keys ihs stdin with ⟨_, _, _, _, _, hk', _⟩ | hs
  · rw [hk] at hk'; cases hk'
  · exact hs

/-! ## `prove` -/

/-- Unconditional form: `prove` exits 0 **iff** the keys are readable, the mode is valid, stdin
decodes in that mode and `Prove<mode>` returns a proof. -/
theorem prove_exit_zero_iff (w : World) (ms keys stdin : String) :
    exitOf w (.prove ms keys stdin) = 0 ↔
      ∃ sys m ps t, w.readKeys keys = some sys ∧ parseMode ms = some m ∧
        Http.decodeParams m stdin = .ok ps ∧ Prover.prove sys ps = .ok t := by
  constructor
  · intro hex
    rcases step_prove_cases w ms keys stdin with ⟨sys, m, ps, t, hk, hm, hd, hp, _⟩ | hs
    · exact ⟨sys, m, ps, t, hk, hm, hd, hp⟩
    · unfold exitOf at hex
      rw [hs] at hex
      cases hex
  · rintro ⟨sys, m, ps, t, hk, hm, hd, hp⟩
    unfold exitOf
    rw [step_prove_ok w ms keys stdin sys m ps t hk hm hd hp]

/-- **`unprovable_nonzero`.** With readable keys and the keys' own mode: a stdin that is not a
parameter document, or one with the wrong dimensions, or one the circuit does not accept, ends in
exit status 1 with nothing on stdout. -/
theorem unprovable_nonzero (w : World) (ms keys stdin : String) (sys : System)
    (hk : w.readKeys keys = some sys) (hm : parseMode ms = some sys.mode)
    (hbad : (∃ e, Http.decodeParams sys.mode stdin = .error e) ∨
      ∃ ps, Http.decodeParams sys.mode stdin = .ok ps ∧
        (ps.shapeOk sys.depth sys.batch && ps.accepted sys.depth) = false) :
    step w (.prove ms keys stdin) = (w, 1, "") := by
  rcases hbad with ⟨e, he⟩ | ⟨ps, hd, hb⟩
  · simp [step, exec, hk, hm, he]
  · have hmode := C09.decodeParams_mode hd
    obtain ⟨e, he⟩ := (C07.prove_error_no_proof sys ps hmode hb).1
    simp [step, exec, hk, hm, hd, he]

/-- **`prove_stdout_is_one_proof`.** Whatever the world and the arguments: if `prove` exits 0, its
stdout is exactly one line — the text of the proof that `Prove<mode>` returned, followed by one
newline, with no newline inside — and that line reads back (`decodeToken`, as `verify` does) as
that very proof; if `prove` exits non-zero, stdout is empty. -/
theorem prove_stdout_is_one_proof (w : World) (ms keys stdin : String) :
    (exitOf w (.prove ms keys stdin) = 0 →
      ∃ sys m ps t, w.readKeys keys = some sys ∧ parseMode ms = some m ∧
        Http.decodeParams m stdin = .ok ps ∧ Prover.prove sys ps = .ok t ∧
        stdoutOf w (.prove ms keys stdin) = encodeToken t ++ "\n" ∧
        '\n' ∉ (encodeToken t).toList ∧
        decodeToken (stdoutOf w (.prove ms keys stdin)) = some t) ∧
    (exitOf w (.prove ms keys stdin) ≠ 0 → stdoutOf w (.prove ms keys stdin) = "") := by
  constructor
  · intro hex
    obtain ⟨sys, m, ps, t, hk, hm, hd, hp⟩ := (prove_exit_zero_iff w ms keys stdin).mp hex
    have hs : stdoutOf w (.prove ms keys stdin) = encodeToken t ++ "\n" := by
      unfold stdoutOf; rw [step_prove_ok w ms keys stdin sys m ps t hk hm hd hp]
    exact ⟨sys, m, ps, t, hk, hm, hd, hp, hs, encodeToken_no_newline t, by rw [hs]; exact decodeToken_line t⟩
  · intro hex
    rcases step_prove_cases w ms keys stdin with ⟨sys, m, ps, t, _, _, _, _, hs⟩ | hs
    · unfold exitOf at hex
      rw [hs] at hex
      exact absurd rfl hex
    · unfold stdoutOf
      rw [hs]

/-! ## the pipeline -/

/-- **`pipeline_composes`.** For both modes and all dimensions for which the circuit compiles:
from any world in which the keys path can be created,
`setup --mode m --output k` ; `gen-test-params --mode m` ; `prove --mode m --keys-file k` fed with
the printed parameters ; `verify --mode m --keys-file k --input-hash <the parameters' hash>` fed
with the printed proof — every step exits 0, `gen-test-params` prints exactly the parameter
document and `prove` exactly one proof line, **provided** the circuit accepts the generated
parameters (`hgen`, proved elsewhere). -/
theorem pipeline_composes (m : Mode) (d b : Nat) (w0 : World) (keys : String)
    (hw : w0.creatable keys = true) (hc : compileFails m d = false)
    (hgen : (genParams m d b).accepted d = true) :
    let ms := modeString m
    let s1 := step w0 (.setup ms keys d b)
    let s2 := step s1.1 (.genTestParams ms d b)
    let s3 := step s2.1 (.prove ms keys s2.2.2)
    let s4 := step s3.1 (.verify ms keys (toHexInt (genParams m d b).inputHash) s3.2.2)
    s1.2.1 = 0 ∧ s2.2.1 = 0 ∧ s3.2.1 = 0 ∧ s4.2.1 = 0 ∧
    s2.2.2 = encodeParams (genParams m d b) ++ "\n" ∧
    s3.2.2 = encodeToken { sysId := w0.nextId, pub := red (genParams m d b).inputHash } ++ "\n" := by
  intro ms s1 s2 s3 s4
  have hm : parseMode ms = some m := parseMode_modeString m
  let sys : System := { id := w0.nextId, mode := m, depth := d, batch := b }
  let w1 : World := ({ w0 with nextId := w0.nextId + 1 }).write keys (.keys sys)
  let tok : Token := { sysId := w0.nextId, pub := red (genParams m d b).inputHash }
  have e1 : s1 = (w1, 0, "") := step_setup_ok w0 ms keys m d b hm hc hw
  have e2 : s2 = (w1, 0, encodeParams (genParams m d b) ++ "\n") := by
    show step s1.1 _ = _
    rw [e1]; exact step_gen_ok w1 ms m d b hm
  have hk : w1.readKeys keys = some sys := readKeys_write _ keys sys
  have hp : Prover.prove sys (genParams m d b) = .ok tok :=
    (C07.prove_ok_iff sys (genParams m d b) (genParams_mode m d b) tok).mpr
      ⟨genParams_shape m d b, hgen, rfl⟩
  have e3 : s3 = (w1, 0, encodeToken tok ++ "\n") := by
    show step s2.1 (.prove ms keys s2.2.2) = _
    rw [e2]
    exact step_prove_ok w1 ms keys _ sys m _ tok hk hm (decodeParams_gen m d b) hp
  have e4 : s4 = (w1, 0, verifyDiag m) := by
    show step s3.1 (.verify ms keys _ s3.2.2) = _
    rw [e3]
    have := step_verify w1 ms keys (toHexInt (genParams m d b).inputHash) (encodeToken tok ++ "\n")
      (genParams m d b).inputHash sys tok m
      (fromHex_toHexInt _ (genParams_inputHash_nonneg m d b)) hk (decodeToken_line tok) hm
    rw [this]
    have hv : Prover.verify sys (genParams m d b).inputHash tok = true := by
      have := C07.verify_own_hash sys (genParams m d b) tok hp 0
      simpa using this
    simp [hv]
  rw [e1, e2, e3, e4]
  exact ⟨rfl, rfl, rfl, rfl, rfl, rfl⟩

/-- The same proof is rejected (exit 1) for every hash that is not congruent to the parameters'
hash, and under keys from another set-up (e.g. the other mode's keys file). -/
theorem pipeline_rejects (w : World) (ms keys ihs stdin : String) (h : Int) (sys sys0 : System)
    (ps : Params) (tok : Token) (m : Mode)
    (hp : Prover.prove sys0 ps = .ok tok)
    (hh : fromHex ihs = some h) (hk : w.readKeys keys = some sys)
    (ht : decodeToken stdin = some tok) (hm : parseMode ms = some m)
    (hbad : sys.id ≠ sys0.id ∨ h.emod (r : Int) ≠ ps.inputHash.emod (r : Int)) :
    exitOf w (.verify ms keys ihs stdin) = 1 := by
  rw [(verify_exit_truth w ms keys ihs stdin h sys tok m hh hk ht hm).2]
  cases hv : Prover.verify sys h tok with
  | false => rfl
  | true =>
    have := (C07.verify_iff sys0 sys ps tok hp h).mp hv
    rcases hbad with hb | hb
    · exact absurd this.1 hb
    · exact absurd this.2 hb

/-! ## the other commands: exit logic -/

theorem setup_exit_zero_iff (w : World) (ms out : String) (d b : Nat) :
    exitOf w (.setup ms out d b) = 0 ↔
      ∃ m, parseMode ms = some m ∧ compileFails m d = false ∧ w.creatable out = true := by
  cases hm : parseMode ms with
  | none => simp [exitOf, step, exec, hm]
  | some m =>
    cases hc : compileFails m d with
    | true => simp [exitOf, step, exec, hm, hc]
    | false => cases hw : w.creatable out <;> simp [exitOf, step, exec, hm, hc, hw]

/-- two set-ups never produce the same system: the second one's id is fresh -/
theorem setup_fresh (w : World) (ms out ms' out' : String) (d b d' b' : Nat) (sys sys' : System)
    (h1 : exitOf w (.setup ms out d b) = 0)
    (hk1 : (worldOf w (.setup ms out d b)).readKeys out = some sys)
    (h2 : exitOf (worldOf w (.setup ms out d b)) (.setup ms' out' d' b') = 0)
    (hk2 : (worldOf (worldOf w (.setup ms out d b)) (.setup ms' out' d' b')).readKeys out' = some sys') :
    sys'.id ≠ sys.id := by
  obtain ⟨m, hm, hc, hw⟩ := (setup_exit_zero_iff w ms out d b).mp h1
  have e1 := step_setup_ok w ms out m d b hm hc hw
  unfold worldOf at hk1 hk2 h2
  rw [e1] at hk1 hk2 h2
  simp only at hk1 hk2 h2
  obtain ⟨m', hm', hc', hw'⟩ := (setup_exit_zero_iff _ ms' out' d' b').mp h2
  have e2 := step_setup_ok _ ms' out' m' d' b' hm' hc' hw'
  rw [e2] at hk2
  simp only at hk2
  rw [readKeys_write] at hk1 hk2
  cases hk1; cases hk2
  simp [World.write]

theorem convertToRaw_exit_zero_iff (w : World) (inp out : String) :
    exitOf w (.convertToRaw inp out) = 0 ↔
      (∃ sys, w.readKeys inp = some sys) ∧ w.creatable out = true := by
  cases hk : w.readKeys inp with
  | none => simp [exitOf, step, exec, hk]
  | some sys => cases hw : w.creatable out <;> simp [exitOf, step, exec, hk, hw]

theorem extractCircuit_exit_zero_iff (w : World) (out : String) (d b : Nat) :
    exitOf w (.extractCircuit out d b) = 0 ↔ d ≤ 31 ∧ w.creatable out = true := by
  by_cases hd : 31 < d
  · have : ¬ d ≤ 31 := by omega
    simp [exitOf, step, exec, compileFails, hd, this]
  · have : d ≤ 31 := by omega
    cases hw : w.creatable out <;> simp [exitOf, step, exec, compileFails, hd, hw, this]

/-! ## Non-vacuity -/

namespace Example
open C07.Example

def w0 : World := {}

/-- world after `setup --mode insertion --output k --tree-depth 1 --batch-size 1` -/
def w1 : World := worldOf w0 (.setup "insertion" "k" 1 1)

example : exitOf w0 (.setup "insertion" "k" 1 1) = 0 := by decide
example : w1.readKeys "k" = some { id := 0, mode := .insertion, depth := 1, batch := 1 } := by decide
example : exitOf w0 (.setup "" "k" 1 1) = 1 := by decide
example : exitOf w0 (.setup "Insertion" "k" 1 1) = 1 := by decide
example : exitOf w0 (.setup "deletion" "k" 32 1) = 1 := by decide
example : exitOf w0 (.setup "deletion" "k" 31 1) = 0 := by decide
example : exitOf w0 (.extractCircuit "c.lean" 32 1) = 1 := by decide
example : exitOf { unwritable := ["k"] } (.setup "insertion" "k" 1 1) = 1 := by decide

/-- missing / ill-formed keys, malformed stdin, wrong dimensions -/
example : exitOf w1 (.prove "insertion" "nokeys" "{}") = 1 := by decide
example : exitOf (w1.write "k" .garbage) (.prove "insertion" "k" "{}") = 1 := by decide
example : exitOf w1 (.prove "insertion" "k" "{") = 1 := by decide +kernel
example : exitOf w1 (.prove "insertion" "k"
      "{\"inputHash\":\"0x1\",\"preRoot\":\"0x0\",\"postRoot\":\"0x0\"}") = 1 ∧
    stdoutOf w1 (.prove "insertion" "k"
      "{\"inputHash\":\"0x1\",\"preRoot\":\"0x0\",\"postRoot\":\"0x0\"}") = "" := by
  decide +kernel

/-- `verify`: a proof token of this system for public input 5 -/
example : exitOf w1 (.verify "insertion" "k" "5" "0x0,0x5\n") = 0 := by decide +kernel
example : exitOf w1 (.verify "deletion" "k" "0x5" "0x0,0x5") = 0 := by decide +kernel
example : exitOf w1 (.verify "insertion" "k" "6" "0x0,0x5\n") = 1 := by decide +kernel
example : exitOf w1 (.verify "insertion" "k" "5" "0x1,0x5\n") = 1 := by decide +kernel
example : exitOf w1 (.verify "insertion" "k" "five" "0x0,0x5\n") = 1 := by decide +kernel
example : exitOf w1 (.verify "insertion" "k" "5" "{}") = 1 := by decide +kernel
example : exitOf w1 (.verify "" "k" "5" "0x0,0x5\n") = 1 := by decide +kernel
/-- `5 + r` is the same public input -/
example : exitOf w1 (.verify "insertion" "k"
    "21888242871839275222246405745257275088548364400416034343698204186575808495622" "0x0,0x5\n") = 0 := by
  decide +kernel

/-- the hypothesis `hgen` of `pipeline_composes` is satisfiable: at depth 1, batch 1 the
generated insertion parameters are the valid batch of `C07.Example` -/
theorem gen_1_1 : genInsertion 1 1 = good := by
  simp only [genInsertion]
  rw [Smtb.Proofs.Keccak.keccak256_eq_W]
  decide +kernel

theorem hgen_1_1 : (genParams .insertion 1 1).accepted 1 = true := by
  show acceptsInsertion 1 (genInsertion 1 1) = true
  rw [gen_1_1]
  obtain ⟨h1, h2, h3, h4, h5⟩ := red_good
  unfold acceptsInsertion redRows
  rw [h1, h2, h3, h4, h5]
  exact good_accepted

/-- … so the four commands compose at (insertion, 1, 1), from the empty world -/
theorem pipeline_1_1 :
    let s1 := step {} (.setup (modeString .insertion) "k" 1 1)
    let s2 := step s1.1 (.genTestParams (modeString .insertion) 1 1)
    let s3 := step s2.1 (.prove (modeString .insertion) "k" s2.2.2)
    let s4 := step s3.1 (.verify (modeString .insertion) "k"
      (toHexInt (genParams .insertion 1 1).inputHash) s3.2.2)
    s1.2.1 = 0 ∧ s2.2.1 = 0 ∧ s3.2.1 = 0 ∧ s4.2.1 = 0 :=
  have h := pipeline_composes .insertion 1 1 {} "k" (by decide) (by decide) hgen_1_1
  ⟨h.1, h.2.1, h.2.2.1, h.2.2.2.1⟩

end Example

end Smtb.Properties.C19

#print axioms Smtb.Properties.C19.exit_le_one
#print axioms Smtb.Properties.C19.error_world
#print axioms Smtb.Properties.C19.verify_exit_truth
#print axioms Smtb.Properties.C19.verify_exit_zero_iff
#print axioms Smtb.Properties.C19.verify_mode_irrelevant
#print axioms Smtb.Properties.C19.bad_mode_nonzero
#print axioms Smtb.Properties.C19.unreadable_keys_nonzero
#print axioms Smtb.Properties.C19.prove_exit_zero_iff
#print axioms Smtb.Properties.C19.unprovable_nonzero
#print axioms Smtb.Properties.C19.prove_stdout_is_one_proof
#print axioms Smtb.Properties.C19.pipeline_composes
#print axioms Smtb.Properties.C19.pipeline_rejects
#print axioms Smtb.Properties.C19.setup_exit_zero_iff
#print axioms Smtb.Properties.C19.setup_fresh
#print axioms Smtb.Properties.C19.convertToRaw_exit_zero_iff
#print axioms Smtb.Properties.C19.extractCircuit_exit_zero_iff
#print axioms Smtb.Properties.C19.Example.hgen_1_1
#print axioms Smtb.Properties.C19.Example.pipeline_1_1
