import Smtb.Proofs.Merkle
import Mathlib.Tactic.NormNum.Prime
/-!
# C02 — the deletion gadgets accept exactly valid deletions; padding slots are no-ops

For every prime `p`, every depth `d` with `2^(d+1) ≤ p`, every batch, every input, every choice
of hint wires (bit decompositions and the `IsZero` inverse).
-/
namespace Smtb.C02
open Smtb Smtb.Sat Smtb.Circuit Smtb.Merkle Smtb.Batch

variable {p : ℕ} [Fact p.Prime]
variable (hash2 : ZMod p → ZMod p → SatM p (ZMod p)) (H : ZMod p → ZMod p → ZMod p)
variable (hH : ∀ a b k, hash2 a b k ↔ k (H a b))
include hH

/-- **C02 (one slot).** -/
theorem deletionRound_sat_iff (d : ℕ) (hd : 2 ^ (d + 1) ≤ p) (root idx item : ZMod p)
    (proof : List (ZMod p)) (k : ZMod p → Prop) :
    (deletionRound hash2 d root idx item proof) k ↔
      (idx.val < 2 ^ d ∧ recover H item proof (bitsLE d idx.val) = root ∧
          k (recover H 0 proof (bitsLE d idx.val)))
      ∨ (2 ^ d ≤ idx.val ∧ idx.val < 2 ^ (d + 1) ∧ k root) :=
  deletionRound_iff hash2 H hH d hd root idx item proof k

/-- **C02 (batch).** Satisfiable with final root `post` iff the slots, processed in order from
`pre`, end at `post`. -/
theorem deletionProof_sat_iff (d : ℕ) (hd : 2 ^ (d + 1) ≤ p) (idxs : List (ZMod p)) (pre post : ZMod p)
    (ids : List (ZMod p)) (proofs : List (List (ZMod p))) :
    (deletionProof hash2 d idxs pre ids proofs) (· = post) ↔
      deletionSpec H 0 ZMod.val d pre idxs ids proofs = some post := by
  rw [deletionProof_iff hash2 H hH d hd]
  constructor
  · rintro ⟨r, hr, rfl⟩; exact hr
  · intro h; exact ⟨post, h, rfl⟩

/-- a padding slot leaves the root unchanged whatever its item and proof contain -/
theorem deletion_padding_noop (d : ℕ) (hd : 2 ^ (d + 1) ≤ p) (root idx item : ZMod p)
    (proof : List (ZMod p)) (h1 : 2 ^ d ≤ idx.val) (h2 : idx.val < 2 ^ (d + 1)) :
    (deletionRound hash2 d root idx item proof) (· = root) := by
  rw [deletionRound_iff hash2 H hH d hd]; exact Or.inr ⟨h1, h2, rfl⟩

/-- …and can produce nothing but the unchanged root -/
theorem deletion_padding_only_root (d : ℕ) (hd : 2 ^ (d + 1) ≤ p) (root idx item r : ZMod p)
    (proof : List (ZMod p)) (h1 : 2 ^ d ≤ idx.val)
    (h : (deletionRound hash2 d root idx item proof) (· = r)) : r = root := by
  rw [deletionRound_iff hash2 H hH d hd] at h
  rcases h with ⟨h, -, -⟩ | ⟨-, -, h⟩
  · omega
  · exact h.symm

/-- an index `≥ 2^(d+1)` makes the batch unprovable -/
theorem deletion_index_too_large_unsat (d : ℕ) (hd : 2 ^ (d + 1) ≤ p) (root idx item : ZMod p)
    (proof : List (ZMod p)) (k : ZMod p → Prop) (h : 2 ^ (d + 1) ≤ idx.val) :
    ¬ (deletionRound hash2 d root idx item proof) k := by
  rw [deletionRound_iff hash2 H hH d hd]
  have : 2 ^ d ≤ 2 ^ (d + 1) := Nat.pow_le_pow_right (by norm_num) (Nat.le_succ d)
  omega

/-- a real slot must present the leaf's current value: a path that does not reproduce the running
root is rejected -/
theorem deletion_wrong_item_unsat (d : ℕ) (hd : 2 ^ (d + 1) ≤ p) (root idx item : ZMod p)
    (proof : List (ZMod p)) (k : ZMod p → Prop) (h1 : idx.val < 2 ^ d)
    (h : recover H item proof (bitsLE d idx.val) ≠ root) :
    ¬ (deletionRound hash2 d root idx item proof) k := by
  rw [deletionRound_iff hash2 H hH d hd]
  rintro (⟨-, h', -⟩ | ⟨h', -, -⟩)
  · exact h h'
  · omega

end Smtb.C02

namespace Smtb.C02.Example
open Smtb Smtb.Batch

instance : Fact (Nat.Prime 101) := ⟨by norm_num⟩
def H (a b : ZMod 101) : ZMod 101 := 3 * a + 5 * b + 7

/-- depth 2, tree with leaves [9, 4, 0, 0]: delete leaf 1, then a padding slot (index 4) with
garbage contents, then delete leaf 1 again — which must now present the value 0 -/
example : deletionSpec H 0 ZMod.val 2 (H (H 9 4) 7) [1, 4, 1] [4, 55, 0] [[9, 7], [1, 2], [9, 7]]
    = some (H (H 9 0) 7) := by decide

/-- presenting the stale value 4 for the second deletion of leaf 1 is rejected -/
example : deletionSpec H 0 ZMod.val 2 (H (H 9 4) 7) [1, 1] [4, 4] [[9, 7], [9, 7]] = none := by decide

end Smtb.C02.Example

#print axioms Smtb.C02.deletionRound_sat_iff
#print axioms Smtb.C02.deletionProof_sat_iff
#print axioms Smtb.C02.deletion_padding_noop
#print axioms Smtb.C02.deletion_padding_only_root
#print axioms Smtb.C02.deletion_index_too_large_unsat
#print axioms Smtb.C02.deletion_wrong_item_unsat
