import Smtb.Proofs.TraceSound2
/-!
# Trace soundness of the hash gadgets, fully expanded

`Smtb/Properties/TraceSound.lean` states, per gadget, that the Sat semantics of the polymorphic
program equals the first-order semantics (`Smtb.TraceSem.denote`) of its own recorded trace, with
the two hash gadgets kept opaque (`call1` / `callN` lines).  The statements below close the gap for
the hash gadgets themselves: run with NO opaque names (`traceOf []`), `Poseidon.poseidon1`,
`Poseidon.poseidon2` and `Keccak.keccakGadget` record one line per gate of their bodies (only
`add` / `mul` lines for Poseidon, the round constants and MDS entries appearing as `c:<n>`
operands; only `xor` / `and` / `sub` lines for Keccak, Go integer literals appearing as `c:0` /
`c:1`), and their Sat semantics is exactly the `denote` of that list of lines.

`tracePoseidon1`, `tracePoseidon2`, `traceKeccak dom n` (`Smtb/Circuit/TraceHarness2.lean`) are the
programs `driver trace Poseidon1 | Poseidon2 | Keccak dom n` runs.  The functions `H`, `K` that
interpret opaque calls are arbitrary: no call line occurs.  No assumption on `p`.
-/
namespace Smtb.Properties.TraceSound2
open Smtb Smtb.Circuit Smtb.TraceSem Smtb.TraceHarness Smtb.TraceSound

variable {p : ℕ}
variable (H : ZMod p → ZMod p → ZMod p) (K : List ℕ → List (ZMod p) → List (ZMod p))

/-- **Poseidon1** (width 2: `permute cfg2 [0, a]`, first state element), gate by gate. -/
theorem poseidon1_trace_iff (a : ZMod p) (kont : ZMod p → Prop) :
    (Poseidon.poseidon1 a : SatM p _) kont ↔
      ∃ env : Env p, InputsAre env [a] ∧ denote p H K env (traceOf [] tracePoseidon1) ∧
        kont (evalTV env (resultOf [] tracePoseidon1)) :=
  Smtb.TraceSound.poseidon1_trace_iff' H K (by simp) a kont

/-- **Poseidon2** (width 3: `permute cfg3 [0, a, b]`, first state element), gate by gate. -/
theorem poseidon2_trace_iff (a b : ZMod p) (kont : ZMod p → Prop) :
    (Poseidon.poseidon2 a b : SatM p _) kont ↔
      ∃ env : Env p, InputsAre env [a, b] ∧ denote p H K env (traceOf [] tracePoseidon2) ∧
        kont (evalTV env (resultOf [] tracePoseidon2)) :=
  Smtb.TraceSound.poseidon2_trace_iff' H K (by simp) a b kont

/-- **KeccakGadget** (`OutputSize = 256`, `Rounds = 24`, `BlockSize = 1088`) with domain byte
`dom` on `n` input wires `data`, gate by gate: padding, every absorbed block, every round of
Keccak-f, squeeze.  The result is a list of 256 operands.  No booleanity assumption on `data`: the
`xor` / `and` lines carry the same booleanity side conditions as the Sat gates
(`Smtb.TraceSem.denoteLine_xor`, `denoteLine_and`), the `sub` lines carry none, on both sides. -/
theorem keccakGadget_trace_iff (dom n : ℕ) (data : List (ZMod p)) (hl : data.length = n)
    (kont : List (ZMod p) → Prop) :
    (Keccak.keccakGadget dom data : SatM p _) kont ↔
      ∃ env : Env p, InputsAre env data ∧ denote p H K env (traceOf [] (traceKeccak dom n)) ∧
        kont ((resultOf [] (traceKeccak dom n)).map (evalTV env)) :=
  Smtb.TraceSound.keccakGadget_trace_iff' H K (by simp) dom n data hl kont

/-- `NewKeccak256` is the gadget with domain byte `0x01` -/
theorem newKeccak256_trace_iff (n : ℕ) (data : List (ZMod p)) (hl : data.length = n)
    (kont : List (ZMod p) → Prop) :
    (Keccak.newKeccak256 data : SatM p _) kont ↔
      ∃ env : Env p, InputsAre env data ∧ denote p H K env (traceOf [] (traceKeccak 1 n)) ∧
        kont ((resultOf [] (traceKeccak 1 n)).map (evalTV env)) :=
  keccakGadget_trace_iff H K 1 n data hl kont

/-! ## axioms -/

#print axioms poseidon1_trace_iff
#print axioms poseidon2_trace_iff
#print axioms keccakGadget_trace_iff
#print axioms newKeccak256_trace_iff

end Smtb.Properties.TraceSound2
