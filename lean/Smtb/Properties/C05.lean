import Smtb.Proofs.Poseidon
/-!
# C05 — the in-circuit Poseidon gadgets compute the reference Poseidon hash

Subject: `Poseidon1`, `Poseidon2` of `/repo/prover/poseidon/poseidon.go`, as the polymorphic
programs `Smtb.Circuit.Poseidon.poseidon1/2` run under the satisfiability interpretation
`SatM p` over `ZMod p`.  Reference: `Smtb.Poseidon.hash1/2` (`ℕ` arithmetic modulo `p`).

The statements hold for every modulus `p ≠ 0` and every field element; no primality is needed
(the gadgets use only `Add` and `Mul`).  All lemmas live in `Smtb.Proofs.Poseidon`.
-/
namespace Smtb.C05
open Smtb
open Smtb.Circuit.Poseidon (cfg2 cfg3)

variable {p : ℕ} [NeZero p]

/-- `Poseidon2`: the constraint system with continuation `k` is satisfiable iff `k` holds of the
reference hash of the two inputs. -/
theorem poseidon2_sat (a b : ZMod p) (k : ZMod p → Prop) :
    (Circuit.Poseidon.poseidon2 a b : SatM p _) k ↔
      k ((Poseidon.hash2 p a.val b.val : ℕ) : ZMod p) := by
  rw [Proofs.Poseidon.poseidon2_sat_Z, Proofs.Poseidon.hash2_cast]

/-- `Poseidon1`: same, one input. -/
theorem poseidon1_sat (a : ZMod p) (k : ZMod p → Prop) :
    (Circuit.Poseidon.poseidon1 a : SatM p _) k ↔
      k ((Poseidon.hash1 p a.val : ℕ) : ZMod p) := by
  rw [Proofs.Poseidon.poseidon1_sat_Z, Proofs.Poseidon.hash1_cast]

/-- Uniqueness (dishonest-prover clause): the gadget has no prover-chosen wires, so the circuit
is satisfiable with output `o` iff `o` is the reference hash. -/
theorem poseidon2_unique (a b o : ZMod p) :
    (Circuit.Poseidon.poseidon2 a b : SatM p _) (· = o) ↔
      ((Poseidon.hash2 p a.val b.val : ℕ) : ZMod p) = o :=
  poseidon2_sat a b _

theorem poseidon1_unique (a o : ZMod p) :
    (Circuit.Poseidon.poseidon1 a : SatM p _) (· = o) ↔
      ((Poseidon.hash1 p a.val : ℕ) : ZMod p) = o :=
  poseidon1_sat a _

/-- Shape of the parameter tables used by the circuit: round numbers, one row of `t` constants
per round, `t × t` MDS matrix, every entry a canonical BN254 scalar. -/
theorem poseidon_params :
    cfg3.RF = 8 ∧ cfg3.RP = 57 ∧ cfg2.RF = 8 ∧ cfg2.RP = 56 ∧
    cfg3.constants.length = 65 ∧ cfg2.constants.length = 64 ∧
    (∀ row ∈ cfg3.constants, row.length = 3) ∧ (∀ row ∈ cfg2.constants, row.length = 2) ∧
    cfg3.mds.length = 3 ∧ cfg2.mds.length = 2 ∧
    (∀ row ∈ cfg3.mds, row.length = 3) ∧ (∀ row ∈ cfg2.mds, row.length = 2) ∧
    cfg3.constants.length = cfg3.RF + cfg3.RP ∧ cfg2.constants.length = cfg2.RF + cfg2.RP ∧
    (∀ row ∈ cfg3.constants, ∀ c ∈ row, c < Poseidon.bn254r) ∧
    (∀ row ∈ cfg2.constants, ∀ c ∈ row, c < Poseidon.bn254r) ∧
    (∀ row ∈ cfg3.mds, ∀ c ∈ row, c < Poseidon.bn254r) ∧
    (∀ row ∈ cfg2.mds, ∀ c ∈ row, c < Poseidon.bn254r) := by
  decide +kernel

/-- the reference's parameter records are the circuit's configurations -/
theorem poseidon_params_agree :
    Poseidon.params3.RF = cfg3.RF ∧ Poseidon.params3.RP = cfg3.RP ∧
    Poseidon.params3.ark = cfg3.constants ∧ Poseidon.params3.mds = cfg3.mds ∧
    Poseidon.params3.t = 3 ∧
    Poseidon.params2.RF = cfg2.RF ∧ Poseidon.params2.RP = cfg2.RP ∧
    Poseidon.params2.ark = cfg2.constants ∧ Poseidon.params2.mds = cfg2.mds ∧
    Poseidon.params2.t = 2 :=
  ⟨rfl, rfl, rfl, rfl, rfl, rfl, rfl, rfl, rfl, rfl⟩

/-- TESTS (not the universal claim): the reference reproduces the published circomlib / iden3
test vectors `poseidon([1,2])` and `poseidon([1])` over the BN254 scalar field. -/
theorem poseidon_vectors :
    Poseidon.hash2 Poseidon.bn254r 1 2 =
      0x115cc0f5e7d690413df64c6b9662e9cf2a3617f2743245519e19607a4417189a ∧
    Poseidon.hash1 Poseidon.bn254r 1 =
      0x29176100eaa962bdc1fe6c654d6a3c130e96a4d1168b33848b897dc502820133 := by
  decide +kernel

/-! ## Non-vacuity

(The proofs go through `rw` so that the elaborator never has to normalise the circuit itself.) -/

/-- for every modulus and every input the constraint system is satisfiable, by exactly one output -/
theorem poseidon2_satisfiable (a b : ZMod p) :
    ∃! o : ZMod p, (Circuit.Poseidon.poseidon2 a b : SatM p _) (· = o) := by
  refine ⟨((Poseidon.hash2 p a.val b.val : ℕ) : ZMod p), ?_, ?_⟩
  · show (Circuit.Poseidon.poseidon2 a b : SatM p _) (· = ((Poseidon.hash2 p a.val b.val : ℕ) : ZMod p))
    rw [poseidon2_unique]
  · intro o
    show (Circuit.Poseidon.poseidon2 a b : SatM p _) (· = o) → _
    rw [poseidon2_unique]
    exact Eq.symm

/-- over `ZMod 101`, `Poseidon2 3 5` is satisfiable, with output `66` -/
example : (Circuit.Poseidon.poseidon2 (3 : ZMod 101) 5 : SatM 101 _) (· = 66) := by
  rw [poseidon2_sat]
  decide +kernel

/-- … and with no other output, e.g. not `67` -/
example : ¬ (Circuit.Poseidon.poseidon2 (3 : ZMod 101) 5 : SatM 101 _) (· = 67) := by
  rw [poseidon2_unique]
  decide +kernel

example : (Circuit.Poseidon.poseidon1 (7 : ZMod 101) : SatM 101 _) (· = 15) := by
  rw [poseidon1_sat]
  decide +kernel

/-- the circuit, on the published vector's inputs over BN254, is satisfiable with the published
output -/
example : (Circuit.Poseidon.poseidon2 (1 : ZMod Poseidon.bn254r) 2 : SatM Poseidon.bn254r _)
    (· = ((0x115cc0f5e7d690413df64c6b9662e9cf2a3617f2743245519e19607a4417189a : ℕ) :
      ZMod Poseidon.bn254r)) := by
  have : NeZero Poseidon.bn254r := ⟨by decide⟩
  rw [poseidon2_sat]
  have h1 : (1 : ZMod Poseidon.bn254r).val = 1 := by decide +kernel
  have h2 : (2 : ZMod Poseidon.bn254r).val = 2 := by decide +kernel
  rw [h1, h2, poseidon_vectors.1]

#print axioms poseidon2_sat
#print axioms poseidon1_sat
#print axioms poseidon2_unique
#print axioms poseidon1_unique
#print axioms poseidon_params
#print axioms poseidon_params_agree
#print axioms poseidon_vectors
#print axioms poseidon2_satisfiable

end Smtb.C05
