import Smtb.Model.Http
import Smtb.Properties.C09
/-!
# C13 — concurrent prove requests are isolated from one another

Subject: `server/server.go:111-168` under `net/http`'s goroutine-per-connection execution,
`prover/{insertion,deletion}_proving_system.go`, `logging/logger.go`.
Model: the interleaving semantics at the end of `Smtb/Model/Http.lean`: any number of in-flight
requests, each with its own program counter over the handler's atomic steps (method check,
`readBody`, `decode`, `validate`, `assign`, `prove`, `marshal`, `write`) and its own local
variables; a scheduler (an arbitrary list of request indices: any interleaving, any length,
indices of non-existent requests and of finished requests allowed) picks who moves next.

## What the theorem rests on (facts about the Go code, checked by a separate obligation)

The model gives every step access to exactly two things: the thread's own record and the shared
`System`, and no step produces a new `System` (`sys_readonly`).  That this is an adequate model of
the Go code is **not** proved here; it is the conjunction of the following source-level facts,
which are re-established from the current tree by the regenerated-facts obligation:

1. **No package-level mutable state on the request path.**  `server`, `prover` (and the `keccak`,
   `poseidon` gadget packages, which run at *compile* time of the circuit only) declare no
   package-level variable that `ServeHTTP`, `ProveInsertion`, `ProveDeletion`, `ValidateShape`,
   `UnmarshalJSON`, `MarshalJSON`, `fromHex`, `toHex` write to.  The only package-level `var` in
   reach is `logging.log`: the request path only *reads* it (`logging.Logger()`); its single
   writer `logging.SetJSONOutput` is called in `main.go` before `server.Run`, i.e. before the
   first request can exist.
2. **`handler.provingSystem` (and `handler.mode`) are only read.**  `proveHandler` is passed by
   value to `Handle`; `ServeHTTP` has a value receiver; the `*ProvingSystem` it points to is
   handed to `groth16.Prove` as `ps.ConstraintSystem` / `ps.ProvingKey`, which gnark treats as
   read-only inputs (the solver allocates its own state per call).
3. **Everything else is allocated per call**: `buf`, `params`, `proof`, `idComms`, `proofs`,
   `assignment`, `witness`, `responseBytes` are locals of `ServeHTTP` / `Prove…`; `http.Request`
   and `http.ResponseWriter` belong to one connection.

Absence of *data races* in the Go memory-model sense is the dynamic counterpart (race detector
on the server path) and is outside this file.

## Statement

`concurrent_eq_sequential`: for every system, every finite list of requests and **every**
schedule, every response that is emitted goes to the request it belongs to and equals
`respond sys method body` of that request alone — the answer of the sequential server of C09 —,
no request is answered twice, and if the schedule gives every request at least `maxSteps = 8`
turns, every request has been answered exactly once.  Nothing is `_partial`.
-/
namespace Smtb.Properties.C13
open Smtb.Codec Smtb.Prover Smtb.Http

/-! ## single threads -/

/-- the response a thread emits within its next `n` own steps, if any -/
def emit (sys : System) : Thread → Nat → Option Resp
  | _, 0 => none
  | t, n + 1 =>
    match (t.step sys).2 with
    | some resp => some resp
    | none => emit sys (t.step sys).1 n

/-- what `prove` does, split at the `ValidateShape` / assembly boundary used by the step
semantics -/
theorem prove_split (sys : System) (ps : Params) :
    (ps.shapeOk sys.depth sys.batch = false → ∃ e, prove sys ps = .error e) ∧
    (ps.shapeOk sys.depth sys.batch = true →
      ∃ w, assemble sys.depth sys.batch ps = some w ∧ prove sys ps = idealProve sys w) := by
  cases ps with
  | insertion p =>
    constructor
    · intro h
      have h' : validateShapeInsertion sys.depth sys.batch p = false := h
      show ∃ e, proveInsertion sys p = _
      unfold proveInsertion
      cases he : shapeErrInsertion sys.depth sys.batch p with
      | some e => exact ⟨_, rfl⟩
      | none => simp [validateShapeInsertion, he] at h'
    · intro h
      have h' : validateShapeInsertion sys.depth sys.batch p = true := h
      refine ⟨_, assembleInsertion_eq _ _ p h', ?_⟩
      show proveInsertion sys p = _
      unfold proveInsertion
      rw [(shapeErrInsertion_none_iff _ _ p).mpr h']
      simp only [assembleInsertion_eq _ _ p h']
  | deletion p =>
    constructor
    · intro h
      have h' : validateShapeDeletion sys.depth sys.batch p = false := h
      show ∃ e, proveDeletion sys p = _
      unfold proveDeletion
      cases he : shapeErrDeletion sys.depth sys.batch p with
      | some e => exact ⟨_, rfl⟩
      | none => simp [validateShapeDeletion, he] at h'
    · intro h
      have h' : validateShapeDeletion sys.depth sys.batch p = true := h
      refine ⟨_, assembleDeletion_eq _ _ p h', ?_⟩
      show proveDeletion sys p = _
      unfold proveDeletion
      rw [(shapeErrDeletion_none_iff _ _ p).mpr h']
      simp only [assembleDeletion_eq _ _ p h']

/-- the answer computed from decoded parameters -/
def answer (sys : System) (ps : Params) : Resp :=
  match prove sys ps with
  | .error _ => .provingError
  | .ok t => .ok t

theorem emit_write (sys : System) (rq : Request) (loc : Local) (resp : Resp) (n : Nat)
    (h : loc.pending = some resp) :
    emit sys { req := rq, pc := .write, loc := loc } (n + 1) = some resp := by
  simp [emit, Thread.step, h]

theorem emit_marshal (sys : System) (rq : Request) (loc : Local) (tok : Token) (n : Nat)
    (h : loc.proof = some tok) :
    emit sys { req := rq, pc := .marshal, loc := loc } (n + 2) = some (.ok tok) := by
  rw [emit]
  simp only [Thread.step, h]
  exact emit_write sys rq _ _ n rfl

theorem emit_prove (sys : System) (rq : Request) (loc : Local) (w : Witness) (n : Nat)
    (h : loc.witness = some w) :
    emit sys { req := rq, pc := .prove, loc := loc } (n + 3) =
      some (match idealProve sys w with
            | .error _ => .provingError
            | .ok tok => .ok tok) := by
  rw [emit]
  simp only [Thread.step, h]
  cases idealProve sys w with
  | error e => exact emit_write sys rq _ _ (n + 1) rfl
  | ok tok => exact emit_marshal sys rq _ tok n rfl

theorem emit_validate (sys : System) (rq : Request) (loc : Local) (ps : Params) (n : Nat)
    (h : loc.params = some ps) :
    emit sys { req := rq, pc := .validate, loc := loc } (n + 5) = some (answer sys ps) := by
  obtain ⟨hbad, hgood⟩ := prove_split sys ps
  rw [emit]
  simp only [Thread.step, h]
  cases hs : ps.shapeOk sys.depth sys.batch with
  | false =>
    obtain ⟨e, he⟩ := hbad hs
    simp only [Bool.false_eq_true, if_false, answer, he]
    exact emit_write sys rq _ _ (n + 3) rfl
  | true =>
    obtain ⟨w, hw, hp⟩ := hgood hs
    simp only [if_true, answer, hp]
    rw [emit]
    simp only [Thread.step, h, hw]
    exact emit_prove sys rq _ w n rfl

theorem emit_decode (sys : System) (rq : Request) (loc : Local) (body : String) (n : Nat)
    (h : loc.buf = some body) :
    emit sys { req := rq, pc := .decode, loc := loc } (n + 6) =
      some (respondCfg sys.mode sys "POST" body) := by
  rw [emit]
  simp only [Thread.step, h]
  unfold respondCfg
  rw [if_neg (by simp)]
  cases decodeParams sys.mode body with
  | error e => exact emit_write sys rq _ _ (n + 4) rfl
  | ok ps => exact emit_validate sys rq _ ps n rfl

/-- **a fresh thread, run on its own, answers `respond` of its request** -/
theorem emit_init (sys : System) (rq : Request) (n : Nat) :
    emit sys (Thread.init rq) (n + 8) = some (respond sys rq.method rq.body) := by
  unfold Thread.init
  rw [emit]
  simp only [Thread.step]
  by_cases hm : rq.method = "POST"
  · have hne : ¬ rq.method ≠ "POST" := by simp [hm]
    simp only [if_neg hne]
    rw [emit]
    simp only [Thread.step]
    have := emit_decode sys rq { buf := some rq.body } rq.body n rfl
    rw [this]
    unfold respond
    rw [hm]
  · have hne : rq.method ≠ "POST" := hm
    simp only [if_pos hne]
    unfold respond respondCfg
    rw [if_pos hne]
    exact emit_write sys rq _ _ (n + 6) rfl

/-- a halted thread stays as it is and is silent -/
theorem step_halted (sys : System) (t : Thread) (h : t.pc = .done ∨ t.pc = .crashed) :
    t.step sys = (t, none) := by
  obtain ⟨rq, pc, loc⟩ := t
  rcases h with h | h <;> (simp only at h; subst h; rfl)

theorem emit_halted (sys : System) (t : Thread) (h : t.pc = .done ∨ t.pc = .crashed) (n : Nat) :
    emit sys t n = none := by
  induction n with
  | zero => rfl
  | succ n ih => rw [emit, step_halted sys t h]; exact ih

/-- the request of a thread never changes -/
theorem step_req (sys : System) (t : Thread) : (t.step sys).1.req = t.req := by
  obtain ⟨rq, pc, loc⟩ := t
  cases pc <;> simp only [Thread.step] <;> (repeat' split) <;> rfl

/-- a thread that writes its response is done afterwards -/
theorem step_emit_done (sys : System) (t : Thread) (resp : Resp) (h : (t.step sys).2 = some resp) :
    (t.step sys).1.pc = .done := by
  obtain ⟨rq, pc, loc⟩ := t
  cases pc <;> simp only [Thread.step] at h ⊢ <;> (repeat' split at h) <;> simp_all

/-- every step makes progress -/
theorem step_remaining (sys : System) (t : Thread) :
    (t.step sys).1.pc.remaining ≤ t.pc.remaining - 1 := by
  obtain ⟨rq, pc, loc⟩ := t
  cases pc <;> simp only [Thread.step] <;> (repeat' split) <;> simp [Pc.remaining]

/-- remaining = 0 means halted -/
theorem remaining_zero {pc : Pc} (h : pc.remaining = 0) : pc = .done ∨ pc = .crashed := by
  cases pc <;> simp [Pc.remaining] at h ⊢

/-! ## configurations -/

/-- no step writes the shared proving system -/
theorem sys_readonly (c : Config) (i : Nat) : (stepSched c i).sys = c.sys := by
  unfold stepSched
  split <;> rfl

theorem run_sys (c : Config) (sched : List Nat) : (run c sched).sys = c.sys := by
  induction sched generalizing c with
  | nil => rfl
  | cons i rest ih => simp only [run, List.foldl_cons] at ih ⊢; rw [ih, sys_readonly]

/-- the state of request `i` in a configuration reached from `reqs` after being scheduled `k`
times -/
structure ThreadOk (sys : System) (rq : Request) (k : Nat) (t : Thread) (received : List Resp) :
    Prop where
  req : t.req = rq
  progress : t.pc.remaining ≤ maxSteps - k
  state : (t.pc = .done ∧ received = [respond sys rq.method rq.body]) ∨
          (received = [] ∧ ∃ n, emit sys t n = some (respond sys rq.method rq.body))

/-- the invariant of `run` -/
structure Inv (sys : System) (reqs : List Request) (sched : List Nat) (c : Config) : Prop where
  sys_eq : c.sys = sys
  len : c.threads.length = reqs.length
  bound : ∀ e ∈ c.out, e.1 < reqs.length
  ok : ∀ i rq, reqs[i]? = some rq →
        ∃ t, c.threads[i]? = some t ∧ ThreadOk sys rq (sched.count i) t (c.received i)

theorem inv_init (sys : System) (reqs : List Request) : Inv sys reqs [] (Config.init sys reqs) := by
  refine ⟨rfl, by simp [Config.init], by simp [Config.init], ?_⟩
  intro i rq hi
  refine ⟨Thread.init rq, by simp [Config.init, hi], rfl, by simp [Thread.init, Pc.remaining, maxSteps], ?_⟩
  exact Or.inr ⟨by simp [Config.init, Config.received], 0 + 8, emit_init sys rq 0⟩

theorem stepSched_none (c : Config) (j : Nat) (h : c.threads[j]? = none) : stepSched c j = c := by
  unfold stepSched; rw [h]

theorem stepSched_threads (c : Config) (j : Nat) (tj : Thread) (h : c.threads[j]? = some tj) :
    (stepSched c j).threads = c.threads.set j (tj.step c.sys).1 := by
  unfold stepSched; rw [h]

theorem stepSched_out (c : Config) (j : Nat) (tj : Thread) (h : c.threads[j]? = some tj) :
    (stepSched c j).out = c.out ++ ((tj.step c.sys).2.toList.map fun resp => (j, resp)) := by
  unfold stepSched; rw [h]
  dsimp only
  cases (tj.step c.sys).2 <;> simp

theorem stepSched_received (c : Config) (j : Nat) (tj : Thread) (h : c.threads[j]? = some tj)
    (i : Nat) :
    (stepSched c j).received i =
      c.received i ++ (if i = j then (tj.step c.sys).2.toList else []) := by
  unfold Config.received
  rw [stepSched_out c j tj h, List.filter_append, List.map_append]
  congr 1
  by_cases hij : i = j
  · subst hij
    cases (tj.step c.sys).2 <;> simp
  · have : (j == i) = false := by simp [Ne.symm hij]
    cases (tj.step c.sys).2 <;> simp [hij, this]

theorem inv_step (sys : System) (reqs : List Request) (sched : List Nat) (c : Config)
    (h : Inv sys reqs sched c) (j : Nat) : Inv sys reqs (sched ++ [j]) (stepSched c j) := by
  obtain ⟨hsys, hlen, hbound, hok⟩ := h
  cases hj : c.threads[j]? with
  | none =>
    -- no such request: nothing happens
    rw [stepSched_none c j hj]
    refine ⟨hsys, hlen, hbound, ?_⟩
    intro i rq hi
    obtain ⟨t, ht, hT⟩ := hok i rq hi
    have hij : i ≠ j := by
      intro e; subst e; rw [hj] at ht; cases ht
    refine ⟨t, ht, hT.req, ?_, hT.state⟩
    have : (sched ++ [j]).count i = sched.count i := by
      simp [List.count_append, Ne.symm hij]
    rw [this]; exact hT.progress
  | some tj =>
    have hjlt : j < c.threads.length := by
      rcases Nat.lt_or_ge j c.threads.length with h | h
      · exact h
      · rw [List.getElem?_eq_none h] at hj; cases hj
    have hjreq : j < reqs.length := hlen ▸ hjlt
    refine ⟨by rw [sys_readonly]; exact hsys, by rw [stepSched_threads c j tj hj]; simp [hlen],
      ?_, ?_⟩
    · intro e he
      rw [stepSched_out c j tj hj, List.mem_append] at he
      rcases he with he | he
      · exact hbound e he
      · simp only [List.mem_map] at he
        obtain ⟨resp, _, rfl⟩ := he
        exact hjreq
    · intro i rq hi
      obtain ⟨t, ht, hT⟩ := hok i rq hi
      rw [stepSched_threads c j tj hj, stepSched_received c j tj hj i, hsys]
      by_cases hij : i = j
      · -- the scheduled request
        subst hij
        rw [hj] at ht; cases ht
        have hcount : (sched ++ [i]).count i = sched.count i + 1 := by
          simp [List.count_append]
        refine ⟨(tj.step sys).1, by simp [hjlt], ?_⟩
        rw [if_pos rfl]
        refine ⟨by rw [step_req]; exact hT.req, ?_, ?_⟩
        · have := step_remaining sys tj
          have := hT.progress
          rw [hcount]; omega
        · rcases hT.state with ⟨hd, hr⟩ | ⟨hr, n, hn⟩
          · rw [step_halted sys tj (Or.inl hd)]
            exact Or.inl ⟨hd, by simpa using hr⟩
          · cases n with
            | zero => simp [emit] at hn
            | succ n =>
              rw [emit] at hn
              cases hs : (tj.step sys).2 with
              | some resp =>
                rw [hs] at hn
                simp only [Option.some.injEq] at hn
                subst hn
                exact Or.inl ⟨step_emit_done sys tj _ hs, by simp [hr]⟩
              | none =>
                rw [hs] at hn
                exact Or.inr ⟨by simp [hr], n, hn⟩
      · -- another request: untouched
        have hcount : (sched ++ [j]).count i = sched.count i := by
          simp [List.count_append, Ne.symm hij]
        refine ⟨t, by simp [Ne.symm hij, ht], ?_⟩
        rw [if_neg hij, List.append_nil, hcount]
        exact hT

theorem inv_run (sys : System) (reqs : List Request) :
    ∀ (sched pre : List Nat) (c : Config), Inv sys reqs pre c →
      Inv sys reqs (pre ++ sched) (run c sched) := by
  intro sched
  induction sched with
  | nil => intro pre c h; simpa [run] using h
  | cons j rest ih =>
    intro pre c h
    have := ih (pre ++ [j]) (stepSched c j) (inv_step sys reqs pre c h j)
    simpa [run, List.append_assoc] using this

/-! ## the theorem -/

/-- **`concurrent_eq_sequential`.** For every proving system, every finite list of requests and
EVERY schedule:

1. every emitted response is tagged with an existing request and is `respond sys method body` of
   *that* request — hence equal to the answer of the sequential server of C09
   (`serve sys () reqs`) at the same position;
2. no request receives more than one response, and what it has received so far is either nothing
   or exactly its own answer;
3. if every request is scheduled at least `maxSteps` times (a fair / complete schedule), every
   request has received exactly one response: its own;
4. the shared proving system is unchanged. -/
theorem concurrent_eq_sequential (sys : System) (reqs : List Request) (sched : List Nat) :
    let c := run (Config.init sys reqs) sched
    (∀ i resp, (i, resp) ∈ c.out →
      ∃ rq, reqs[i]? = some rq ∧ resp = respond sys rq.method rq.body ∧
        (serve sys () reqs)[i]? = some resp) ∧
    (∀ i rq, reqs[i]? = some rq →
      c.received i = [] ∨ c.received i = [respond sys rq.method rq.body]) ∧
    ((∀ i, i < reqs.length → maxSteps ≤ sched.count i) →
      ∀ i rq, reqs[i]? = some rq → c.received i = [respond sys rq.method rq.body]) ∧
    c.sys = sys := by
  intro c
  have hinv : Inv sys reqs sched c := by
    have := inv_run sys reqs sched [] (Config.init sys reqs) (inv_init sys reqs)
    simpa using this
  have hrecv : ∀ i rq, reqs[i]? = some rq →
      c.received i = [] ∨ c.received i = [respond sys rq.method rq.body] := by
    intro i rq hi
    obtain ⟨t, _, hT⟩ := hinv.ok i rq hi
    rcases hT.state with ⟨_, hr⟩ | ⟨hr, _⟩
    · exact Or.inr hr
    · exact Or.inl hr
  refine ⟨?_, hrecv, ?_, hinv.sys_eq⟩
  · intro i resp hmem
    have hi : i < reqs.length := hinv.bound _ hmem
    have hget : reqs[i]? = some reqs[i] := List.getElem?_eq_getElem hi
    have hin : resp ∈ c.received i := by
      simp only [Config.received, List.mem_map, List.mem_filter]
      exact ⟨(i, resp), ⟨hmem, by simp⟩, rfl⟩
    refine ⟨reqs[i], hget, ?_⟩
    have : resp = respond sys reqs[i].method reqs[i].body := by
      rcases hrecv i reqs[i] hget with h | h
      · rw [h] at hin; cases hin
      · rw [h] at hin; simpa using hin
    exact ⟨this, by rw [this]; exact C09.respond_stateless sys reqs i reqs[i] hget⟩
  · intro hfair i rq hi
    have hlt : i < reqs.length := by
      rcases Nat.lt_or_ge i reqs.length with h | h
      · exact h
      · rw [List.getElem?_eq_none h] at hi; cases hi
    obtain ⟨t, _, hT⟩ := hinv.ok i rq hi
    rcases hT.state with ⟨_, hr⟩ | ⟨_, n, hn⟩
    · exact hr
    · have h0 : t.pc.remaining = 0 := by
        have := hT.progress
        have := hfair i hlt
        omega
      rw [emit_halted sys t (remaining_zero h0)] at hn
      cases hn

/-- Corollary in the words of the property: under a complete schedule every valid request has
received a proof that verifies for its own input hash under the shared system, and every other
request has received its own error. -/
theorem concurrent_valid_gets_own_proof (sys : System) (reqs : List Request) (sched : List Nat)
    (hfair : ∀ i, i < reqs.length → maxSteps ≤ sched.count i) (i : Nat) (rq : Request)
    (hi : reqs[i]? = some rq) :
    let c := run (Config.init sys reqs) sched
    (∀ t, respond sys rq.method rq.body = .ok t →
      c.received i = [.ok t] ∧
      ∃ ps, decodeParams sys.mode rq.body = .ok ps ∧ verify sys ps.inputHash t = true) ∧
    ((∀ t, respond sys rq.method rq.body ≠ .ok t) →
      c.received i = [respond sys rq.method rq.body] ∧
      (respond sys rq.method rq.body).status ≠ 200) := by
  intro c
  have h := (concurrent_eq_sequential sys reqs sched).2.2.1 hfair i rq hi
  constructor
  · intro t ht
    obtain ⟨ps, hd, _, hv, _⟩ := C09.respond_200_body_verifies sys rq.method rq.body t ht
    exact ⟨by rw [← ht]; exact h, ps, hd, hv⟩
  · intro hne
    refine ⟨h, ?_⟩
    intro hs
    obtain ⟨t, ht⟩ := (C09.respond_200_iff_valid_batch sys rq.method rq.body).2.mp hs
    exact hne t ht

/-! ## Non-vacuity: three requests, an unfair and a fair interleaving -/

namespace Example
open C07.Example C09.Example

def reqs : List Request :=
  [{ method := "POST", body := "{" }, { method := "GET", body := "" }, { method := "POST", body := "{}" }]

/-- a schedule that starves request 0 and interleaves 1 and 2 (plus a bogus index 7) -/
def unfair : List Nat := [2, 1, 7, 2, 1, 2, 1, 2, 2]

example : (run (Config.init sysI reqs) unfair).out = [(1, .methodNotAllowed), (2, .malformedBody)] := by
  decide +kernel

/-- round-robin, 8 rounds: everybody is answered, each with its own answer -/
def fair : List Nat := (List.range 8).flatMap fun _ => [0, 1, 2]

example : (run (Config.init sysI reqs) fair).out =
    [(1, .methodNotAllowed), (0, .malformedBody), (2, .malformedBody)] := by decide +kernel

example : ∀ i, i < reqs.length → maxSteps ≤ fair.count i := by decide

/-- a valid batch among malformed traffic: under every complete schedule request 1 receives
exactly the proof of `C09.Example.respond_good`, request 0 its own error -/
def reqs2 : List Request :=
  [{ method := "POST", body := "{" }, { method := "POST", body := goodBody }]

theorem valid_among_invalid (sched : List Nat)
    (hfair : ∀ i, i < reqs2.length → maxSteps ≤ sched.count i) :
    (run (Config.init sysI reqs2) sched).received 1 = [.ok { sysId := 7, pub := ih }] := by
  have h := (concurrent_eq_sequential sysI reqs2 sched).2.2.1 hfair 1
    { method := "POST", body := goodBody } rfl
  rw [h]
  exact congrArg (fun x => [x]) respond_good

end Example

end Smtb.Properties.C13

#print axioms Smtb.Properties.C13.emit_init
#print axioms Smtb.Properties.C13.sys_readonly
#print axioms Smtb.Properties.C13.run_sys
#print axioms Smtb.Properties.C13.inv_step
#print axioms Smtb.Properties.C13.concurrent_eq_sequential
#print axioms Smtb.Properties.C13.concurrent_valid_gets_own_proof
#print axioms Smtb.Properties.C13.Example.valid_among_invalid
