import Smtb.Proofs.TraceSound
import Smtb.Properties.C03
import Smtb.Proofs.Pack
/-!
# Trace soundness: the Sat semantics of a gadget is the first-order semantics of its own trace

Every gadget is ONE Lean program, polymorphic in `CircuitApi`.  `bin/check` compares the text of
its `TraceM` run with the trace of the Go code; the theorems of this development are about its
`SatM p` run.  That the two runs are "the same program" used to be parametricity (trusted).  The
theorems below replace it, per gadget, by a proved statement that mentions only

* the `SatM p` run of the gadget (left-hand side), and
* the recorded trace, a `List TLine` — first-order data that renders to exactly the compared text
  (`Smtb.TraceSound.out_eq_render`) — under the generic line-by-line semantics
  `Smtb.TraceSem.denote` (right-hand side).

`traceOf names prog` / `resultOf names prog` are the lines recorded / the operands returned by
the harness program `prog` (the program `driver trace …` runs: inputs allocated first as wires
`v0 …`, then the gadget, then the `ret` line) from the initial state with `opaqueNames := names`.
`InputsAre env xs` : wire `vi` carries `xs[i]`.

Trace side of the hash: the real `Poseidon.poseidon2` / `Keccak.newKeccak256`, run with their
names in `opaqueNames`, so that they record `call1` / `callN` lines (no stub).  Sat side of the
hash in the Merkle gadgets: any `hash2` that computes a function `H` (as in `Proofs/Merkle.lean`);
in the two circuits: the real gadgets, assumed (hypotheses `hH`, `hK`, `hKlen`; discharged for
BN254 at the end of this file from C05 / C04) to compute `H` resp. `K` on boolean whole-byte input.

No primality assumption is used anywhere except in the BN254 instantiation.
-/
namespace Smtb.Properties.TraceSound
open Smtb Smtb.Circuit Smtb.TraceSem Smtb.TraceHarness Smtb.TraceSound

variable {p : ℕ}

section merkle
variable (H : ZMod p → ZMod p → ZMod p) (K : List ℕ → List (ZMod p) → List (ZMod p))
variable (hash2 : ZMod p → ZMod p → SatM p (ZMod p)) (hH : ∀ a b k, hash2 a b k ↔ k (H a b))
include hH

/-- **ProofRound.** -/
theorem proofRound_trace_iff (d h s : ZMod p) (kont : ZMod p → Prop) :
    proofRound hash2 d h s kont ↔
      ∃ env : Env p, InputsAre env [d, h, s] ∧
        denote p H K env (traceOf ["Poseidon2"] traceProofRound) ∧
        kont (evalTV env (resultOf ["Poseidon2"] traceProofRound)) :=
  Smtb.TraceSound.proofRound_trace_iff K (by simp) hH d h s kont

/-- **VerifyProof** of depth `d`: inputs `leaf, siblings (d), path bits (d)`. -/
theorem verifyProof_trace_iff (d : ℕ) (leaf : ZMod p) (sibs path : List (ZMod p))
    (hs : sibs.length = d) (hp : path.length = d) (kont : ZMod p → Prop) :
    verifyProof hash2 leaf sibs path kont ↔
      ∃ env : Env p, InputsAre env ((leaf :: sibs) ++ path) ∧
        denote p H K env (traceOf ["Poseidon2"] (traceVerifyProof d)) ∧
        kont (evalTV env (resultOf ["Poseidon2"] (traceVerifyProof d))) :=
  Smtb.TraceSound.verifyProof_trace_iff K (by simp) hH d leaf sibs path hs hp kont

/-- **InsertionRound** of depth `d`: inputs `index, item, prevRoot, proof (d)`. -/
theorem insertionRound_trace_iff (d : ℕ) (idx item prev : ZMod p) (proof : List (ZMod p))
    (hl : proof.length = d) (kont : ZMod p → Prop) :
    insertionRound hash2 d idx item prev proof kont ↔
      ∃ env : Env p, InputsAre env (idx :: item :: prev :: proof) ∧
        denote p H K env (traceOf ["Poseidon2"] (traceInsertionRound d)) ∧
        kont (evalTV env (resultOf ["Poseidon2"] (traceInsertionRound d))) :=
  Smtb.TraceSound.insertionRound_trace_iff K (by simp) hH d idx item prev proof hl kont

/-- **InsertionProof**, depth `d`, batch size `b`: inputs `startIndex, preRoot, idComms (b),
merkleProofs (b·d, row-major; `chunks` is the harness's slicing into `b` proofs)`. -/
theorem insertionProof_trace_iff (d b : ℕ) (start pre : ZMod p) (ids prfs : List (ZMod p))
    (hids : ids.length = b) (hprfs : prfs.length = b * d) (kont : ZMod p → Prop) :
    insertionProof hash2 d start pre ids (chunks prfs d b) kont ↔
      ∃ env : Env p, InputsAre env (start :: pre :: (ids ++ prfs)) ∧
        denote p H K env (traceOf ["Poseidon2"] (traceInsertionProof d b)) ∧
        kont (evalTV env (resultOf ["Poseidon2"] (traceInsertionProof d b))) :=
  Smtb.TraceSound.insertionProof_trace_iff K (by simp) hH d b start pre ids prfs hids hprfs kont

/-- **DeletionRound** of depth `d`: inputs `root, index, item, proof (d)`.  The `IsZero` hint and
the `d+1` `ToBinary` hint wires are existentially quantified on both sides. -/
theorem deletionRound_trace_iff (d : ℕ) (root idx item : ZMod p) (proof : List (ZMod p))
    (hl : proof.length = d) (kont : ZMod p → Prop) :
    deletionRound hash2 d root idx item proof kont ↔
      ∃ env : Env p, InputsAre env (root :: idx :: item :: proof) ∧
        denote p H K env (traceOf ["Poseidon2"] (traceDeletionRound d)) ∧
        kont (evalTV env (resultOf ["Poseidon2"] (traceDeletionRound d))) :=
  Smtb.TraceSound.deletionRound_trace_iff K (by simp) hH d root idx item proof hl kont

/-- **DeletionProof**, depth `d`, batch size `b`: inputs `deletionIndices (b), preRoot,
idComms (b), merkleProofs (b·d)`. -/
theorem deletionProof_trace_iff (d b : ℕ) (idxs : List (ZMod p)) (pre : ZMod p)
    (ids prfs : List (ZMod p)) (hidxs : idxs.length = b) (hids : ids.length = b)
    (hprfs : prfs.length = b * d) (kont : ZMod p → Prop) :
    deletionProof hash2 d idxs pre ids (chunks prfs d b) kont ↔
      ∃ env : Env p, InputsAre env (idxs ++ pre :: (ids ++ prfs)) ∧
        denote p H K env (traceOf ["Poseidon2"] (traceDeletionProof d b)) ∧
        kont (evalTV env (resultOf ["Poseidon2"] (traceDeletionProof d b))) :=
  Smtb.TraceSound.deletionProof_trace_iff K (by simp) hH d b idxs pre ids prfs hidxs hids hprfs kont

end merkle

section bits
variable (H : ZMod p → ZMod p → ZMod p) (K : List ℕ → List (ZMod p) → List (ZMod p))

/-- **ReducedModRCheck** with modulus parameter `P` (any; the circuits pass the field's `p`) on
`n` input bits. -/
theorem reducedModRCheck_trace_iff (P n : ℕ) (inp : List (ZMod p)) (hl : inp.length = n)
    (kont : Unit → Prop) :
    (reducedModRCheck P inp : SatM p Unit) kont ↔
      ∃ env : Env p, InputsAre env inp ∧
        denote p H K env (traceOf ["Poseidon2"] (traceReducedModRCheck P n)) ∧ kont () :=
  Smtb.TraceSound.reducedModRCheck_trace_iff H K _ P n inp hl kont

/-- **ToReducedBigEndian** with modulus parameter `P`, width `n`. -/
theorem toReducedBigEndian_trace_iff (P n : ℕ) (v : ZMod p) (kont : List (ZMod p) → Prop) :
    (toReducedBigEndian P v n : SatM p _) kont ↔
      ∃ env : Env p, InputsAre env [v] ∧
        denote p H K env (traceOf ["Poseidon2"] (traceToReducedBigEndian P n)) ∧
        kont ((resultOf ["Poseidon2"] (traceToReducedBigEndian P n)).map (evalTV env)) :=
  Smtb.TraceSound.toReducedBigEndian_trace_iff H K _ P n v kont

/-- **FromBinaryBigEndian** on `n` input bits. -/
theorem fromBinaryBigEndian_trace_iff (n : ℕ) (inp : List (ZMod p)) (hl : inp.length = n)
    (kont : ZMod p → Prop) :
    (fromBinaryBigEndian inp : SatM p _) kont ↔
      ∃ env : Env p, InputsAre env inp ∧
        denote p H K env (traceOf ["Poseidon2"] (traceFromBinaryBigEndian n)) ∧
        kont (evalTV env (resultOf ["Poseidon2"] (traceFromBinaryBigEndian n))) :=
  Smtb.TraceSound.fromBinaryBigEndian_trace_iff H K _ n inp hl kont

end bits

section circuits
variable (H : ZMod p → ZMod p → ZMod p) (K : List ℕ → List (ZMod p) → List (ZMod p))
variable (hH : ∀ a b k, (Poseidon.poseidon2 a b : SatM p _) k ↔ k (H a b))
variable (hK : ∀ data : List (ZMod p), Good data → ∀ k,
  (Keccak.newKeccak256 data : SatM p _) k ↔ k (K [data.length, 256, 24, Keccak.blockSize, 1] data))
variable (hKlen : ∀ data : List (ZMod p), Good data →
  (K [data.length, 256, 24, Keccak.blockSize, 1] data).length = 256)
include hH hK hKlen

/-- **InsertionMbuCircuit.Define** (`P` the compile field passed to `ReducedModRCheck`, depth `d`,
batch size `b`) with `Poseidon2` and `KeccakGadget` opaque: inputs `inputHash, startIndex,
preRoot, postRoot, idComms (b), merkleProofs (b·d)`.  `Good data` = whole bytes of boolean
values, which is what the circuit feeds to Keccak (proved inside, from the `ToBinary` lines). -/
theorem insertionCircuit_trace_iff (P d b : ℕ) (ih start pre post : ZMod p)
    (ids prfs : List (ZMod p)) (hids : ids.length = b) (hprfs : prfs.length = b * d)
    (kont : Unit → Prop) :
    (insertionCircuit P d ih start pre post ids (chunks prfs d b) : SatM p Unit) kont ↔
      ∃ env : Env p, InputsAre env (ih :: start :: pre :: post :: (ids ++ prfs)) ∧
        denote p H K env (traceOf ["Poseidon2", "KeccakGadget"] (traceInsertion P d b)) ∧ kont () :=
  Smtb.TraceSound.insertionCircuit_trace_iff (by simp) (by simp) hH hK hKlen P d b ih start pre post
    ids prfs hids hprfs kont

/-- **DeletionMbuCircuit.Define**, depth `d ≤ 31` (otherwise the Go code emits nothing): inputs
`inputHash, deletionIndices (b), preRoot, postRoot, idComms (b), merkleProofs (b·d)`. -/
theorem deletionCircuit_trace_iff (P d b : ℕ) (hd : d ≤ 31) (ih : ZMod p) (idxs : List (ZMod p))
    (pre post : ZMod p) (ids prfs : List (ZMod p)) (hidxs : idxs.length = b)
    (hids : ids.length = b) (hprfs : prfs.length = b * d) (kont : Unit → Prop) :
    (deletionCircuit P d ih idxs pre post ids (chunks prfs d b) : SatM p Unit) kont ↔
      ∃ env : Env p, InputsAre env (ih :: (idxs ++ pre :: post :: (ids ++ prfs))) ∧
        denote p H K env (traceOf ["Poseidon2", "KeccakGadget"] (traceDeletion P d b)) ∧ kont () :=
  Smtb.TraceSound.deletionCircuit_trace_iff (by simp) (by simp) hH hK hKlen P d b hd ih idxs pre post
    ids prfs hidxs hids hprfs kont

end circuits

/-! ## BN254: the hash hypotheses discharged (C05 for Poseidon2, C04 for Keccak) -/

section bn254
open Smtb.Properties.C03 (r)

/-- the function the opaque `KeccakGadget` line denotes: reference Keccak-256 on the bits
(`x ↦ x = 1`), whatever the recorded parameters -/
def keccakK : List ℕ → List (ZMod r) → List (ZMod r) :=
  fun _ data => (KeccakRef.keccak256Bits (data.map fun x => decide (x = 1))).map Sat.embed

theorem unembed_embed (bs : List Bool) :
    (bs.map (Sat.embed (p := r))).map (fun x => decide (x = 1)) = bs := by
  induction bs with
  | nil => rfl
  | cons b bs ih =>
    rw [List.map_cons, List.map_cons, ih]
    cases b <;> simp

theorem keccakK_hK (data : List (ZMod r)) (hg : Good data) (k : List (ZMod r) → Prop) :
    (Keccak.newKeccak256 data : SatM r _) k ↔
      k (keccakK [data.length, 256, 24, Keccak.blockSize, 1] data) := by
  obtain ⟨bs, rfl⟩ := (Sat.all_isBool_iff data).mp hg.2
  unfold keccakK
  rw [unembed_embed]
  exact Smtb.Properties.C03.keccak_hK bs (by simpa using hg.1) k

theorem keccakK_len (data : List (ZMod r)) (_ : Good data) :
    (keccakK [data.length, 256, 24, Keccak.blockSize, 1] data).length = 256 := by
  unfold keccakK
  rw [List.length_map, Smtb.Pack.keccak256Bits_length]

/-- the insertion circuit over BN254, no hypotheses left -/
theorem insertionCircuit_trace_iff_bn254 (d b : ℕ) (ih start pre post : ZMod r)
    (ids prfs : List (ZMod r)) (hids : ids.length = b) (hprfs : prfs.length = b * d)
    (kont : Unit → Prop) :
    (insertionCircuit r d ih start pre post ids (chunks prfs d b) : SatM r Unit) kont ↔
      ∃ env : Env r, InputsAre env (ih :: start :: pre :: post :: (ids ++ prfs)) ∧
        denote r (Sat.poseidonH r) keccakK env
          (traceOf ["Poseidon2", "KeccakGadget"] (traceInsertion r d b)) ∧ kont () :=
  insertionCircuit_trace_iff (Sat.poseidonH r) keccakK Sat.poseidon2_hH keccakK_hK keccakK_len
    r d b ih start pre post ids prfs hids hprfs kont

/-- the deletion circuit over BN254, no hypotheses left -/
theorem deletionCircuit_trace_iff_bn254 (d b : ℕ) (hd : d ≤ 31) (ih : ZMod r)
    (idxs : List (ZMod r)) (pre post : ZMod r) (ids prfs : List (ZMod r))
    (hidxs : idxs.length = b) (hids : ids.length = b) (hprfs : prfs.length = b * d)
    (kont : Unit → Prop) :
    (deletionCircuit r d ih idxs pre post ids (chunks prfs d b) : SatM r Unit) kont ↔
      ∃ env : Env r, InputsAre env (ih :: (idxs ++ pre :: post :: (ids ++ prfs))) ∧
        denote r (Sat.poseidonH r) keccakK env
          (traceOf ["Poseidon2", "KeccakGadget"] (traceDeletion r d b)) ∧ kont () :=
  deletionCircuit_trace_iff (Sat.poseidonH r) keccakK Sat.poseidon2_hH keccakK_hK keccakK_len
    r d b hd ih idxs pre post ids prfs hidxs hids hprfs kont

end bn254

/-! ## non-vacuity: a concrete `ProofRound` over `ZMod 101` -/

section example101

def exH : ZMod 101 → ZMod 101 → ZMod 101 := fun a b => a + 2 * b
def exK : List ℕ → List (ZMod 101) → List (ZMod 101) := fun _ _ => []
/-- a Sat-side hash gadget computing `exH` -/
def exHash2 : ZMod 101 → ZMod 101 → SatM 101 (ZMod 101) := fun a b k => k (exH a b)
/-- wires: `v0 = direction = 1`, `v1 = hash = 5`, `v2 = sibling = 7`, `v3, v4` the two selects,
`v5` the hash -/
def exEnv : Env 101 := fun i => [1, 5, 7, 5, 7, 19].getD i 0

/-- the recorded trace, as data (rendered: `assertbool v0`, `v3 = select v0 v1 v2`,
`v4 = select v0 v2 v1`, `v5 = call Poseidon2 | v3 v4`, `ret v5`) -/
theorem ex_trace : traceOf ["Poseidon2"] traceProofRound =
    [.assertBool (.v 0), .op 3 "select" [.v 0, .v 1, .v 2], .op 4 "select" [.v 0, .v 2, .v 1],
     .call1 5 "Poseidon2" [] [.v 3, .v 4], .text "ret v5"] := by
  rfl

theorem ex_result : resultOf ["Poseidon2"] traceProofRound = .v 5 := rfl

theorem ex_denote : denote 101 exH exK exEnv (traceOf ["Poseidon2"] traceProofRound) := by
  rw [ex_trace]
  intro l hl
  simp only [List.mem_cons, List.not_mem_nil, or_false] at hl
  rcases hl with rfl | rfl | rfl | rfl | rfl
  · show (1 : ZMod 101) * (1 - 1) = 0; decide
  · show (1 : ZMod 101) * (1 - 1) = 0 ∧ (5 : ZMod 101) = 7 + 1 * (5 - 7); decide
  · show (1 : ZMod 101) * (1 - 1) = 0 ∧ (7 : ZMod 101) = 5 + 1 * (7 - 5); decide
  · show (19 : ZMod 101) = exH 5 7; decide
  · trivial

/-- the right-hand side of `proofRound_trace_iff` is inhabited, hence so is the left -/
theorem ex_proofRound_sat :
    (proofRound exHash2 (1 : ZMod 101) 5 7 : SatM 101 _) (fun out => out = 19) :=
  (proofRound_trace_iff exH exK exHash2 (fun _ _ _ => Iff.rfl) 1 5 7 _).mpr
    ⟨exEnv, fun i hi => by
      have : i < 3 := hi
      match i, this with
      | 0, _ => rfl
      | 1, _ => rfl
      | 2, _ => rfl, ex_denote, by rw [ex_result]; rfl⟩

/-- and the trace semantics is not trivially true: flipping the direction wire to a non-boolean
value falsifies it -/
theorem ex_denote_false :
    ¬ denote 101 exH exK (Function.update exEnv 0 2) (traceOf ["Poseidon2"] traceProofRound) := by
  rw [ex_trace]
  intro h
  have h0 := h (.assertBool (.v 0)) (by simp)
  change (2 : ZMod 101) * (1 - 2) = 0 at h0
  revert h0; decide

end example101

/-! ## axioms -/

#print axioms proofRound_trace_iff
#print axioms verifyProof_trace_iff
#print axioms insertionRound_trace_iff
#print axioms insertionProof_trace_iff
#print axioms deletionRound_trace_iff
#print axioms deletionProof_trace_iff
#print axioms reducedModRCheck_trace_iff
#print axioms toReducedBigEndian_trace_iff
#print axioms fromBinaryBigEndian_trace_iff
#print axioms insertionCircuit_trace_iff
#print axioms deletionCircuit_trace_iff
#print axioms insertionCircuit_trace_iff_bn254
#print axioms deletionCircuit_trace_iff_bn254
#print axioms ex_proofRound_sat
#print axioms ex_denote_false

end Smtb.Properties.TraceSound
