import Smtb.Proofs.MainCircuit
import Smtb.Proofs.BN254Prime
import Smtb.Properties.C04
/-!
# C03 — the public input binds the batch (and the full-circuit forms of C01 / C02)

`InsertionMbuCircuit.Define` / `DeletionMbuCircuit.Define` over the BN254 scalar field `r`
(primality of `r` is *proved*: `Smtb/Proofs/BN254Prime.lean`), composed from C06 (bit
encodings and the reducedness check), C04 (Keccak-256), C05 (Poseidon2) and C01/C02.

"Satisfiable" = there are values for every wire the prover chooses (all hint outputs) such that
all constraints hold: `(circuit …) (fun _ => True)` in the `SatM` semantics.

What is **not** claimed: collision resistance of Keccak ("any different batch has a different
public input" beyond injectivity of the packing) is not provable and is not assumed; the
theorems stop at "the public input is Keccak-256 of exactly this byte string, reduced mod r".
-/
namespace Smtb.Properties.C03
open Smtb Smtb.Sat Smtb.Circuit Smtb.Batch Smtb.Poseidon

/-- the field of the deployed circuits -/
abbrev r : ℕ := bn254r

/-- depths up to 32 satisfy the width side conditions of C01 / C02 over BN254 -/
theorem depth_ok (d : ℕ) (h : d ≤ 32) : 2 ^ d ≤ r ∧ 2 ^ (d + 1) ≤ r := by
  have h1 : 2 ^ (d + 1) ≤ 2 ^ 33 := Nat.pow_le_pow_right (by norm_num) (by omega)
  have h2 : 2 ^ d ≤ 2 ^ (d + 1) := Nat.pow_le_pow_right (by norm_num) (by omega)
  have h3 : (2 : ℕ) ^ 33 ≤ r := by decide
  exact ⟨by omega, by omega⟩

/-- every element of the field fits in 256 bits -/
theorem val_lt_256 (x : ZMod r) : x.val < 2 ^ 256 := by
  have h1 : x.val < r := ZMod.val_lt x
  have h2 : r ≤ 2 ^ 256 := by decide
  omega

/-- the Keccak gadget, as a hypothesis-free fact (C04) in the shape `MainCircuit` consumes -/
theorem keccak_hK : ∀ (msg : List Bool), 8 ∣ msg.length → ∀ (k : List (ZMod r) → Prop),
    (Keccak.newKeccak256 (msg.map (embed (p := r))) : SatM r _) k ↔ k ((KeccakRef.keccak256Bits msg).map embed) :=
  fun msg h k => Smtb.Properties.C04.newKeccak256_sat msg h k

/-- the public input the circuit enforces for an insertion batch: the 256 digest bits of
Keccak-256 over the big-endian packing, recomposed big-endian, as a field element -/
def insertionPublicInput (start pre post : ℕ) (ids : List ℕ) : ZMod r :=
  ((natOfBits (swapByteOrder (KeccakRef.keccak256Bits (insertionHashBits start pre post ids))) : ℕ) : ZMod r)

def deletionPublicInput (idxs : List ℕ) (pre post : ℕ) : ZMod r :=
  ((natOfBits (swapByteOrder (KeccakRef.keccak256Bits (deletionHashBits idxs pre post))) : ℕ) : ZMod r)

/-- **C03 / C01 (full insertion circuit).** For every depth ≤ 32, every batch size and every
assignment of the inputs: the circuit is satisfiable iff the start index fits 32 bits, the public
input is the hash of the packing of the *canonical representatives* of start index, roots and
commitments, and the batch specification of C01 holds. -/
theorem insertionCircuit_sat_iff (d : ℕ) (hd : d ≤ 32) (ih start pre post : ZMod r)
    (ids : List (ZMod r)) (proofs : List (List (ZMod r))) :
    (insertionCircuit r d ih start pre post ids proofs : SatM r Unit) (fun _ => True) ↔
      start.val < 2 ^ 32 ∧
      ih = insertionPublicInput start.val pre.val post.val (ids.map ZMod.val) ∧
      insertionSpec (poseidonH r) 0 ZMod.val (fun s j => s + (j : ZMod r)) d start 0 pre ids proofs = some post := by
  rw [insertionCircuit_iff KeccakRef.keccak256Bits keccak_hK d (depth_ok d hd).1]
  unfold insertionPublicInput
  constructor
  · rintro ⟨h1, -, -, -, h5, h6⟩; exact ⟨h1, h5, h6⟩
  · rintro ⟨h1, h5, h6⟩; exact ⟨h1, val_lt_256 _, val_lt_256 _, fun id _ => val_lt_256 id, h5, h6⟩

/-- **C03 / C02 (full deletion circuit)**, depth ≤ 31 (deeper circuits are refused at build time). -/
theorem deletionCircuit_sat_iff (d : ℕ) (hd : d ≤ 31) (ih : ZMod r) (idxs : List (ZMod r))
    (pre post : ZMod r) (ids : List (ZMod r)) (proofs : List (List (ZMod r))) :
    (deletionCircuit r d ih idxs pre post ids proofs : SatM r Unit) (fun _ => True) ↔
      (∀ i ∈ idxs, i.val < 2 ^ 32) ∧
      ih = deletionPublicInput (idxs.map ZMod.val) pre.val post.val ∧
      deletionSpec (poseidonH r) 0 ZMod.val d pre idxs ids proofs = some post := by
  rw [deletionCircuit_iff KeccakRef.keccak256Bits keccak_hK d (depth_ok d (by omega)).2]
  unfold deletionPublicInput
  constructor
  · rintro ⟨h1, -, -, h5, h6⟩; exact ⟨h1, h5, h6⟩
  · rintro ⟨h1, h5, h6⟩; exact ⟨h1, val_lt_256 _, val_lt_256 _, h5, h6⟩

/-- the public input is a function of the packed fields: two satisfying assignments with the same
start index, roots and commitments have the same public input (whatever their sibling paths) -/
theorem inputHash_deterministic (d : ℕ) (hd : d ≤ 32) (ih ih' start pre post : ZMod r)
    (ids : List (ZMod r)) (proofs proofs' : List (List (ZMod r)))
    (h : (insertionCircuit r d ih start pre post ids proofs : SatM r Unit) (fun _ => True))
    (h' : (insertionCircuit r d ih' start pre post ids proofs' : SatM r Unit) (fun _ => True)) : ih = ih' := by
  rw [insertionCircuit_sat_iff d hd] at h h'
  rw [h.2.1, h'.2.1]

/-- **no alternative encoding**: a public input computed from the bits of `v + k·r` instead of `v`
(for any packed field) is accepted only if it happens to equal the canonical one — the statement is
the `↔` above: the hash is taken over `x.val`, the unique representative below `r`; the digit-level
reason is C06's `toReducedBigEndian_unique`. Here: an index that does not fit 32 bits is unprovable. -/
theorem insertion_start_index_overflow_unsat (d : ℕ) (hd : d ≤ 32) (ih start pre post : ZMod r)
    (ids : List (ZMod r)) (proofs : List (List (ZMod r))) (h : 2 ^ 32 ≤ start.val) :
    ¬ (insertionCircuit r d ih start pre post ids proofs : SatM r Unit) (fun _ => True) := by
  rw [insertionCircuit_sat_iff d hd]; omega

theorem deletion_index_overflow_unsat (d : ℕ) (hd : d ≤ 31) (ih : ZMod r) (idxs : List (ZMod r))
    (pre post : ZMod r) (ids : List (ZMod r)) (proofs : List (List (ZMod r)))
    (i : ZMod r) (hi : i ∈ idxs) (h : 2 ^ 32 ≤ i.val) :
    ¬ (deletionCircuit r d ih idxs pre post ids proofs : SatM r Unit) (fun _ => True) := by
  rw [deletionCircuit_sat_iff d hd]
  rintro ⟨h1, -, -⟩
  have := h1 i hi
  omega

/-- a wrong public input is rejected -/
theorem insertion_wrong_hash_unsat (d : ℕ) (hd : d ≤ 32) (ih start pre post : ZMod r)
    (ids : List (ZMod r)) (proofs : List (List (ZMod r)))
    (h : ih ≠ insertionPublicInput start.val pre.val post.val (ids.map ZMod.val)) :
    ¬ (insertionCircuit r d ih start pre post ids proofs : SatM r Unit) (fun _ => True) := by
  rw [insertionCircuit_sat_iff d hd]; tauto

end Smtb.Properties.C03

#print axioms Smtb.Properties.C03.insertionCircuit_sat_iff
#print axioms Smtb.Properties.C03.deletionCircuit_sat_iff
#print axioms Smtb.Properties.C03.inputHash_deterministic
#print axioms Smtb.Properties.C03.insertion_start_index_overflow_unsat
#print axioms Smtb.Properties.C03.deletion_index_overflow_unsat
#print axioms Smtb.Properties.C03.insertion_wrong_hash_unsat
#print axioms Smtb.Properties.C03.depth_ok
