import Smtb.Model.Job
import Smtb.Proofs.Job

/-!
# C14 — graceful shutdown (`server/job.go`, `server/server.go: spawnServerJob, Run`, `main.go`)

*After a stop is requested, every request that had already been accepted runs to completion and
receives its full response, both the prover and the metrics listener are closed before
waiting-for-stop returns so the same addresses can be bound again immediately, and the process
exits with status 0.  Stop and wait never deadlock, however the stop is timed relative to
start-up and to in-flight requests.*

The model is the labelled transition system `Smtb.Job.step fixed` of `Smtb/Model/Job.lean`
(goroutine program counters, channels, an abstract `http.Server` per job, clients, `main`); the
`net/http` assumptions are listed at the top of that file.  `fixed = true` is the protocol of the
current `server/job.go` (the stopper goroutine waits for `start` to return before it closes
`closed`), `fixed = false` the protocol before that repair.

All statements quantify over every reachable state (`Reachable`, i.e. every run from the initial
state, every interleaving, every timing of the stop request, every number of in-flight
requests, any number of restart cycles); they are proved by induction over runs.
`exited` is the only way `main` ends in the model and stands for `return nil` (exit status 0).
-/
namespace Smtb.Properties.C14

open Smtb.Job

/-- `Reachable` is exactly "end state of a run from the initial state" -/
theorem reachable_iff_run {fixed : Bool} {s : State} :
    Reachable fixed s ↔ ∃ ls, run fixed init ls = some s :=
  Smtb.Job.reachable_iff_run

/-- **Safety.** In the repaired protocol, when `AwaitStop` has returned in `main`, both servers'
listeners are closed, both `ListenAndServe` calls have returned (no late bind is possible) and no
request is unfinished. -/
theorem await_returns_only_after_both_closed {s : State} (h : Reachable true s)
    (he : s.main = .exited) :
    ∀ j, (s.job j).srv.listenerOpen = false ∧ (s.job j).starter = .returned ∧
      (s.job j).srv.active = 0 :=
  exited_released h he

/-- … hence the service can be started again on the same addresses immediately, and nothing of
the old generation can move any more (no goroutine is left behind). -/
theorem restart_enabled_after_exit {s : State} (h : Reachable true s) (he : s.main = .exited) :
    enabled true s .restart = true ∧ ∀ l, l ≠ .restart → enabled true s l = false :=
  exited_quiescent h he

/-- **Accepted requests complete.**
(1) No transition of either protocol drops an accepted request: the number of unfinished requests
of a server is lowered only by a `complete` step of that server, by exactly one.
(2) Along every run of one service generation, accepted = completed + still unfinished.
(3) In the repaired protocol `main` cannot be `exited` while a request is unfinished; so at exit
every accepted request has been completed. -/
theorem accepted_requests_complete :
    (∀ (fixed : Bool) (s s' : State) (l : Label) (j : Jid), step fixed s l = some s' → l ≠ .restart →
      (s'.job j).srv.active < (s.job j).srv.active →
      l = .job j .complete ∧ (s'.job j).srv.active + 1 = (s.job j).srv.active) ∧
    (∀ (fixed : Bool) (ls : List Label) (s : State) (j : Jid), run fixed init ls = some s →
      (∀ l ∈ ls, l ≠ .restart) →
      ls.countP (isAccept j) = ls.countP (isComplete j) + (s.job j).srv.active) ∧
    (∀ (s : State), Reachable true s → s.main = .exited → ∀ j, (s.job j).srv.active = 0) ∧
    (∀ (ls : List Label) (s : State) (j : Jid), run true init ls = some s → (∀ l ∈ ls, l ≠ .restart) →
      s.main = .exited → ls.countP (isComplete j) = ls.countP (isAccept j)) := by
  refine ⟨?_, ?_, ?_, ?_⟩
  · intro fixed s s' l j hs hl hlt
    rcases step_active hs hl j with h | ⟨_, h⟩ | ⟨_, _, h⟩
    · exact h
    · omega
    · omega
  · intro fixed ls s j hr hnr
    have := run_accounting hr hnr j
    cases j <;> simpa [init, State.job, JobState.init] using this
  · intro s h he j
    exact (exited_released h he j).2.2
  · intro ls s j hr hnr he
    have h1 := run_accounting hr hnr j
    have h2 := (exited_released (Reachable.init.of_run hr) he j).2.2
    cases j <;> simp_all [init, State.job, JobState.init]

/-- **No deadlock.** Every reachable state of the repaired protocol in which `main` has not
exited has an enabled transition — even one that is not a new client request.  (Before the stop
request that transition may be the environment's `mainRequestStop`, which is always enabled in
`running`.) -/
theorem no_deadlock {s : State} (h : Reachable true s) (hne : s.main ≠ .exited) :
    ∃ l, l.quiet = true ∧ enabled true s l = true :=
  progress h hne

/-- **Termination.**  `State.measure` = remaining steps of all goroutine program counters + number
of unfinished requests.
(1) Every step other than a new `accept` (and `restart`) lowers the measure (both protocols);
an `accept` raises it by one, and is disabled for a server that is in shutdown.
(2) Hence every run without new `accept`s has at most `measure` steps.
(3) From every reachable state of the repaired protocol, every such run that cannot be extended
(by a step other than `accept`) has ended in `exited`; and a run to `exited` of length
`≤ measure` exists. -/
theorem terminates :
    (∀ (fixed : Bool) (s s' : State) (l : Label), step fixed s l = some s' → l.quiet = true →
      s'.measure < s.measure) ∧
    (∀ (fixed : Bool) (s s' : State) (j : Jid), step fixed s (.job j .accept) = some s' →
      s'.measure = s.measure + 1) ∧
    (∀ (fixed : Bool) (s : State) (j : Jid), (s.job j).srv.inShutdown = true →
      enabled fixed s (.job j .accept) = false) ∧
    (∀ (fixed : Bool) (s s' : State) (ls : List Label), (∀ l ∈ ls, l.quiet = true) →
      run fixed s ls = some s' → ls.length + s'.measure ≤ s.measure) ∧
    (∀ (s s' : State) (ls : List Label), Reachable true s → (∀ l ∈ ls, l.quiet = true) →
      run true s ls = some s' → (∀ l, l.quiet = true → enabled true s' l = false) →
      s'.main = .exited) ∧
    (∀ (s : State), Reachable true s →
      ∃ ls s', (∀ l ∈ ls, l.quiet = true) ∧ run true s ls = some s' ∧ s'.main = .exited ∧
        ls.length ≤ s.measure) := by
  refine ⟨fun _ _ _ _ => step_measure, fun _ _ _ _ => step_measure_accept,
    fun _ _ _ => accept_disabled, fun _ _ _ _ => quiet_run_length, ?_, fun _ => can_exit⟩
  intro s s' ls h _ hr hstuck
  apply Classical.byContradiction
  intro hne
  obtain ⟨l, hq, hen⟩ := progress (h.of_run hr) hne
  simp [hstuck l hq] at hen

/-! ## The original protocol (`fixed = false`) -/

private theorem ex_of_any {o : Option State} {P : State → Prop} [DecidablePred P]
    (h : o.any (fun s => decide (P s)) = true) : ∃ s, o = some s ∧ P s := by
  cases o with
  | none => simp at h
  | some s => exact ⟨s, rfl, by simpa using h⟩

/-- the stop request overtakes the metrics server's `ListenAndServe` between its `inShutdown`
check and `net.Listen` -/
def earlyStopRun : List Label :=
  [.job .metrics .checkOk, .mainRequestStop, .mainAwait,
   .cRequestStop .metrics, .cRequestStop .prover,
   .job .metrics .shutdownBegin, .job .metrics .shutdownReturn, .job .metrics .closeClosed,
   .job .prover .shutdownBegin, .job .prover .shutdownReturn, .job .prover .closeClosed,
   .cAwait .metrics, .cAwait .prover, .cClose, .mainExit]

/-- **The repaired defect.** In the original protocol `earlyStopRun` lets `main` exit while the
metrics starter is still about to bind; one more step and `main` has exited with the metrics
listener open (and registering will be refused: nobody ever serves or closes it before
`registerShut`).  A restart is not possible in that state.  The repaired protocol rejects the run. -/
theorem early_stop_counterexample :
    (∃ s, run false init earlyStopRun = some s ∧ s.main = .exited ∧
      s.m.starter = .checkedNotShuttingDown ∧ enabled false s (.job .metrics .bind) = true ∧
      enabled false s .restart = false) ∧
    (∃ s, run false init (earlyStopRun ++ [.job .metrics .bind]) = some s ∧ s.main = .exited ∧
      s.m.srv.listenerOpen = true ∧ enabled false s .restart = false) ∧
    accepts true earlyStopRun = false := by
  exact ⟨ex_of_any (by decide), ex_of_any (by decide), by decide⟩

/-- **Partial guarantee of the original protocol** (`_partial`: extra hypothesis on the timing).
If the stop is requested only after both listeners are registered (`ReachableLate`: every
`mainRequestStop` step is taken in a state with both starters `serving`), then also in the
original protocol, when `main` has exited, both listeners are closed, no starter can bind any
more (each is in its accept loop with a closed listener, or has returned) and no request is
unfinished.  Holds for both values of `fixed`. -/
theorem await_closed_partial_original {fixed : Bool} {s : State} (h : ReachableLate fixed s)
    (he : s.main = .exited) :
    ∀ j, (s.job j).srv.listenerOpen = false ∧
      ((s.job j).starter = .serving ∨ (s.job j).starter = .returned) ∧
      (s.job j).srv.active = 0 := by
  have I := inv_of_reachable h.reachable
  intro j
  have hc := inv_exited_closed I he j
  obtain ⟨ha, hsd, _⟩ := job_closed_facts (I.job j) hc
  have hl := late_inv h (by simp [he]) j
  exact ⟨job_listener_closed (I.job j) hsd hl, hl, ha⟩

/-! ## Observable traces -/

/-- the acceptor used for real event logs (silent labels missing) only accepts observable
projections of genuine runs of the model -/
theorem acceptsWeak_sound {fixed : Bool} {obs : List Label} (h : acceptsWeak fixed obs = true) :
    ∃ full, accepts fixed full = true ∧
      full.filter (fun l => !l.isTau) = obs.filter (fun l => !l.isTau) := by
  obtain ⟨full, hf⟩ := Option.isSome_iff_exists.1 h
  exact ⟨full, (elaborate_sound hf).1, (elaborate_sound hf).2⟩

/-- a silent step (a channel operation inside `SpawnJob`/`CombineJobs`) never disables another
step; this is why the weak acceptor may take silent steps as early as possible -/
theorem silent_steps_never_disable {fixed : Bool} {s s1 : State} {t l : Label}
    (ht : t.isTau = true) (hs : step fixed s t = some s1) (hne : l ≠ t) (hr : l ≠ .restart)
    (he : enabled fixed s l = true) : enabled fixed s1 l = true :=
  tau_preserves_enabled ht hs hne hr he

/-! ## Non-vacuity -/
section Example

/-- both servers up, two prove requests in flight when the stop arrives -/
def twoInFlightRun : List Label :=
  [.job .metrics .checkOk, .job .metrics .bind, .job .metrics .registerOk,
   .job .prover .checkOk, .job .prover .bind, .job .prover .registerOk,
   .job .prover .accept, .job .prover .accept,
   .mainRequestStop, .mainAwait, .cStart, .cRequestStop .metrics, .cRequestStop .prover,
   .job .metrics .shutdownBegin, .job .metrics .shutdownReturn, .job .metrics .serveReturn,
   .job .metrics .closeClosed,
   .job .prover .shutdownBegin, .job .prover .complete, .job .prover .serveReturn,
   .job .prover .complete, .job .prover .shutdownReturn, .job .prover .closeClosed,
   .cAwait .metrics, .cAwait .prover, .cClose, .mainExit]

example : accepts true twoInFlightRun = true := by decide
example : (run true init twoInFlightRun).map (·.main) = some .exited := by decide
example : (run true init (twoInFlightRun.take 9)).map (fun s => (s.main, s.p.srv.active)) =
    some (.requestedStop, 2) := by decide
/-- the prover's `Shutdown` cannot return while a request is in flight -/
example : accepts true (twoInFlightRun.take 19 ++ [.job .prover .shutdownReturn]) = false := by decide
/-- no new request once the prover is in shutdown -/
example : accepts true (twoInFlightRun.take 18 ++ [.job .prover .accept]) = false := by decide
/-- `main` cannot exit early -/
example : accepts true (twoInFlightRun.take 22 ++ [.mainExit]) = false := by decide
/-- a second generation on the same addresses -/
example : accepts true (twoInFlightRun ++ [.restart] ++ twoInFlightRun) = true := by decide
/-- the same run with the silent labels removed is accepted by the weak acceptor -/
example : acceptsWeak true (twoInFlightRun.filter (fun l => !l.isTau)) = true := by decide
/-- stop before anything has started: both starters see `inShutdown` and never bind -/
example : (run true init
    [.mainRequestStop, .mainAwait, .job .metrics .shutdownBegin]).isNone = true := by decide
example : acceptsWeak true
    [.mainRequestStop, .mainAwait, .job .metrics .shutdownBegin, .job .prover .shutdownBegin,
     .job .metrics .shutdownReturn, .job .prover .shutdownReturn,
     .job .metrics .checkShut, .job .prover .checkShut, .mainExit] = true := by decide
/-- the repaired stopper really waits: with the metrics starter between check and bind, `main`
cannot exit before `bind`, `registerShut` have happened -/
example : acceptsWeak true
    [.job .metrics .checkOk, .mainRequestStop, .mainAwait,
     .job .metrics .shutdownBegin, .job .prover .shutdownBegin,
     .job .metrics .shutdownReturn, .job .prover .shutdownReturn,
     .job .prover .checkShut, .mainExit] = false := by decide
example : acceptsWeak true
    [.job .metrics .checkOk, .mainRequestStop, .mainAwait,
     .job .metrics .shutdownBegin, .job .prover .shutdownBegin,
     .job .metrics .shutdownReturn, .job .prover .shutdownReturn,
     .job .prover .checkShut, .job .metrics .bind, .job .metrics .registerShut, .mainExit] = true := by
  decide
/-- the general theorems instantiate at the example run -/
example : ∀ s, run true init twoInFlightRun = some s →
    ∀ j, (s.job j).srv.listenerOpen = false ∧ (s.job j).starter = .returned ∧
      (s.job j).srv.active = 0 := by
  intro s hs
  exact await_returns_only_after_both_closed (Reachable.init.of_run hs)
    (by
      have : (run true init twoInFlightRun).map (·.main) = some .exited := by decide
      simpa [hs] using this)

end Example

end Smtb.Properties.C14

#print axioms Smtb.Properties.C14.await_returns_only_after_both_closed
#print axioms Smtb.Properties.C14.restart_enabled_after_exit
#print axioms Smtb.Properties.C14.accepted_requests_complete
#print axioms Smtb.Properties.C14.no_deadlock
#print axioms Smtb.Properties.C14.terminates
#print axioms Smtb.Properties.C14.early_stop_counterexample
#print axioms Smtb.Properties.C14.await_closed_partial_original
#print axioms Smtb.Properties.C14.acceptsWeak_sound
#print axioms Smtb.Properties.C14.silent_steps_never_disable
#print axioms Smtb.Properties.C14.reachable_iff_run
