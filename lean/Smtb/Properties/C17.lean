import Smtb.Gen.ExtractFacts
/-!
# C17 — every extracted definition the Lean proofs refer to exists in the committed model

`Smtb/Gen/ExtractFacts.lean` is regenerated on every run from
`/repo/formal-verification/FormalVerification.lean` (its `def`s) and from the proof files
(`SemaphoreMTB.*` identifiers, `open SemaphoreMTB renaming …`, `open SemaphoreMTB (…)`).
Byte-equality of the committed model with a fresh extraction and determinism of the extraction
are translation-validation checks run by `bin/check C17`.
-/
namespace Smtb.Properties.C17
open Smtb

/-- `F` is an `abbrev` of the model's preamble -/
def preamble : List String := ["F", "Order"]

theorem referenced_defined :
    Gen.extractReferenced.all (fun r => Gen.extractDefined.contains r || preamble.contains r) = true := by decide

/-- the two circuits at the dimensions the proofs are stated for (D = 30, B = 4) are in the model -/
theorem circuits_present :
    Gen.extractDefined.contains "InsertionMbuCircuit_4_30_4_4_30" = true ∧
    Gen.extractDefined.contains "DeletionMbuCircuit_4_4_30_4_4_30" = true := by decide

end Smtb.Properties.C17

#print axioms Smtb.Properties.C17.referenced_defined
#print axioms Smtb.Properties.C17.circuits_present
