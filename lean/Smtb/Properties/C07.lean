import Smtb.Proofs.Prover
import Smtb.Proofs.Keccak.Words
/-!
# C07 — a returned proof verifies for exactly its own input hash and proving system

Subject: `prover/insertion_proving_system.go`, `prover/deletion_proving_system.go`
(`ValidateShape`, `ProveInsertion` / `ProveDeletion`, `VerifyInsertion` / `VerifyDeletion`).
Model: `Smtb/Model/Prover.lean`.

**Standing assumption (see the header of the model): Groth16 is an ideal functionality.**  A proof
is a token `{sysId, pub}`; `prove` hands one out iff the positional witness satisfies the circuit
of the system; `verify` compares `sysId` and the public input.  What *is* proved here is the glue
around it: which values reach the witness (every `big.Int` reduced mod `r`, negative values
included), that `ValidateShape` comes first and protects every slice access of the assembly
loops, that the public input of the proof is the reduced input hash, and how the verifier's hash
argument is compared (mod `r`).

"The circuit accepts" is `circuitAcceptsInsertion` / `circuitAcceptsDeletion` on the reduced
values: the right-hand side of the circuit theorems of this project.

All statements are for every system (every id, depth, batch size) and every parameter set
(ragged, empty, negative, `≥ r` … included).  Nothing is `_partial`.

One fact goes beyond the property text and is recorded as `prove_cross_mode`: the Go
`ProvingSystem` does not know its mode; `ProveInsertion` on a *deletion* system (or vice versa)
is an error for every batch size except 1, and for batch size 1 it runs the *other* circuit on
the re-labelled vector.
-/
namespace Smtb.Properties.C07
open Smtb.Codec Smtb.Prover

/-! ## `prove` returns a proof iff shape and circuit accept -/

/-- **Insertion.** `ProveInsertion` on an insertion system returns a proof `t` iff `ValidateShape`
succeeds and the insertion circuit accepts the values reduced mod `r`; the proof then is the token
of this system for the public input `inputHash mod r`. -/
theorem proveInsertion_ok_iff (sys : System) (hm : sys.mode = .insertion) (p : InsertionParams)
    (t : Token) :
    proveInsertion sys p = .ok t ↔
      validateShapeInsertion sys.depth sys.batch p = true ∧
      circuitAcceptsInsertion sys.depth (red p.inputHash) p.startIndex (red p.preRoot)
        (red p.postRoot) (p.idComms.map red) (p.merkleProofs.map fun q => q.map red) = true ∧
      t = { sysId := sys.id, pub := red p.inputHash } := by
  rw [proveInsertion_matching sys hm p]
  cases hs : shapeErrInsertion sys.depth sys.batch p with
  | some e =>
    have : validateShapeInsertion sys.depth sys.batch p = false := by
      simp [validateShapeInsertion, hs]
    simp [this]
  | none =>
    have hv := (shapeErrInsertion_none_iff _ _ p).mp hs
    simp only [hv, true_and]
    show (if acceptsInsertion sys.depth p = true then _ else _) = _ ↔ acceptsInsertion sys.depth p = true ∧ _
    by_cases ha : acceptsInsertion sys.depth p = true
    · simp only [ha, if_true, true_and]
      constructor
      · intro h; exact (Except.ok.inj h).symm
      · intro h; rw [h]
    · simp [ha]

/-- **Deletion.** Same for `ProveDeletion` on a deletion system. -/
theorem proveDeletion_ok_iff (sys : System) (hm : sys.mode = .deletion) (p : DeletionParams)
    (t : Token) :
    proveDeletion sys p = .ok t ↔
      validateShapeDeletion sys.depth sys.batch p = true ∧
      circuitAcceptsDeletion sys.depth (red p.inputHash) (p.deletionIndices.getD [])
        (red p.preRoot) (red p.postRoot) (p.idComms.map red)
        (p.merkleProofs.map fun q => q.map red) = true ∧
      t = { sysId := sys.id, pub := red p.inputHash } := by
  rw [proveDeletion_matching sys hm p]
  cases hs : shapeErrDeletion sys.depth sys.batch p with
  | some e =>
    have : validateShapeDeletion sys.depth sys.batch p = false := by
      simp [validateShapeDeletion, hs]
    simp [this]
  | none =>
    have hv := (shapeErrDeletion_none_iff _ _ p).mp hs
    simp only [hv, true_and]
    show (if acceptsDeletion sys.depth p = true then _ else _) = _ ↔ acceptsDeletion sys.depth p = true ∧ _
    by_cases ha : acceptsDeletion sys.depth p = true
    · simp only [ha, if_true, true_and]
      constructor
      · intro h; exact (Except.ok.inj h).symm
      · intro h; rw [h]
    · simp [ha]

/-- **`prove_ok_iff`, both modes at once.** For parameters of the kind the system was set up for. -/
theorem prove_ok_iff (sys : System) (params : Params) (hm : params.mode = sys.mode) (t : Token) :
    prove sys params = .ok t ↔
      params.shapeOk sys.depth sys.batch = true ∧ params.accepted sys.depth = true ∧
      t = { sysId := sys.id, pub := red params.inputHash } := by
  cases params with
  | insertion p => exact proveInsertion_ok_iff sys hm.symm p t
  | deletion p => exact proveDeletion_ok_iff sys hm.symm p t

/-- The assembly never indexes out of range: `prove` never ends in the `panic` outcome (for every
system and every parameter set, matching mode or not). -/
theorem prove_never_panics (sys : System) (params : Params) : prove sys params ≠ .error .panic := by
  cases params with
  | insertion p =>
    show proveInsertion sys p ≠ _
    unfold proveInsertion
    cases hs : shapeErrInsertion sys.depth sys.batch p with
    | some e => simp
    | none =>
      have hv := (shapeErrInsertion_none_iff _ _ p).mp hs
      simp only [assembleInsertion_eq _ _ p hv, idealProve]
      split <;> simp
  | deletion p =>
    show proveDeletion sys p ≠ _
    unfold proveDeletion
    cases hs : shapeErrDeletion sys.depth sys.batch p with
    | some e => simp
    | none =>
      have hv := (shapeErrDeletion_none_iff _ _ p).mp hs
      simp only [assembleDeletion_eq _ _ p hv, idealProve]
      split <;> simp

/-- **`prove_error_no_proof`.** If the dimensions are wrong or the parameters do not describe a
valid batch, the prover returns an error — `Except` has no third outcome, so no proof is returned.
The error is the `ValidateShape` error if there is one (the circuit is not even consulted), and
the backend's error otherwise. -/
theorem prove_error_no_proof (sys : System) (params : Params) (hm : params.mode = sys.mode)
    (h : (params.shapeOk sys.depth sys.batch && params.accepted sys.depth) = false) :
    (∃ e, prove sys params = .error e) ∧ (∀ t, prove sys params ≠ .ok t) ∧
    (params.shapeOk sys.depth sys.batch = true → prove sys params = .error .backend) ∧
    (params.shapeOk sys.depth sys.batch = false → ∃ e, prove sys params = .error (.shape e)) := by
  have hno : ∀ t, prove sys params ≠ .ok t := by
    intro t ht
    obtain ⟨h1, h2, _⟩ := (prove_ok_iff sys params hm t).mp ht
    simp [h1, h2] at h
  refine ⟨?_, hno, ?_, ?_⟩
  · cases hp : prove sys params with
    | error e => exact ⟨e, rfl⟩
    | ok t => exact absurd hp (hno t)
  · intro hs
    have ha : params.accepted sys.depth = false := by simpa [hs] using h
    cases params with
    | insertion p =>
      show proveInsertion sys p = _
      rw [proveInsertion_matching sys hm.symm p, (shapeErrInsertion_none_iff _ _ p).mpr hs]
      have : acceptsInsertion sys.depth p = false := ha
      simp [this]
    | deletion p =>
      show proveDeletion sys p = _
      rw [proveDeletion_matching sys hm.symm p, (shapeErrDeletion_none_iff _ _ p).mpr hs]
      have : acceptsDeletion sys.depth p = false := ha
      simp [this]
  · intro hs
    cases params with
    | insertion p =>
      show ∃ e, proveInsertion sys p = _
      have hs' : validateShapeInsertion sys.depth sys.batch p = false := hs
      unfold proveInsertion
      cases he : shapeErrInsertion sys.depth sys.batch p with
      | some e => exact ⟨e, rfl⟩
      | none => simp [validateShapeInsertion, he] at hs'
    | deletion p =>
      show ∃ e, proveDeletion sys p = _
      have hs' : validateShapeDeletion sys.depth sys.batch p = false := hs
      unfold proveDeletion
      cases he : shapeErrDeletion sys.depth sys.batch p with
      | some e => exact ⟨e, rfl⟩
      | none => simp [validateShapeDeletion, he] at hs'

/-! ## the verifier -/

/-- every token handed out by `prove` (any system, any parameters, matching mode or not) is the
token of that system for the reduced input hash -/
theorem prove_token (sys : System) (params : Params) (t : Token) (h : prove sys params = .ok t) :
    t = { sysId := sys.id, pub := red params.inputHash } := by
  cases params with
  | insertion p => exact proveInsertion_token sys p t h
  | deletion p => exact proveDeletion_token sys p t h

/-- Exact acceptance condition of the verifier for a proof obtained from `prove sys`. -/
theorem verify_iff (sys sys' : System) (params : Params) (t : Token)
    (hp : prove sys params = .ok t) (h : Int) :
    verify sys' h t = true ↔
      sys'.id = sys.id ∧ h.emod (r : Int) = params.inputHash.emod (r : Int) := by
  rw [prove_token sys params t hp]
  simp only [verify, Bool.and_eq_true, decide_eq_true_eq]
  rw [red_eq_iff]
  constructor
  · rintro ⟨h1, h2⟩; exact ⟨h1.symm, h2.symm⟩
  · rintro ⟨h1, h2⟩; exact ⟨h1.symm, h2.symm⟩

/-- **`verify_own_hash`.** The proof is accepted by the same system for the parameters' input
hash and for *every* representative `inputHash + k·r`, `k` any integer (negative too). -/
theorem verify_own_hash (sys : System) (params : Params) (t : Token)
    (hp : prove sys params = .ok t) (k : Int) :
    verify sys (params.inputHash + k * (r : Int)) t = true := by
  rw [verify_iff sys sys params t hp]
  refine ⟨rfl, ?_⟩
  show (params.inputHash + k * (r : Int)) % (r : Int) = params.inputHash % (r : Int)
  exact Int.add_mul_emod_self_right _ _ _

/-- **`verify_other_hash_rejects`.** Every public input that is not congruent to the input hash
is rejected. -/
theorem verify_other_hash_rejects (sys : System) (params : Params) (t : Token)
    (hp : prove sys params = .ok t) (h : Int)
    (hne : h.emod (r : Int) ≠ params.inputHash.emod (r : Int)) : verify sys h t = false := by
  cases hv : verify sys h t with
  | false => rfl
  | true => exact absurd ((verify_iff sys sys params t hp h).mp hv).2 hne

/-- **`verify_other_system_rejects`.** A system with a different id (another set-up: the other
mode's system, other dimensions, or a second set-up of the very same circuit) rejects the proof
for every public input. -/
theorem verify_other_system_rejects (sys sys' : System) (params : Params) (t : Token)
    (hp : prove sys params = .ok t) (hid : sys'.id ≠ sys.id) (h : Int) :
    verify sys' h t = false := by
  cases hv : verify sys' h t with
  | false => rfl
  | true => exact absurd ((verify_iff sys sys' params t hp h).mp hv).1 hid

/-! ## `ValidateShape` protects the assembly loops -/

/-- **`validateShape_guards_indexing` (insertion).** After `ValidateShape(d, b)` succeeded, every
access `params.IdComms[i]`, `params.MerkleProofs[i]`, `params.MerkleProofs[i][j]` with `i < b`,
`j < d` made by `ProveInsertion` is in range, and the assembly as a whole does not panic. -/
theorem validateShape_guards_indexing_insertion (d b : Nat) (p : InsertionParams)
    (h : validateShapeInsertion d b p = true) :
    (∀ i, i < b → ∃ x, p.idComms[i]? = some x) ∧
    (∀ i, i < b → ∃ q, p.merkleProofs[i]? = some q ∧ ∀ j, j < d → ∃ y, q[j]? = some y) ∧
    (assembleInsertion d b p).isSome = true := by
  obtain ⟨h1, h2, h3⟩ := (validateShapeInsertion_iff d b p).mp h
  refine ⟨?_, ?_, by rw [assembleInsertion_eq d b p h]; rfl⟩
  · intro i hi
    exact ⟨_, List.getElem?_eq_getElem (by omega)⟩
  · intro i hi
    have hi' : i < p.merkleProofs.length := by omega
    refine ⟨p.merkleProofs[i], List.getElem?_eq_getElem hi', ?_⟩
    intro j hj
    have := h3 _ (List.getElem_mem hi')
    exact ⟨_, List.getElem?_eq_getElem (by omega)⟩

/-- **`validateShape_guards_indexing` (deletion)**: additionally `params.DeletionIndices[i]`. -/
theorem validateShape_guards_indexing_deletion (d b : Nat) (p : DeletionParams)
    (h : validateShapeDeletion d b p = true) :
    (∀ i, i < b → ∃ x, (p.deletionIndices.getD [])[i]? = some x) ∧
    (∀ i, i < b → ∃ x, p.idComms[i]? = some x) ∧
    (∀ i, i < b → ∃ q, p.merkleProofs[i]? = some q ∧ ∀ j, j < d → ∃ y, q[j]? = some y) ∧
    (assembleDeletion d b p).isSome = true := by
  obtain ⟨h1, h2, h0, h3⟩ := (validateShapeDeletion_iff d b p).mp h
  refine ⟨?_, ?_, ?_, by rw [assembleDeletion_eq d b p h]; rfl⟩
  · intro i hi
    exact ⟨_, List.getElem?_eq_getElem (by unfold DeletionParams.indices at h0; omega)⟩
  · intro i hi
    exact ⟨_, List.getElem?_eq_getElem (by omega)⟩
  · intro i hi
    have hi' : i < p.merkleProofs.length := by omega
    refine ⟨p.merkleProofs[i], List.getElem?_eq_getElem hi', ?_⟩
    intro j hj
    have := h3 _ (List.getElem_mem hi')
    exact ⟨_, List.getElem?_eq_getElem (by omega)⟩

/-- The order of the checks in `ValidateShape` (which error is reported when several apply):
identity commitments, then proofs, then (deletion only) indices, then the first proof of a wrong
size. -/
theorem shapeErr_order_insertion (d b : Nat) (p : InsertionParams) :
    (p.idComms.length ≠ b → shapeErrInsertion d b p = some (.idComms p.idComms.length)) ∧
    (p.idComms.length = b → p.merkleProofs.length ≠ b →
      shapeErrInsertion d b p = some (.merkleProofs p.merkleProofs.length)) := by
  unfold shapeErrInsertion
  exact ⟨fun h => by simp [h], fun h1 h2 => by simp [h1, h2]⟩

theorem shapeErr_order_deletion (d b : Nat) (p : DeletionParams) :
    (p.idComms.length ≠ b → shapeErrDeletion d b p = some (.idComms p.idComms.length)) ∧
    (p.idComms.length = b → p.merkleProofs.length ≠ b →
      shapeErrDeletion d b p = some (.merkleProofs p.merkleProofs.length)) ∧
    (p.idComms.length = b → p.merkleProofs.length = b → (p.deletionIndices.getD []).length ≠ b →
      shapeErrDeletion d b p = some (.deletionIndices (p.deletionIndices.getD []).length)) := by
  unfold shapeErrDeletion DeletionParams.indices
  exact ⟨fun h => by simp [h], fun h1 h2 => by simp [h1, h2], fun h1 h2 h3 => by simp [h1, h2, h3]⟩

/-! ## the mode is not part of a Go proving system -/

/-- **Cross-mode use** (`--mode` and the keys file disagree).  Calling the `Prove…` of the other
mode on a system is an error whenever the batch size is not 1 ("invalid witness size").  With
batch size 1 the two witness vectors have the same length and the system's *own* circuit runs on
the re-labelled vector: a deletion system proves an "insertion" request iff its deletion circuit
accepts `DeletionIndices = [StartIndex]`, and symmetrically. -/
theorem prove_cross_mode (sys : System) :
    (sys.mode = .deletion → ∀ (p : InsertionParams) (t : Token),
      proveInsertion sys p = .ok t ↔
        validateShapeInsertion sys.depth sys.batch p = true ∧ sys.batch = 1 ∧
        circuitAcceptsDeletion sys.depth (red p.inputHash) [p.startIndex] (red p.preRoot)
          (red p.postRoot) (p.idComms.map red) (p.merkleProofs.map fun q => q.map red) = true ∧
        t = { sysId := sys.id, pub := red p.inputHash }) ∧
    (sys.mode = .insertion → ∀ (p : DeletionParams) (t : Token),
      proveDeletion sys p = .ok t ↔
        validateShapeDeletion sys.depth sys.batch p = true ∧ sys.batch = 1 ∧
        circuitAcceptsInsertion sys.depth (red p.inputHash) ((p.deletionIndices.getD []).headD 0)
          (red p.preRoot) (red p.postRoot) (p.idComms.map red)
          (p.merkleProofs.map fun q => q.map red) = true ∧
        t = { sysId := sys.id, pub := red p.inputHash }) := by
  constructor
  · intro hm p t
    rw [proveInsertion_cross sys hm p]
    cases hs : shapeErrInsertion sys.depth sys.batch p with
    | some e =>
      have : validateShapeInsertion sys.depth sys.batch p = false := by
        simp [validateShapeInsertion, hs]
      simp [this]
    | none =>
      have hv := (shapeErrInsertion_none_iff _ _ p).mp hs
      simp only [hv, true_and]
      by_cases hc : sys.batch = 1 ∧
          circuitAcceptsDeletion sys.depth (red p.inputHash) [p.startIndex] (red p.preRoot)
            (red p.postRoot) (p.idComms.map red) (redRows p.merkleProofs) = true
      · rw [if_pos hc]
        constructor
        · intro h; exact ⟨hc.1, hc.2, (Except.ok.inj h).symm⟩
        · rintro ⟨_, _, h⟩; rw [h]
      · rw [if_neg hc]
        constructor
        · intro h; cases h
        · rintro ⟨h1, h2, _⟩; exact absurd ⟨h1, h2⟩ hc
  · intro hm p t
    rw [proveDeletion_cross sys hm p]
    cases hs : shapeErrDeletion sys.depth sys.batch p with
    | some e =>
      have : validateShapeDeletion sys.depth sys.batch p = false := by
        simp [validateShapeDeletion, hs]
      simp [this]
    | none =>
      have hv := (shapeErrDeletion_none_iff _ _ p).mp hs
      simp only [hv, true_and]
      by_cases hc : sys.batch = 1 ∧
          circuitAcceptsInsertion sys.depth (red p.inputHash)
            ((DeletionParams.indices p).headD 0) (red p.preRoot) (red p.postRoot)
            (p.idComms.map red) (redRows p.merkleProofs) = true
      · rw [if_pos hc]
        constructor
        · intro h; exact ⟨hc.1, hc.2, (Except.ok.inj h).symm⟩
        · rintro ⟨_, _, h⟩; rw [h]
      · rw [if_neg hc]
        constructor
        · intro h; cases h
        · rintro ⟨h1, h2, _⟩; exact absurd ⟨h1, h2⟩ hc

/-! ## Non-vacuity -/

namespace Example

/-- an insertion system of depth 1, batch 1 -/
def sysI : System := { id := 7, mode := .insertion, depth := 1, batch := 1 }
/-- the deletion system of the same dimensions (another set-up, another id) -/
def sysD : System := { id := 8, mode := .deletion, depth := 1, batch := 1 }

def pre : Nat := 14744269619966411208579211824598458697587494354926760081771325075741142829156
def post : Nat := 18423194802802147121294641945063302532319431080857859605204660473644265519999
def ih : Nat := 21711681709921625614887553099932166891429859118545579414236531564690061021879

/-- empty depth-1 tree, identity `1` inserted at index 0 (`pre = H(0,0)`, `post = H(1,0)`,
`ih = keccak(packing)`); `ih < r` here -/
def good : InsertionParams := InsertionParams.ofNat ih 0 pre post [1] [[0]]

/-- the same batch with every value shifted by a multiple of `r` or made negative: the witness
is the same -/
def goodShifted : InsertionParams :=
  { inputHash := (ih : Int) - 3 * (r : Int), startIndex := 0, preRoot := (pre : Int) + (r : Int),
    postRoot := (post : Int) - (r : Int), idComms := [1 - (r : Int)], merkleProofs := [[(r : Int)]] }

/-- kernel evaluation of the acceptance predicate goes through the word-level Keccak of
`Smtb/Proofs/Keccak/Words.lean` (proved equal to the bit-level reference) -/
theorem good_accepted : circuitAcceptsInsertion 1 ih 0 pre post [1] [[0]] = true := by
  unfold circuitAcceptsInsertion
  rw [Smtb.Proofs.Keccak.keccak256_eq_W]
  decide +kernel

theorem red_good :
    red good.inputHash = ih ∧ red good.preRoot = pre ∧ red good.postRoot = post ∧
    good.idComms.map red = [1] ∧ (good.merkleProofs.map fun q => q.map red) = [[0]] := by
  decide +kernel

theorem red_goodShifted :
    red goodShifted.inputHash = ih ∧ red goodShifted.preRoot = pre ∧
    red goodShifted.postRoot = post ∧ goodShifted.idComms.map red = [1] ∧
    (goodShifted.merkleProofs.map fun q => q.map red) = [[0]] := by
  decide +kernel

/-- the valid batch is proved … -/
theorem prove_good : proveInsertion sysI good = .ok { sysId := 7, pub := ih } := by
  obtain ⟨h1, h2, h3, h4, h5⟩ := red_good
  refine (proveInsertion_ok_iff sysI rfl good _).mpr ⟨by decide, ?_, ?_⟩
  · rw [h1, h2, h3, h4, h5]; exact good_accepted
  · rw [h1]; rfl

/-- … and so is its shifted / negative presentation, with the *same* proof token -/
theorem prove_goodShifted : proveInsertion sysI goodShifted = .ok { sysId := 7, pub := ih } := by
  obtain ⟨h1, h2, h3, h4, h5⟩ := red_goodShifted
  refine (proveInsertion_ok_iff sysI rfl goodShifted _).mpr ⟨by decide, ?_, ?_⟩
  · rw [h1, h2, h3, h4, h5]; exact good_accepted
  · rw [h1]; rfl

/-- the verifier accepts `ih`, `ih + r`, `ih - 5r`; rejects `ih + 1`; the deletion system rejects -/
example : verify sysI (ih : Int) { sysId := 7, pub := ih } = true := by decide +kernel
example : verify sysI ((ih : Int) + (r : Int)) { sysId := 7, pub := ih } = true :=
  by have := verify_own_hash sysI (.insertion good) _ prove_good 1
     rw [Int.one_mul] at this; exact this
example : verify sysI ((ih : Int) + (-5) * (r : Int)) { sysId := 7, pub := ih } = true :=
  verify_own_hash sysI (.insertion good) _ prove_good (-5)
example : verify sysI ((ih : Int) + 1) { sysId := 7, pub := ih } = false := by decide +kernel
example : verify sysD (ih : Int) { sysId := 7, pub := ih } = false :=
  verify_other_system_rejects sysI sysD (.insertion good) _ prove_good (by decide) _

/-- wrong dimensions: errors of `ValidateShape`, in source order -/
example : proveInsertion sysI (InsertionParams.ofNat ih 0 pre post [1, 2] [[0], [0]]) =
    .error (.shape (.idComms 2)) := by decide
example : proveInsertion sysI (InsertionParams.ofNat ih 0 pre post [1] []) =
    .error (.shape (.merkleProofs 0)) := by decide
example : proveInsertion sysI (InsertionParams.ofNat ih 0 pre post [1] [[0, 0]]) =
    .error (.shape (.proofSize 0 2)) := by decide
example : proveDeletion sysD (DeletionParams.ofNat ih none pre post [1] [[0, 0]]) =
    .error (.shape (.deletionIndices 0)) := by decide
example : proveDeletion sysD (DeletionParams.ofNat ih (some [0]) pre post [1] [[0, 0]]) =
    .error (.shape (.proofSize 0 2)) := by decide

/-- a 33-bit start index is unprovable whatever the rest is (no Keccak evaluation needed) -/
example : proveInsertion sysI (InsertionParams.ofNat ih (2 ^ 32) pre post [1] [[0]]) =
    .error .backend := by
  rw [proveInsertion_matching sysI rfl]
  have : acceptsInsertion sysI.depth (InsertionParams.ofNat ih (2 ^ 32) pre post [1] [[0]]) = false := by
    unfold acceptsInsertion circuitAcceptsInsertion
    have : decide ((InsertionParams.ofNat ih (2 ^ 32) pre post [1] [[0]]).startIndex < 2 ^ 32) = false := by
      decide
    rw [this]; rfl
  rw [this]; rfl

end Example

end Smtb.Properties.C07

#print axioms Smtb.Properties.C07.proveInsertion_ok_iff
#print axioms Smtb.Properties.C07.proveDeletion_ok_iff
#print axioms Smtb.Properties.C07.prove_ok_iff
#print axioms Smtb.Properties.C07.prove_never_panics
#print axioms Smtb.Properties.C07.prove_error_no_proof
#print axioms Smtb.Properties.C07.prove_token
#print axioms Smtb.Properties.C07.verify_iff
#print axioms Smtb.Properties.C07.verify_own_hash
#print axioms Smtb.Properties.C07.verify_other_hash_rejects
#print axioms Smtb.Properties.C07.verify_other_system_rejects
#print axioms Smtb.Properties.C07.validateShape_guards_indexing_insertion
#print axioms Smtb.Properties.C07.validateShape_guards_indexing_deletion
#print axioms Smtb.Properties.C07.shapeErr_order_insertion
#print axioms Smtb.Properties.C07.shapeErr_order_deletion
#print axioms Smtb.Properties.C07.prove_cross_mode
#print axioms Smtb.Properties.C07.Example.good_accepted
#print axioms Smtb.Properties.C07.Example.prove_good
#print axioms Smtb.Properties.C07.Example.prove_goodShifted
