import Smtb.Properties.C03
import Smtb.Properties.C08
import Smtb.Properties.C07Link
import Smtb.Proofs.HonestHints
import Smtb.Proofs.HonestGadgets
/-!
# C03, end to end — one theorem per circuit, non-vacuity, and honest hints

Three additions requested by the audit; nothing here changes an existing statement.

## 1. End-to-end corollaries

`C03.insertionCircuit_sat_iff` states the public input as
`natOfBits (swapByteOrder (keccak256Bits (insertionHashBits …)))` (bit level, what the circuit
literally computes); C08 shows that this is the byte-level hash of the on-chain packing.  Here the
two are composed: the right-hand side mentions only

* `Pack.specHashInsertion start pre post ids = natOfBytesBE (keccak256 (packInsertion …))`
  (C08's name for "Keccak-256 of the canonical big-endian packing, read as a big-endian integer":
  4-byte index, 32-byte roots and commitments), cast into `ZMod r` (= reduced mod `r`), and
* the batch specification `Batch.insertionSpec` of C01 (resp. `deletionSpec` of C02).

`insertion_end_to_end` / `deletion_end_to_end` are the `↔`s (hypotheses: exactly those of the C03
`↔`s, i.e. only the depth bound); `insertion_public_input` / `deletion_public_input` are the
property-shaped direction "any satisfying assignment has exactly that public input".

## 2. Non-vacuity

`Example.*`: a concrete satisfiable instance (depth 1, batch 1; from `C07Link`), the value the new
corollary yields for it, and a concrete **un**satisfiable instance (same inputs, public input
`+ 1`).  `genTestParams_*_end_to_end`: for every supported dimension the parameters emitted by
`gen-test-params` inhabit the premises (from C08).

## 3. Honest hints

The `SatM` semantics quantifies the hint wires existentially; gnark's solver computes specific
values.  `Smtb/Proofs/HonestHints.lean` proves, against the gate table of `Proofs/Sat.lean`, that
the solver's values satisfy each hint gate whenever the gate is satisfiable, and in which sense
they are unique; the statements are restated below (`toBinary_*`, `isZero_*`).  It also defines
`HonM p`: the *same gate table with the two existentials instantiated by the solver's values*.
`Smtb/Proofs/HonestGadgets.lean` transfers this through every gadget.  Result, restated below for
BN254: **each of the two circuits is satisfiable iff it is satisfied by the honest hint values iff
the specification accepts** (`insertion_honest_iff`, `insertion_sat_iff_honest`, …).  Every hint
in the repository's circuits is one of these two gates (`ToBinary` in `toReducedBigEndian`,
`insertionRound`, `deletionRound`; `IsZero` in `deletionRound`; Keccak and Poseidon use none).
-/
namespace Smtb.Properties.C03EndToEnd
open Smtb Smtb.Sat Smtb.Circuit Smtb.Batch Smtb.Poseidon Smtb.Pack Smtb.Bits Smtb.Honest

/-- the field of the deployed circuits -/
abbrev r : ℕ := C03.r

/-! ## 1. End-to-end corollaries -/

/-- C08's spec-level hash, spelled out: Keccak-256 of the packing, read as a big-endian integer -/
theorem specHashInsertion_eq (start pre post : ℕ) (ids : List ℕ) :
    specHashInsertion start pre post ids =
      natOfBytesBE (KeccakRef.keccak256 (packInsertion start pre post ids)) := rfl

theorem specHashDeletion_eq (idxs : List ℕ) (pre post : ℕ) :
    specHashDeletion idxs pre post =
      natOfBytesBE (KeccakRef.keccak256 (packDeletion idxs pre post)) := rfl

/-- **the bit-level public input of C03 is the byte-level spec hash of C08, reduced mod `r`** —
for all naturals (no range hypothesis: both sides only look at the low 32 resp. 256 bits);
`C08.pack_bits_insertion` identifies the hashed strings, `Pack.natOfBytesBE_bitsToBytes` the two
readings of the digest -/
theorem insertionPublicInput_eq_specHash (start pre post : ℕ) (ids : List ℕ) :
    C03.insertionPublicInput start pre post ids =
      ((specHashInsertion start pre post ids : ℕ) : ZMod r) := by
  unfold C03.insertionPublicInput specHashInsertion hashOf KeccakRef.keccak256
  rw [bytesToBits_eq, C08.pack_bits_insertion,
    natOfBytesBE_bitsToBytes _ (by rw [keccak256Bits_length]; decide)]

theorem deletionPublicInput_eq_specHash (idxs : List ℕ) (pre post : ℕ) :
    C03.deletionPublicInput idxs pre post = ((specHashDeletion idxs pre post : ℕ) : ZMod r) := by
  unfold C03.deletionPublicInput specHashDeletion hashOf KeccakRef.keccak256
  rw [bytesToBits_eq, C08.pack_bits_deletion,
    natOfBytesBE_bitsToBytes _ (by rw [keccak256Bits_length]; decide)]

/-- **C03, insertion, end to end.**  For every depth `≤ 32`, every batch size and every
assignment of the inputs, `InsertionMbuCircuit.Define` over BN254 is satisfiable iff the start
index fits 32 bits, the public input is Keccak-256 of the canonical big-endian packing of the
batch (canonical representatives `x.val` of start index, roots, commitments) reduced mod `r`, and
the batch specification of C01 holds. -/
theorem insertion_end_to_end (d : ℕ) (hd : d ≤ 32) (ih start pre post : ZMod r)
    (ids : List (ZMod r)) (proofs : List (List (ZMod r))) :
    (insertionCircuit r d ih start pre post ids proofs : SatM r Unit) (fun _ => True) ↔
      start.val < 2 ^ 32 ∧
      ih = ((specHashInsertion start.val pre.val post.val (ids.map ZMod.val) : ℕ) : ZMod r) ∧
      insertionSpec (poseidonH r) 0 ZMod.val (fun s j => s + (j : ZMod r)) d start 0 pre ids proofs
        = some post := by
  rw [C03.insertionCircuit_sat_iff d hd, insertionPublicInput_eq_specHash]

/-- **C03, deletion, end to end**, depth `≤ 31`. -/
theorem deletion_end_to_end (d : ℕ) (hd : d ≤ 31) (ih : ZMod r) (idxs : List (ZMod r))
    (pre post : ZMod r) (ids : List (ZMod r)) (proofs : List (List (ZMod r))) :
    (deletionCircuit r d ih idxs pre post ids proofs : SatM r Unit) (fun _ => True) ↔
      (∀ i ∈ idxs, i.val < 2 ^ 32) ∧
      ih = ((specHashDeletion (idxs.map ZMod.val) pre.val post.val : ℕ) : ZMod r) ∧
      deletionSpec (poseidonH r) 0 ZMod.val d pre idxs ids proofs = some post := by
  rw [C03.deletionCircuit_sat_iff d hd, deletionPublicInput_eq_specHash]

/-- **Property C03 (insertion)**: any satisfying assignment has exactly this public input. -/
theorem insertion_public_input (d : ℕ) (hd : d ≤ 32) (ih start pre post : ZMod r)
    (ids : List (ZMod r)) (proofs : List (List (ZMod r)))
    (h : (insertionCircuit r d ih start pre post ids proofs : SatM r Unit) (fun _ => True)) :
    ih = ((specHashInsertion start.val pre.val post.val (ids.map ZMod.val) : ℕ) : ZMod r) :=
  ((insertion_end_to_end d hd ih start pre post ids proofs).mp h).2.1

/-- **Property C03 (deletion)**. -/
theorem deletion_public_input (d : ℕ) (hd : d ≤ 31) (ih : ZMod r) (idxs : List (ZMod r))
    (pre post : ZMod r) (ids : List (ZMod r)) (proofs : List (List (ZMod r)))
    (h : (deletionCircuit r d ih idxs pre post ids proofs : SatM r Unit) (fun _ => True)) :
    ih = ((specHashDeletion (idxs.map ZMod.val) pre.val post.val : ℕ) : ZMod r) :=
  ((deletion_end_to_end d hd ih idxs pre post ids proofs).mp h).2.1

/-- "reduced mod `r`", on representatives -/
theorem insertion_public_input_val (d : ℕ) (hd : d ≤ 32) (ih start pre post : ZMod r)
    (ids : List (ZMod r)) (proofs : List (List (ZMod r)))
    (h : (insertionCircuit r d ih start pre post ids proofs : SatM r Unit) (fun _ => True)) :
    ih.val = specHashInsertion start.val pre.val post.val (ids.map ZMod.val) % r := by
  rw [insertion_public_input d hd ih start pre post ids proofs h, ZMod.val_natCast]

theorem deletion_public_input_val (d : ℕ) (hd : d ≤ 31) (ih : ZMod r) (idxs : List (ZMod r))
    (pre post : ZMod r) (ids : List (ZMod r)) (proofs : List (List (ZMod r)))
    (h : (deletionCircuit r d ih idxs pre post ids proofs : SatM r Unit) (fun _ => True)) :
    ih.val = specHashDeletion (idxs.map ZMod.val) pre.val post.val % r := by
  rw [deletion_public_input d hd ih idxs pre post ids proofs h, ZMod.val_natCast]

/-- the same value is what the off-chain helper `ComputeInputHashInsertion` returns on the
canonical representatives (composition with `C08.helper_hash_is_spec_hash_insertion`; its range
hypotheses hold because representatives are `< r < 2^256`) -/
theorem insertion_public_input_is_helper_hash (d : ℕ) (hd : d ≤ 32) (ih start pre post : ZMod r)
    (ids : List (ZMod r)) (proofs : List (List (ZMod r)))
    (h : (insertionCircuit r d ih start pre post ids proofs : SatM r Unit) (fun _ => True)) :
    ∃ hh, inputHashInsertion start.val pre.val post.val (ids.map ZMod.val) = some hh ∧
      ih = ((hh : ℕ) : ZMod r) := by
  refine ⟨_, C08.helper_hash_is_spec_hash_insertion _ _ _ _ (C03.val_lt_256 _) (C03.val_lt_256 _)
    ?_, insertion_public_input d hd ih start pre post ids proofs h⟩
  intro x hx
  obtain ⟨y, _, rfl⟩ := List.mem_map.mp hx
  exact C03.val_lt_256 y

theorem deletion_public_input_is_helper_hash (d : ℕ) (hd : d ≤ 31) (ih : ZMod r)
    (idxs : List (ZMod r)) (pre post : ZMod r) (ids : List (ZMod r))
    (proofs : List (List (ZMod r)))
    (h : (deletionCircuit r d ih idxs pre post ids proofs : SatM r Unit) (fun _ => True)) :
    ∃ hh, inputHashDeletion (idxs.map ZMod.val) pre.val post.val = some hh ∧
      ih = ((hh : ℕ) : ZMod r) :=
  ⟨_, C08.helper_hash_is_spec_hash_deletion _ _ _ (C03.val_lt_256 _) (C03.val_lt_256 _),
    deletion_public_input d hd ih idxs pre post ids proofs h⟩

/-- consequence of the `↔`: shifting the public input of a satisfiable instance by any `δ ≠ 0`
(whatever the sibling paths) gives an unsatisfiable instance -/
theorem insertion_shifted_hash_unsat (d : ℕ) (hd : d ≤ 32) (ih start pre post : ZMod r)
    (ids : List (ZMod r)) (proofs proofs' : List (List (ZMod r))) (δ : ZMod r) (hδ : δ ≠ 0)
    (h : (insertionCircuit r d ih start pre post ids proofs : SatM r Unit) (fun _ => True)) :
    ¬ (insertionCircuit r d (ih + δ) start pre post ids proofs' : SatM r Unit) (fun _ => True) := by
  intro h'
  have e := insertion_public_input d hd ih start pre post ids proofs h
  have e' := insertion_public_input d hd (ih + δ) start pre post ids proofs' h'
  rw [← e] at e'
  exact hδ (add_left_cancel (a := ih) (by rw [e', add_zero]))

theorem deletion_shifted_hash_unsat (d : ℕ) (hd : d ≤ 31) (ih : ZMod r) (idxs : List (ZMod r))
    (pre post : ZMod r) (ids ids' : List (ZMod r)) (proofs proofs' : List (List (ZMod r)))
    (δ : ZMod r) (hδ : δ ≠ 0)
    (h : (deletionCircuit r d ih idxs pre post ids proofs : SatM r Unit) (fun _ => True)) :
    ¬ (deletionCircuit r d (ih + δ) idxs pre post ids' proofs' : SatM r Unit) (fun _ => True) := by
  intro h'
  have e := deletion_public_input d hd ih idxs pre post ids proofs h
  have e' := deletion_public_input d hd (ih + δ) idxs pre post ids' proofs' h'
  rw [← e] at e'
  exact hδ (add_left_cancel (a := ih) (by rw [e', add_zero]))

/-! ## 2. Non-vacuity -/

namespace Example
open C07.Example

/-- **a concrete satisfiable instance** over BN254: empty depth-1 tree, identity `1` inserted at
index 0 (`pre = H(0,0)`, `post = H(1,0)`, `ih` = the 77-digit literal of `C07.Example`); this is
`C07Link.Example.good_circuit_satisfiable` -/
theorem satisfiable :
    (insertionCircuit r 1 (ih : ZMod r) ((0 : ℕ) : ZMod r) (pre : ZMod r) (post : ZMod r)
      ([1].map (Nat.cast : ℕ → ZMod r)) ([[0]].map (List.map (Nat.cast : ℕ → ZMod r)))
      : SatM r Unit) (fun _ => True) :=
  C07Link.Example.good_circuit_satisfiable

/-- … so the premise of `insertion_public_input` is inhabited; its conclusion on this instance:
the literal `ih` is, mod `r`, Keccak-256 of the 100-byte packing `0x00000000 ‖ pre ‖ post ‖ 1` -/
theorem public_input :
    ((ih : ℕ) : ZMod r) = ((specHashInsertion 0 pre post [1] : ℕ) : ZMod r) := by
  have h := insertion_public_input 1 (by decide) _ _ _ _ _ _ satisfiable
  have hpre : ((pre : ℕ) : ZMod r).val = pre := C08.val_cast_of_lt (by decide)
  have hpost : ((post : ℕ) : ZMod r).val = post := C08.val_cast_of_lt (by decide)
  have hids : ([1].map (Nat.cast : ℕ → ZMod r)).map ZMod.val = [1] :=
    C08.map_val_cast [1] (by decide)
  rwa [hpre, hpost, hids, Nat.cast_zero, ZMod.val_zero] at h

/-- the three conjuncts of `insertion_end_to_end` on this instance -/
example : ((0 : ℕ) : ZMod r).val < 2 ^ 32 ∧
    ((ih : ℕ) : ZMod r) = ((specHashInsertion ((0 : ℕ) : ZMod r).val ((pre : ℕ) : ZMod r).val
      ((post : ℕ) : ZMod r).val (([1].map (Nat.cast : ℕ → ZMod r)).map ZMod.val) : ℕ) : ZMod r) ∧
    insertionSpec (poseidonH r) 0 ZMod.val (fun s j => s + (j : ZMod r)) 1 ((0 : ℕ) : ZMod r) 0
      (pre : ZMod r) ([1].map (Nat.cast : ℕ → ZMod r))
      ([[0]].map (List.map (Nat.cast : ℕ → ZMod r))) = some (post : ZMod r) :=
  (insertion_end_to_end 1 (by decide) _ _ _ _ _ _).mp satisfiable

/-- **a concrete unsatisfiable instance**: the same inputs with the public input `ih + 1`,
whatever the sibling paths — derived from the `↔` -/
theorem unsatisfiable (proofs' : List (List (ZMod r))) :
    ¬ (insertionCircuit r 1 ((ih : ZMod r) + 1) ((0 : ℕ) : ZMod r) (pre : ZMod r) (post : ZMod r)
      ([1].map (Nat.cast : ℕ → ZMod r)) proofs' : SatM r Unit) (fun _ => True) :=
  insertion_shifted_hash_unsat 1 (by decide) _ _ _ _ _ _ proofs' 1 one_ne_zero satisfiable

/-- in particular with the very same sibling paths -/
example :
    ¬ (insertionCircuit r 1 ((ih : ZMod r) + 1) ((0 : ℕ) : ZMod r) (pre : ZMod r) (post : ZMod r)
      ([1].map (Nat.cast : ℕ → ZMod r)) ([[0]].map (List.map (Nat.cast : ℕ → ZMod r)))
      : SatM r Unit) (fun _ => True) :=
  unsatisfiable _

/-- … and the right-hand side of the `↔` fails exactly at the hash conjunct -/
example : ((ih : ZMod r) + 1) ≠ ((specHashInsertion 0 pre post [1] : ℕ) : ZMod r) := by
  rw [← public_input]
  intro h
  exact one_ne_zero (add_left_cancel (a := (ih : ZMod r)) (by rw [h, add_zero]))

end Example

/-- **`gen-test-params --mode insertion`, every supported dimension** (`d ≤ 32`, `b ≤ 2^d`): the
emitted parameters satisfy the circuit (`C08.genTestParams_insertion_provable`), and the emitted
input hash *is* the spec hash of the emitted batch — as an instance of `insertion_public_input`
modulo `r`, and (from C08) even as a natural number. -/
theorem genTestParams_insertion_end_to_end (d b : ℕ) (hd : d ≤ 32) (hb : b ≤ 2 ^ d) :
    ∃ ih, genInsertionHash d b = some ih ∧
      (insertionCircuit r d ((ih : ℕ) : ZMod r)
        (((genInsertion d b).startIndex : ℕ) : ZMod r)
        (((genInsertion d b).preRoot : ℕ) : ZMod r)
        (((genInsertion d b).postRoot : ℕ) : ZMod r)
        ((genInsertion d b).idComms.map fun x => ((x : ℕ) : ZMod r))
        ((genInsertion d b).merkleProofs.map (List.map fun x => ((x : ℕ) : ZMod r)))
        : SatM r Unit) (fun _ => True) ∧
      ((ih : ℕ) : ZMod r) = ((specHashInsertion 0 (genInsertion d b).preRoot
        (genInsertion d b).postRoot (genInsertion d b).idComms : ℕ) : ZMod r) := by
  obtain ⟨ih, hih, hsat⟩ := C08.genTestParams_insertion_provable d b hd hb
  refine ⟨ih, hih, hsat, ?_⟩
  have h := insertion_public_input d hd _ _ _ _ _ _ hsat
  have hdr : 2 ^ d ≤ bn254r := (C03.depth_ok d hd).1
  obtain ⟨h1, h2, -⟩ := C08.genTestParams_insertion_valid d b hb hdr
  have h2d : 2 ^ d ≤ 2 ^ 32 := Nat.pow_le_pow_right (by norm_num) hd
  have h32 := C08.two_pow_32_lt_r
  obtain ⟨hpre, hpost⟩ := C08.genInsertion_roots_lt d b (by omega)
  have hids : ∀ x ∈ (genInsertion d b).idComms, x < bn254r := by
    rw [h2]
    intro x hx
    obtain ⟨i, hi, rfl⟩ := List.mem_map.mp hx
    have := List.mem_range.mp hi
    show i + 1 < bn254r
    omega
  rwa [h1, C08.val_cast_of_lt hpre, C08.val_cast_of_lt hpost, C08.map_val_cast _ hids,
    Nat.cast_zero, ZMod.val_zero] at h

/-- **`gen-test-params --mode deletion`, every supported dimension** (`d ≤ 31`, `2b ≤ 2^d`). -/
theorem genTestParams_deletion_end_to_end (d b : ℕ) (hd : d ≤ 31) (hb : 2 * b ≤ 2 ^ d) :
    ∃ ih, genDeletionHash d b = some ih ∧
      (deletionCircuit r d ((ih : ℕ) : ZMod r)
        ((genDeletion d b).deletionIndices.map fun x => ((x : ℕ) : ZMod r))
        (((genDeletion d b).preRoot : ℕ) : ZMod r)
        (((genDeletion d b).postRoot : ℕ) : ZMod r)
        ((genDeletion d b).idComms.map fun x => ((x : ℕ) : ZMod r))
        ((genDeletion d b).merkleProofs.map (List.map fun x => ((x : ℕ) : ZMod r)))
        : SatM r Unit) (fun _ => True) ∧
      ((ih : ℕ) : ZMod r) = ((specHashDeletion (genDeletion d b).deletionIndices
        (genDeletion d b).preRoot (genDeletion d b).postRoot : ℕ) : ZMod r) := by
  obtain ⟨ih, hih, hsat⟩ := C08.genTestParams_deletion_provable d b hd hb
  refine ⟨ih, hih, hsat, ?_⟩
  have h := deletion_public_input d hd _ _ _ _ _ _ hsat
  have hdr : 2 ^ d ≤ bn254r := (C03.depth_ok d (by omega)).1
  obtain ⟨h1, -⟩ := C08.genTestParams_deletion_valid d b hb hdr
  have h2d : 2 ^ d ≤ 2 ^ 31 := Nat.pow_le_pow_right (by norm_num) hd
  have h32 := C08.two_pow_32_lt_r
  obtain ⟨hpre, hpost⟩ := C08.genDeletion_roots_lt d b (by omega)
  have hidx : ∀ x ∈ (genDeletion d b).deletionIndices, x < bn254r := by
    rw [h1]
    intro x hx
    obtain ⟨i, hi, rfl⟩ := List.mem_map.mp hx
    have := List.mem_range.mp hi
    show 2 * i < bn254r
    omega
  rwa [C08.val_cast_of_lt hpre, C08.val_cast_of_lt hpost, C08.map_val_cast _ hidx] at h

/-- a concrete non-trivial member of that family: depth 3, batch 5 (insertion), depth 3, batch 4
(deletion) -/
example : ∃ ih, genInsertionHash 3 5 = some ih ∧
    ((ih : ℕ) : ZMod r) = ((specHashInsertion 0 (genInsertion 3 5).preRoot
      (genInsertion 3 5).postRoot (genInsertion 3 5).idComms : ℕ) : ZMod r) := by
  obtain ⟨ih, h1, -, h3⟩ := genTestParams_insertion_end_to_end 3 5 (by decide) (by decide)
  exact ⟨ih, h1, h3⟩

example : ∃ ih, genDeletionHash 3 4 = some ih ∧
    ((ih : ℕ) : ZMod r) = ((specHashDeletion (genDeletion 3 4).deletionIndices
      (genDeletion 3 4).preRoot (genDeletion 3 4).postRoot : ℕ) : ZMod r) := by
  obtain ⟨ih, h1, -, h3⟩ := genTestParams_deletion_end_to_end 3 4 (by decide) (by decide)
  exact ⟨ih, h1, h3⟩

/-! ## 3. Honest hints

### the two hint gates (every prime field) -/

section gates
variable {p : ℕ} [Fact p.Prime]

/-- **(i) `ToBinary(x, n)`, the honest hint satisfies the gate.**  If the canonical representative
fits `n` bits, the constraint system of the gate (length, booleanity, recomposition) holds of
`honestBits x n = [embed (x.val.testBit i) | i < n]`, i.e. the existential of
`Sat.toBinary_def` is witnessed by exactly the bits `bits.NBits` writes. -/
theorem toBinary_honest_witness (x : ZMod p) (n : ℕ) (hx : x.val < 2 ^ n) :
    honestBits x n = (List.range n).map (fun i => embed (x.val.testBit i)) ∧
    (honestBits x n).length = n ∧ (∀ b ∈ honestBits x n, isBool b) ∧
      recompose (honestBits x n) = x ∧
    ∀ k : List (ZMod p) → Prop, k (honestBits x n) → (CircuitApi.toBinary x n : SatM p _) k := by
  have : NeZero p := ⟨(Fact.out : p.Prime).ne_zero⟩
  obtain ⟨h1, h2, h3⟩ := toBinary_honest_constraints x n hx
  exact ⟨rfl, h1, h2, h3, fun k hk => toBinary_honest x n hx k hk⟩

/-- the hypothesis `x.val < 2^n` is no restriction: it is *equivalent* to satisfiability of the
gate, for every width — so **the honest values satisfy the gate whenever it is satisfiable** -/
theorem toBinary_satisfiable_iff_fits (x : ZMod p) (n : ℕ) :
    (CircuitApi.toBinary x n : SatM p _) (fun _ => True) ↔ x.val < 2 ^ n :=
  toBinary_satisfiable_iff x n

theorem toBinary_honest_whenever_satisfiable (x : ZMod p) (n : ℕ)
    (h : (CircuitApi.toBinary x n : SatM p _) (fun _ => True)) :
    (honestBits x n).length = n ∧ (∀ b ∈ honestBits x n, isBool b) ∧
      recompose (honestBits x n) = x :=
  toBinary_honest_of_satisfiable x n h

/-- **(i), uniqueness.**  Conversely any witness equals the honest bits, under the side condition
the existing lemmas use (`Smtb.canonical_bits_iff`): the width is below the modulus' bit length
(Merkle gadgets: `depth + 1 ≤ 32 < 254`), or the witness denotes a number `< p` — which is what
`ReducedModRCheck` enforces (`C06.reducedModRCheck_sat`) for the 256-bit calls. -/
theorem toBinary_unique (x : ZMod p) (n : ℕ) (bits : List (ZMod p))
    (hl : bits.length = n) (hb : ∀ b ∈ bits, isBool b) (hr : recompose bits = x)
    (hred : n < bitLen p ∨ ∃ bs : List Bool, bits = bs.map embed ∧ natOfBits bs < p) :
    bits = honestBits x n :=
  toBinary_witness_unique x n bits hl hb hr hred

/-- the same with the hypothesis of `Sat.toBinary_iff` -/
theorem toBinary_unique_of_le (x : ZMod p) (n : ℕ) (hn : 2 ^ n ≤ p) (bits : List (ZMod p))
    (hl : bits.length = n) (hb : ∀ b ∈ bits, isBool b) (hr : recompose bits = x) :
    bits = honestBits x n :=
  toBinary_witness_unique' x n hn bits hl hb hr

/-- **(ii) `IsZero(x)`, the honest hint satisfies the gate** (which is always satisfiable): with
auxiliary `honestInv x = x⁻¹` (`0` for `x = 0`) and result `honestIsZero x = 1 - x * x⁻¹`. -/
theorem isZero_honest_witness (x : ZMod p) :
    honestInv x = x⁻¹ ∧ honestInv (0 : ZMod p) = 0 ∧
    honestIsZero x = 1 - x * honestInv x ∧ x * honestIsZero x = 0 ∧
    honestIsZero x = (if x = 0 then 1 else 0) ∧
    ∀ k : ZMod p → Prop, k (honestIsZero x) → (CircuitApi.isZero x : SatM p _) k :=
  ⟨rfl, honestInv_zero, (isZero_honest_constraints x).1, (isZero_honest_constraints x).2,
    honestIsZero_eq x, fun k hk => isZero_honest x k hk⟩

/-- **(ii), uniqueness**: every witness `(aux, m)` of the gate has the honest output `m`, and the
honest auxiliary wherever the constraints mention it (`x ≠ 0`). -/
theorem isZero_unique (x aux m : ZMod p) (hm : m = 1 - x * aux) (hxm : x * m = 0) :
    m = honestIsZero x ∧ (x ≠ 0 → aux = honestInv x) :=
  isZero_witness_unique x aux m hm hxm

/-! ### gadgets that contain a hint, with the hint instantiated

`(g : HonM p α) k` reads: "with every hint wire of `g` set to the value gnark's solver computes,
all constraints of `g` hold and `k` holds of the result" — no existential quantifier is left in
the gate table `Honest.honApi`. -/

/-- **`ToReducedBigEndian` with the honest `ToBinary` bits**, every width (also 256 > 254 bits):
if (and only if) the specification accepts — `v.val` fits — the gadget's constraints, including
`ReducedModRCheck`, hold *of the honest bits*, and the output is the byte-swapped bit string. -/
theorem toReducedBigEndian_honest (v : ZMod p) (n : ℕ) (k : List (ZMod p) → Prop) :
    (toReducedBigEndian p v n : HonM p _) k ↔
      v.val < 2 ^ n ∧ k (swapByteOrder ((Merkle.bitsLE n v.val).map embed)) :=
  toReducedBigEndian_hon v n k

/-- the same with the existential opened by hand instead of `HonM`: the honest bit list passes
every constraint group of the gadget -/
theorem toReducedBigEndian_honest_explicit (v : ZMod p) (n : ℕ) (hv : v.val < 2 ^ n) :
    (honestBits v n).length = n ∧ (∀ b ∈ honestBits v n, isBool b) ∧
      recompose (honestBits v n) = v ∧
      (reducedModRCheck p (honestBits v n) : SatM p Unit) (fun _ => True) ∧
      swapByteOrder (honestBits v n) = swapByteOrder ((Merkle.bitsLE n v.val).map embed) := by
  have : NeZero p := ⟨(Fact.out : p.Prime).ne_zero⟩
  obtain ⟨h1, h2, h3⟩ := toBinary_honest_constraints v n hv
  refine ⟨h1, h2, h3, ?_, by rw [honestBits_eq]⟩
  rw [honestBits_eq, C06.reducedModRCheck_embed, reducedOk_iff]
  refine ⟨Or.inr ?_, trivial⟩
  rw [Smtb.natOfBits_bitsLE, Nat.mod_eq_of_lt hv]
  exact ZMod.val_lt v

/-- **`InsertionRound` (Poseidon tree) with the honest `ToBinary(index, depth)` bits**: if (and only
if) the specification of the round accepts, all constraints hold of the honest values. -/
theorem insertionRound_honest (d : ℕ) (hd : 2 ^ d ≤ p) (idx item prev : ZMod p)
    (proof : List (ZMod p)) (k : ZMod p → Prop) :
    (insertionRound Circuit.Poseidon.poseidon2 d idx item prev proof : HonM p _) k ↔
      idx.val < 2 ^ d ∧
      Merkle.recover (poseidonH p) 0 proof (Merkle.bitsLE d idx.val) = prev ∧
      k (Merkle.recover (poseidonH p) item proof (Merkle.bitsLE d idx.val)) := by
  have h := insertionRound_toSat (p := p) Circuit.Poseidon.poseidon2 d hd idx item prev proof
  simp only [poseidon2_toSat] at h
  rw [← insertionRound_iff Circuit.Poseidon.poseidon2 (poseidonH p) poseidon2_hH d hd, ← h]
  rfl

/-- **`DeletionRound` with the honest `ToBinary(index, depth+1)` bits and the honest `IsZero`
inverse.** -/
theorem deletionRound_honest (d : ℕ) (hd : 2 ^ (d + 1) ≤ p) (root idx item : ZMod p)
    (proof : List (ZMod p)) (k : ZMod p → Prop) :
    (deletionRound Circuit.Poseidon.poseidon2 d root idx item proof : HonM p _) k ↔
      (idx.val < 2 ^ d ∧
          Merkle.recover (poseidonH p) item proof (Merkle.bitsLE d idx.val) = root ∧
          k (Merkle.recover (poseidonH p) 0 proof (Merkle.bitsLE d idx.val)))
      ∨ (2 ^ d ≤ idx.val ∧ idx.val < 2 ^ (d + 1) ∧ k root) := by
  have h := deletionRound_toSat (p := p) Circuit.Poseidon.poseidon2 d hd root idx item proof
  simp only [poseidon2_toSat] at h
  rw [← deletionRound_iff Circuit.Poseidon.poseidon2 (poseidonH p) poseidon2_hH d hd, ← h]
  rfl

end gates

/-! ### the two full circuits over BN254 -/

/-- **insertion: satisfiable ⇔ satisfied by the honest hint values** -/
theorem insertion_sat_iff_honest (d : ℕ) (hd : d ≤ 32) (ih start pre post : ZMod r)
    (ids : List (ZMod r)) (proofs : List (List (ZMod r))) :
    (insertionCircuit r d ih start pre post ids proofs : SatM r Unit) (fun _ => True) ↔
      (insertionCircuit r d ih start pre post ids proofs : HonM r Unit) (fun _ => True) :=
  (insertionCircuit_hon_iff_sat d (C03.depth_ok d hd).1 ih start pre post ids proofs _).symm

/-- **deletion: satisfiable ⇔ satisfied by the honest hint values** -/
theorem deletion_sat_iff_honest (d : ℕ) (hd : d ≤ 31) (ih : ZMod r) (idxs : List (ZMod r))
    (pre post : ZMod r) (ids : List (ZMod r)) (proofs : List (List (ZMod r))) :
    (deletionCircuit r d ih idxs pre post ids proofs : SatM r Unit) (fun _ => True) ↔
      (deletionCircuit r d ih idxs pre post ids proofs : HonM r Unit) (fun _ => True) :=
  (deletionCircuit_hon_iff_sat d (C03.depth_ok d (by omega)).2 ih idxs pre post ids proofs _).symm

/-- **insertion, end to end, honest hints**: the specification accepts iff the circuit is satisfied
*by the honest hint values*. -/
theorem insertion_honest_iff (d : ℕ) (hd : d ≤ 32) (ih start pre post : ZMod r)
    (ids : List (ZMod r)) (proofs : List (List (ZMod r))) :
    (insertionCircuit r d ih start pre post ids proofs : HonM r Unit) (fun _ => True) ↔
      start.val < 2 ^ 32 ∧
      ih = ((specHashInsertion start.val pre.val post.val (ids.map ZMod.val) : ℕ) : ZMod r) ∧
      insertionSpec (poseidonH r) 0 ZMod.val (fun s j => s + (j : ZMod r)) d start 0 pre ids proofs
        = some post := by
  rw [← insertion_sat_iff_honest d hd, insertion_end_to_end d hd]

/-- **deletion, end to end, honest hints.** -/
theorem deletion_honest_iff (d : ℕ) (hd : d ≤ 31) (ih : ZMod r) (idxs : List (ZMod r))
    (pre post : ZMod r) (ids : List (ZMod r)) (proofs : List (List (ZMod r))) :
    (deletionCircuit r d ih idxs pre post ids proofs : HonM r Unit) (fun _ => True) ↔
      (∀ i ∈ idxs, i.val < 2 ^ 32) ∧
      ih = ((specHashDeletion (idxs.map ZMod.val) pre.val post.val : ℕ) : ZMod r) ∧
      deletionSpec (poseidonH r) 0 ZMod.val d pre idxs ids proofs = some post := by
  rw [← deletion_sat_iff_honest d hd, deletion_end_to_end d hd]

/-- the requested direction, on its own: **if the specification accepts, the circuit is satisfied
by the honest hint values** -/
theorem insertion_spec_accepts_honest (d : ℕ) (hd : d ≤ 32) (start pre post : ZMod r)
    (ids : List (ZMod r)) (proofs : List (List (ZMod r))) (hs : start.val < 2 ^ 32)
    (hspec : insertionSpec (poseidonH r) 0 ZMod.val (fun s j => s + (j : ZMod r)) d start 0 pre ids
      proofs = some post) :
    (insertionCircuit r d
      ((specHashInsertion start.val pre.val post.val (ids.map ZMod.val) : ℕ) : ZMod r)
      start pre post ids proofs : HonM r Unit) (fun _ => True) :=
  (insertion_honest_iff d hd _ start pre post ids proofs).mpr ⟨hs, rfl, hspec⟩

theorem deletion_spec_accepts_honest (d : ℕ) (hd : d ≤ 31) (idxs : List (ZMod r))
    (pre post : ZMod r) (ids : List (ZMod r)) (proofs : List (List (ZMod r)))
    (hi : ∀ i ∈ idxs, i.val < 2 ^ 32)
    (hspec : deletionSpec (poseidonH r) 0 ZMod.val d pre idxs ids proofs = some post) :
    (deletionCircuit r d ((specHashDeletion (idxs.map ZMod.val) pre.val post.val : ℕ) : ZMod r)
      idxs pre post ids proofs : HonM r Unit) (fun _ => True) :=
  (deletion_honest_iff d hd _ idxs pre post ids proofs).mpr ⟨hi, rfl, hspec⟩

/-- non-vacuity of the honest reading: the concrete instance of §2 is satisfied by the honest hint
values, and the `ih + 1` instance is not -/
theorem Example.satisfiable_honest :
    (insertionCircuit r 1 (C07.Example.ih : ZMod r) ((0 : ℕ) : ZMod r) (C07.Example.pre : ZMod r)
      (C07.Example.post : ZMod r) ([1].map (Nat.cast : ℕ → ZMod r))
      ([[0]].map (List.map (Nat.cast : ℕ → ZMod r))) : HonM r Unit) (fun _ => True) :=
  (insertion_sat_iff_honest 1 (by decide) _ _ _ _ _ _).mp Example.satisfiable

theorem Example.unsatisfiable_honest (proofs' : List (List (ZMod r))) :
    ¬ (insertionCircuit r 1 ((C07.Example.ih : ZMod r) + 1) ((0 : ℕ) : ZMod r)
      (C07.Example.pre : ZMod r) (C07.Example.post : ZMod r) ([1].map (Nat.cast : ℕ → ZMod r))
      proofs' : HonM r Unit) (fun _ => True) :=
  fun h => Example.unsatisfiable proofs' ((insertion_sat_iff_honest 1 (by decide) _ _ _ _ _ _).mpr h)

end Smtb.Properties.C03EndToEnd

#print axioms Smtb.Properties.C03EndToEnd.insertionPublicInput_eq_specHash
#print axioms Smtb.Properties.C03EndToEnd.deletionPublicInput_eq_specHash
#print axioms Smtb.Properties.C03EndToEnd.insertion_end_to_end
#print axioms Smtb.Properties.C03EndToEnd.deletion_end_to_end
#print axioms Smtb.Properties.C03EndToEnd.insertion_public_input
#print axioms Smtb.Properties.C03EndToEnd.deletion_public_input
#print axioms Smtb.Properties.C03EndToEnd.insertion_public_input_val
#print axioms Smtb.Properties.C03EndToEnd.deletion_public_input_val
#print axioms Smtb.Properties.C03EndToEnd.insertion_public_input_is_helper_hash
#print axioms Smtb.Properties.C03EndToEnd.deletion_public_input_is_helper_hash
#print axioms Smtb.Properties.C03EndToEnd.insertion_shifted_hash_unsat
#print axioms Smtb.Properties.C03EndToEnd.deletion_shifted_hash_unsat
#print axioms Smtb.Properties.C03EndToEnd.Example.satisfiable
#print axioms Smtb.Properties.C03EndToEnd.Example.public_input
#print axioms Smtb.Properties.C03EndToEnd.Example.unsatisfiable
#print axioms Smtb.Properties.C03EndToEnd.genTestParams_insertion_end_to_end
#print axioms Smtb.Properties.C03EndToEnd.genTestParams_deletion_end_to_end
#print axioms Smtb.Properties.C03EndToEnd.toBinary_honest_witness
#print axioms Smtb.Properties.C03EndToEnd.toBinary_satisfiable_iff_fits
#print axioms Smtb.Properties.C03EndToEnd.toBinary_honest_whenever_satisfiable
#print axioms Smtb.Properties.C03EndToEnd.toBinary_unique
#print axioms Smtb.Properties.C03EndToEnd.toBinary_unique_of_le
#print axioms Smtb.Properties.C03EndToEnd.isZero_honest_witness
#print axioms Smtb.Properties.C03EndToEnd.isZero_unique
#print axioms Smtb.Properties.C03EndToEnd.toReducedBigEndian_honest
#print axioms Smtb.Properties.C03EndToEnd.toReducedBigEndian_honest_explicit
#print axioms Smtb.Properties.C03EndToEnd.insertionRound_honest
#print axioms Smtb.Properties.C03EndToEnd.deletionRound_honest
#print axioms Smtb.Properties.C03EndToEnd.insertion_sat_iff_honest
#print axioms Smtb.Properties.C03EndToEnd.deletion_sat_iff_honest
#print axioms Smtb.Properties.C03EndToEnd.insertion_honest_iff
#print axioms Smtb.Properties.C03EndToEnd.deletion_honest_iff
#print axioms Smtb.Properties.C03EndToEnd.insertion_spec_accepts_honest
#print axioms Smtb.Properties.C03EndToEnd.deletion_spec_accepts_honest
#print axioms Smtb.Properties.C03EndToEnd.Example.satisfiable_honest
#print axioms Smtb.Properties.C03EndToEnd.Example.unsatisfiable_honest
