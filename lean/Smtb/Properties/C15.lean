import Smtb.Proofs.File
/-!
# C15 — truncated proving-system files are rejected

*Reading any strict prefix of a valid proving-system file fails with an error in both file formats;
it never yields a system the caller could go on to serve with.*

Model: `Smtb/Model/File.lean`.  The theorems hold for ALL systems and ALL codecs satisfying
`Codecs.H1` (round trip) and `Codecs.H2` (every strict prefix of a section encoding is rejected by the
section decoder).  `depth, batch < 2^32` is NOT needed here.

About the "cut exactly at a section boundary" corner: the next section decoder then sees the empty
input.  No extra hypothesis "encodings are non-empty" is needed: if the next section's encoding is
non-empty, `[]` is a strict prefix of it and H2 applies; if it is empty, H1 (with `rest := []`)
makes its decoder succeed on `[]` without consuming anything, and the cut is really inside (or at the
start of) the section after it.  The proof case-splits on `k < 8 + |pk|`, `k < 8 + |pk| + |vk|`
accordingly.  (For gnark the encodings are of course non-empty: the proving key starts with the
domain's cardinality (8 bytes), the verifying key with the G1 point alpha, the CBOR constraint system
with a map header.)

## `ReadSystemFromFile` returns a non-nil system together with the error

`ReadSystemFromFile` (marshal.go:385) does `ps = new(ProvingSystem)` BEFORE opening the file and uses
named results, so on every error path (open failure, truncated header, truncated key, …) it returns
a non-nil, partially filled `*ProvingSystem` (e.g. `TreeDepth`/`BatchSize` set, `ProvingKey` allocated
but incomplete, `ConstraintSystem == nil`) TOGETHER with `err != nil`.  The model's `read` returns
`Except Err System`: an error carries no system (`read_error_no_system`), which is faithful only for
callers that check `err` before touching `ps`.  All call sites in main.go do
(`ps, err := prover.ReadSystemFromFile(..); if err != nil { return err }`):

* main.go:169 `export-solidity`     * main.go:195 `export-vk`
* main.go:296 `start`               * main.go:401 `prove`
* main.go:457 `verify`              * main.go:530 `convert-to-raw`

(`ReadSystemFromS3` in the same file follows the same pattern.)  A future caller that ignored `err`
would get a half-initialised system; nothing in the type prevents that.
-/
namespace Smtb.File

section
variable {PK VK CS : Type} (c : Codecs PK VK CS)

/-- sharp form: reading the first `k` bytes of a file fails, and it fails in the stage computed from
the section lengths by `cutStage` (the function the driver's `cut` command prints) -/
theorem readStaged_take (h1 : c.H1) (h2 : c.H2) (fmt : Format) (ps : System PK VK CS) (k : Nat)
    (hk : k < (write c fmt ps).length) :
    ∃ e, readStaged c ((write c fmt ps).take k) =
      .error (cutStage (encPK c fmt ps.pk).length (encVK c fmt ps.vk).length
        (c.cs.enc ps.cs).length k, e) :=
  readStaged_take_write c h1 h2 fmt ps k hk

/-- C15: every strict prefix (by length) of a valid file, in either format, is rejected -/
theorem read_strict_prefix_fails (h1 : c.H1) (h2 : c.H2) (fmt : Format) (ps : System PK VK CS) :
    ∀ k < (write c fmt ps).length, ∃ e, read c ((write c fmt ps).take k) = .error e := by
  intro k hk
  obtain ⟨e, he⟩ := readStaged_take c h1 h2 fmt ps k hk
  exact ⟨e, by rw [read_eq_readStaged, he]; rfl⟩

/-- the same in terms of the prefix relation -/
theorem read_strict_prefix_fails' (h1 : c.H1) (h2 : c.H2) (fmt : Format) (ps : System PK VK CS)
    (pre : List Byte) (hp : pre <+: write c fmt ps) (hne : pre ≠ write c fmt ps) :
    ∃ e, read c pre = .error e := by
  have hlen : pre.length < (write c fmt ps).length := by
    rcases Nat.lt_or_ge pre.length (write c fmt ps).length with h | h
    · exact h
    · exact absurd (hp.eq_of_length_le h) hne
  rw [List.prefix_iff_eq_take.1 hp]
  exact read_strict_prefix_fails c h1 h2 fmt ps _ hlen

/-- the error kinds in the header: an empty file and a file cut after the first word give `io.EOF`,
other cuts inside a header word give `io.ErrUnexpectedEOF` -/
theorem read_header_cut (fmt : Format) (ps : System PK VK CS) (k : Nat) (hk : k < 8) :
    read c ((write c fmt ps).take k) =
      .error (if k = 0 ∨ k = 4 then .EOF else .unexpectedEOF) := by
  rw [write_assoc]
  by_cases k4 : k < 4
  · rw [take_append_lt _ (by simpa [u32BE_length] using k4)]
    have hs : ((u32BE ps.depth).take k).length < 4 := by simp [u32BE_length]; omega
    have hl : ((u32BE ps.depth).take k).length = k := by simp [u32BE_length]; omega
    simp only [read, readFull_short hs, bind, Except.bind, hl]
    by_cases k0 : k = 0
    · simp [k0]
    · have k4' : ¬ k = 4 := by omega
      simp [k0, k4']
  · rw [take_append_ge _ (by simpa [u32BE_length] using Nat.le_of_not_lt k4), u32BE_length,
      take_append_lt _ (by simp [u32BE_length]; omega)]
    have hs : ((u32BE ps.batch).take (k - 4)).length < 4 := by simp [u32BE_length]; omega
    have hl : ((u32BE ps.batch).take (k - 4)).length = k - 4 := by simp [u32BE_length]; omega
    simp only [read, readFull_u32BE, readFull_short hs, bind, Except.bind, hl]
    by_cases k0 : k = 4
    · simp [k0]
    · have h1 : ¬ (k = 0 ∨ k = 4) := by omega
      have h2 : ¬ (k - 4 = 0) := by omega
      simp [h1, h2]

/-- an error carries no system: the result of a failed read cannot be used as a proving system
(models `if err != nil { return err }` at every call site of `ReadSystemFromFile`) -/
theorem read_error_no_system (bytes : List Byte) (e : Err) (h : read c bytes = .error e) :
    ∀ ps, read c bytes ≠ .ok ps := by
  intro ps hps
  rw [h] at hps
  cases hps

/-- hence: no strict prefix of a valid file reads as ANY system (neither the original nor a
different one) -/
theorem read_strict_prefix_no_system (h1 : c.H1) (h2 : c.H2) (fmt : Format)
    (ps : System PK VK CS) (k : Nat) (hk : k < (write c fmt ps).length) (ps' : System PK VK CS) :
    read c ((write c fmt ps).take k) ≠ .ok ps' := by
  obtain ⟨e, he⟩ := read_strict_prefix_fails c h1 h2 fmt ps k hk
  exact read_error_no_system c _ e he ps'

/-- and the full file is accepted (so the failure is really due to the truncation) -/
theorem read_full_ok (h1 : c.H1) (fmt : Format) (ps : System PK VK CS)
    (hd : ps.depth < 2 ^ 32) (hb : ps.batch < 2 ^ 32) :
    read c ((write c fmt ps).take (write c fmt ps).length) = .ok ps := by
  rw [List.take_length, read_eq_readStaged]
  have := readStaged_write_append c h1 fmt ps hd hb []
  rw [List.append_nil] at this
  rw [this]; rfl

end

/-! ### non-vacuity: the toy codecs satisfy H1 and H2; a concrete 20-byte file -/

example : (write Toy.codecs .compressed Toy.system).length = 20 := by decide
example : read Toy.codecs (write Toy.codecs .compressed Toy.system) = .ok Toy.system := by decide
/-- every one of the 20 strict prefixes is rejected, in both formats -/
example : ∀ k < 20, (read Toy.codecs ((write Toy.codecs .compressed Toy.system).take k)).isOk =
    false := by decide
example : ∀ k < 20, (read Toy.codecs ((write Toy.codecs .raw Toy.system).take k)).isOk =
    false := by decide
/-- … and the failing stage is the one `cutStage` predicts (section lengths 5, 4, 3) -/
example : ∀ k < 20, ∃ e, readStaged Toy.codecs ((write Toy.codecs .raw Toy.system).take k) =
    .error (cutStage 5 4 3 k, e) := by
  intro k hk
  exact readStaged_take Toy.codecs Toy.h1 Toy.h2 .raw Toy.system k hk
example : (List.range 21).map (cutStage 5 4 3) =
    [.header1, .header1, .header1, .header1, .header2, .header2, .header2, .header2,
     .pk, .pk, .pk, .pk, .pk, .vk, .vk, .vk, .vk, .cs, .cs, .cs, .cs] := by decide
example : read Toy.codecs [] = .error .EOF := by decide
example : read Toy.codecs [0, 0, 0, 30] = .error .EOF := by decide
example : read Toy.codecs [0, 0, 0, 30, 0] = .error .unexpectedEOF := by decide
/-- cut exactly at the pk/vk boundary: the verifying-key decoder sees the empty input -/
example : readStaged Toy.codecs ((write Toy.codecs .compressed Toy.system).take 13) =
    .error (.vk, .EOF) := by decide
/-- H2 is a real restriction: a decoder that accepts the empty input for a non-empty encoding
violates it -/
example : ¬ RejectsTruncation (fun _ : Unit => [7]) (fun bs => .ok ((), bs)) := by
  intro h
  obtain ⟨e, he⟩ := h () [] (by simp) (by simp)
  cases he

end Smtb.File

#print axioms Smtb.File.readStaged_take
#print axioms Smtb.File.read_strict_prefix_fails
#print axioms Smtb.File.read_strict_prefix_fails'
#print axioms Smtb.File.read_header_cut
#print axioms Smtb.File.read_error_no_system
#print axioms Smtb.File.read_strict_prefix_no_system
#print axioms Smtb.File.read_full_ok
#print axioms Smtb.File.read_eq_readStaged
#print axioms Smtb.File.Toy.h1
#print axioms Smtb.File.Toy.h2
