import Smtb.Properties.TraceSound
import Smtb.Properties.C03EndToEnd
import Smtb.Properties.C01
import Smtb.Properties.C02
import Smtb.Properties.C06
import Smtb.Properties.C05
import Smtb.Properties.TraceSound2
import Mathlib.Tactic.NormNum.Prime
/-!
# T-trace-kernel: theorems about the constraint list recorded from the Go code

`bin/check` regenerates, on every run, `Smtb/Gen/GoTrace*.lean` from /repo's current source: the
Go recorder (`/verif/harness/recorder`) runs the repository's own `Define` / `DefineGadget`
bodies, and `tools/trace2lean.py` turns the recorded text, line by line, into a Lean term
`go… : List TLine`.  The generated file then asks the **kernel** (`decide +kernel`, no axiom, no
`native_decide`) whether that term equals the trace of the proved polymorphic Lean program, and
instantiates the lemmas below.  The result is a theorem whose subject is the regenerated term
itself:

  the constraints recorded from the Go code (under the generic first-order semantics `denote`,
  which mentions no Lean program) are satisfiable on given inputs **iff** the specification holds.

This removes `TLine.render`, the compiled driver and the text comparison from the trusted base for
the dimensions instantiated (what remains there: the Go recorder, `trace2lean.py` — 90 lines, the
inverse of `render` — and the gate table `denoteOp`).  The lemmas here are generic in the list `t`
and in the dimensions, and are checked on every run whether or not the generated file compiles.
-/
namespace Smtb.Properties.GoTrace
open Smtb Smtb.Sat Smtb.Bits Smtb.Circuit Smtb.TraceSem Smtb.TraceHarness Smtb.TraceSound Smtb.Merkle Smtb.Batch
  Smtb.Pack Smtb.Poseidon
open Smtb.Properties.TraceSound (keccakK)
open Smtb.Properties.C03 (r)

deriving instance DecidableEq for TLine

/-- small fields at which the width-8 / width-16 bit gadgets run their full scan -/
instance fact251 : Fact (Nat.Prime 251) := ⟨by norm_num⟩
instance fact65521 : Fact (Nat.Prime 65521) := ⟨by norm_num⟩

/-- **Insertion circuit.**  Any constraint list equal to the model's trace at `(d, b)` over BN254 —
in the generated file: the list recorded from `InsertionMbuCircuit.Define` — is satisfiable on the
inputs `inputHash, startIndex, preRoot, postRoot, idComms, merkleProofs` iff the start index fits
32 bits, the public input is Keccak-256 of the canonical packing reduced mod `r`, and the batch is
a valid append (C01's specification with the reference Poseidon). -/
theorem insertion_circuit_meaning (d b : ℕ) (hd : d ≤ 32) (t : List TLine)
    (ht : traceOf ["Poseidon2", "KeccakGadget"] (traceInsertion r d b) = t)
    (ih start pre post : ZMod r) (ids prfs : List (ZMod r))
    (hids : ids.length = b) (hprfs : prfs.length = b * d) :
    (∃ env : Env r, InputsAre env (ih :: start :: pre :: post :: (ids ++ prfs)) ∧
        denote r (Sat.poseidonH r) keccakK env t) ↔
      start.val < 2 ^ 32 ∧
      ih = ((specHashInsertion start.val pre.val post.val (ids.map ZMod.val) : ℕ) : ZMod r) ∧
      insertionSpec (Sat.poseidonH r) 0 ZMod.val (fun s j => s + (j : ZMod r)) d start 0 pre ids
        (chunks prfs d b) = some post := by
  subst ht
  rw [← Smtb.Properties.C03EndToEnd.insertion_end_to_end d hd,
    Smtb.Properties.TraceSound.insertionCircuit_trace_iff_bn254 d b ih start pre post ids prfs hids
      hprfs (fun _ => True)]
  simp only [and_true]

/-- **Deletion circuit**, depth `≤ 31`. -/
theorem deletion_circuit_meaning (d b : ℕ) (hd : d ≤ 31) (t : List TLine)
    (ht : traceOf ["Poseidon2", "KeccakGadget"] (traceDeletion r d b) = t)
    (ih : ZMod r) (idxs : List (ZMod r)) (pre post : ZMod r) (ids prfs : List (ZMod r))
    (hidxs : idxs.length = b) (hids : ids.length = b) (hprfs : prfs.length = b * d) :
    (∃ env : Env r, InputsAre env (ih :: (idxs ++ pre :: post :: (ids ++ prfs))) ∧
        denote r (Sat.poseidonH r) keccakK env t) ↔
      (∀ i ∈ idxs, i.val < 2 ^ 32) ∧
      ih = ((specHashDeletion (idxs.map ZMod.val) pre.val post.val : ℕ) : ZMod r) ∧
      deletionSpec (Sat.poseidonH r) 0 ZMod.val d pre idxs ids (chunks prfs d b) = some post := by
  subst ht
  rw [← Smtb.Properties.C03EndToEnd.deletion_end_to_end d hd,
    Smtb.Properties.TraceSound.deletionCircuit_trace_iff_bn254 d b hd ih idxs pre post ids prfs hidxs
      hids hprfs (fun _ => True)]
  simp only [and_true]

section gadgets
variable {p : ℕ} [Fact p.Prime]

/-- **InsertionProof gadget** (any prime field with `2^d ≤ p`, `Poseidon2` opaque and denoting
the reference Poseidon): the recorded constraints are satisfiable with result `post` iff the batch
specification gives `post`. -/
theorem insertionProof_meaning (d b : ℕ) (hd : 2 ^ d ≤ p) (t : List TLine) (res : TV)
    (ht : traceOf ["Poseidon2"] (traceInsertionProof d b) = t)
    (hr : resultOf ["Poseidon2"] (traceInsertionProof d b) = res)
    (K : List ℕ → List (ZMod p) → List (ZMod p))
    (start pre post : ZMod p) (ids prfs : List (ZMod p))
    (hids : ids.length = b) (hprfs : prfs.length = b * d) :
    (∃ env : Env p, InputsAre env (start :: pre :: (ids ++ prfs)) ∧
        denote p (Sat.poseidonH p) K env t ∧ evalTV env res = post) ↔
      insertionSpec (Sat.poseidonH p) 0 ZMod.val Smtb.C01.addi d start 0 pre ids (chunks prfs d b)
        = some post := by
  subst ht hr
  rw [← Smtb.C01.insertionProof_sat_iff (fun a b => Poseidon.poseidon2 a b) (Sat.poseidonH p)
      Sat.poseidon2_hH d hd,
    Smtb.Properties.TraceSound.insertionProof_trace_iff (Sat.poseidonH p) K _ Sat.poseidon2_hH d b
      start pre ids prfs hids hprfs]

/-- **DeletionProof gadget** (`2^(d+1) ≤ p`). -/
theorem deletionProof_meaning (d b : ℕ) (hd : 2 ^ (d + 1) ≤ p) (t : List TLine) (res : TV)
    (ht : traceOf ["Poseidon2"] (traceDeletionProof d b) = t)
    (hr : resultOf ["Poseidon2"] (traceDeletionProof d b) = res)
    (K : List ℕ → List (ZMod p) → List (ZMod p))
    (idxs : List (ZMod p)) (pre post : ZMod p) (ids prfs : List (ZMod p))
    (hidxs : idxs.length = b) (hids : ids.length = b) (hprfs : prfs.length = b * d) :
    (∃ env : Env p, InputsAre env (idxs ++ pre :: (ids ++ prfs)) ∧
        denote p (Sat.poseidonH p) K env t ∧ evalTV env res = post) ↔
      deletionSpec (Sat.poseidonH p) 0 ZMod.val d pre idxs ids (chunks prfs d b) = some post := by
  subst ht hr
  rw [← Smtb.C02.deletionProof_sat_iff (fun a b => Poseidon.poseidon2 a b) (Sat.poseidonH p)
      Sat.poseidon2_hH d hd,
    Smtb.Properties.TraceSound.deletionProof_trace_iff (Sat.poseidonH p) K _ Sat.poseidon2_hH d b
      idxs pre ids prfs hidxs hids hprfs]

/-- **ToReducedBigEndian** of width `n` over the field itself: the recorded constraints are
satisfiable on input `v` iff `v`'s canonical representative fits `n` bits, and then the returned
operands carry exactly the byte-swapped low bits of that representative. -/
theorem toReducedBigEndian_meaning (n : ℕ) (t : List TLine) (res : List TV)
    (ht : traceOf ["Poseidon2"] (traceToReducedBigEndian p n) = t)
    (hr : resultOf ["Poseidon2"] (traceToReducedBigEndian p n) = res)
    (H : ZMod p → ZMod p → ZMod p) (K : List ℕ → List (ZMod p) → List (ZMod p))
    (v : ZMod p) (out : List (ZMod p)) :
    (∃ env : Env p, InputsAre env [v] ∧ denote p H K env t ∧ res.map (evalTV env) = out) ↔
      v.val < 2 ^ n ∧ swapByteOrder ((Merkle.bitsLE n v.val).map Sat.embed) = out := by
  subst ht hr
  rw [← Smtb.Properties.C06.toReducedBigEndian_sat v n (· = out),
    Smtb.Properties.TraceSound.toReducedBigEndian_trace_iff H K p n v]

end gadgets

section poseidon
variable {p : ℕ} [NeZero p]

/-- **Poseidon2, gate by gate** (no opaque line, every round constant and MDS entry a `c:<n>`
operand of the recorded list, any modulus `≠ 0`): the constraints recorded from
`poseidon.Poseidon2.DefineGadget` are satisfiable with result `out` iff `out` is the reference
Poseidon hash (x⁵ S-box, 8 full + 57 partial rounds, the circomlib / iden3 constants) of the two
inputs. -/
theorem poseidon2_meaning (t : List TLine) (res : TV)
    (ht : traceOf [] tracePoseidon2 = t) (hr : resultOf [] tracePoseidon2 = res)
    (H : ZMod p → ZMod p → ZMod p) (K : List ℕ → List (ZMod p) → List (ZMod p))
    (a b out : ZMod p) :
    (∃ env : Env p, InputsAre env [a, b] ∧ denote p H K env t ∧ evalTV env res = out) ↔
      ((Poseidon.hash2 p a.val b.val : ℕ) : ZMod p) = out := by
  subst ht hr
  rw [← Smtb.C05.poseidon2_sat a b (· = out),
    Smtb.Properties.TraceSound2.poseidon2_trace_iff H K a b]

/-- **Poseidon1, gate by gate** (8 full + 56 partial rounds, width 2). -/
theorem poseidon1_meaning (t : List TLine) (res : TV)
    (ht : traceOf [] tracePoseidon1 = t) (hr : resultOf [] tracePoseidon1 = res)
    (H : ZMod p → ZMod p → ZMod p) (K : List ℕ → List (ZMod p) → List (ZMod p))
    (a out : ZMod p) :
    (∃ env : Env p, InputsAre env [a] ∧ denote p H K env t ∧ evalTV env res = out) ↔
      ((Poseidon.hash1 p a.val : ℕ) : ZMod p) = out := by
  subst ht hr
  rw [← Smtb.C05.poseidon1_sat a (· = out),
    Smtb.Properties.TraceSound2.poseidon1_trace_iff H K a]

end poseidon

section small
variable {p : ℕ} [Fact p.Prime]

/-- **InsertionRound** of depth `d` (`2^d ≤ p`): the recorded constraints are satisfiable with
result `out` iff the index fits the tree, the sibling path opens an EMPTY leaf under the running
root, and `out` is the root with the commitment written there. -/
theorem insertionRound_meaning (d : ℕ) (hd : 2 ^ d ≤ p) (t : List TLine) (res : TV)
    (ht : traceOf ["Poseidon2"] (traceInsertionRound d) = t)
    (hr : resultOf ["Poseidon2"] (traceInsertionRound d) = res)
    (K : List ℕ → List (ZMod p) → List (ZMod p))
    (idx item prev out : ZMod p) (proof : List (ZMod p)) (hl : proof.length = d) :
    (∃ env : Env p, InputsAre env (idx :: item :: prev :: proof) ∧
        denote p (Sat.poseidonH p) K env t ∧ evalTV env res = out) ↔
      idx.val < 2 ^ d ∧ recover (Sat.poseidonH p) 0 proof (bitsLE d idx.val) = prev ∧
        recover (Sat.poseidonH p) item proof (bitsLE d idx.val) = out := by
  subst ht hr
  rw [← Smtb.C01.insertionRound_sat_iff (fun a b => Poseidon.poseidon2 a b) (Sat.poseidonH p)
      Sat.poseidon2_hH d hd idx item prev proof (· = out),
    Smtb.Properties.TraceSound.insertionRound_trace_iff (Sat.poseidonH p) K _ Sat.poseidon2_hH d
      idx item prev proof hl]

/-- **DeletionRound** of depth `d` (`2^(d+1) ≤ p`): a real slot (index `< 2^d`) must open the
item under the running root and yields the root with 0 written; a padding slot
(`2^d ≤ index < 2^(d+1)`) yields the running root unchanged; nothing else is satisfiable. -/
theorem deletionRound_meaning (d : ℕ) (hd : 2 ^ (d + 1) ≤ p) (t : List TLine) (res : TV)
    (ht : traceOf ["Poseidon2"] (traceDeletionRound d) = t)
    (hr : resultOf ["Poseidon2"] (traceDeletionRound d) = res)
    (K : List ℕ → List (ZMod p) → List (ZMod p))
    (root idx item out : ZMod p) (proof : List (ZMod p)) (hl : proof.length = d) :
    (∃ env : Env p, InputsAre env (root :: idx :: item :: proof) ∧
        denote p (Sat.poseidonH p) K env t ∧ evalTV env res = out) ↔
      (idx.val < 2 ^ d ∧ recover (Sat.poseidonH p) item proof (bitsLE d idx.val) = root ∧
          recover (Sat.poseidonH p) 0 proof (bitsLE d idx.val) = out)
      ∨ (2 ^ d ≤ idx.val ∧ idx.val < 2 ^ (d + 1) ∧ root = out) := by
  subst ht hr
  rw [← Smtb.C02.deletionRound_sat_iff (fun a b => Poseidon.poseidon2 a b) (Sat.poseidonH p)
      Sat.poseidon2_hH d hd root idx item proof (· = out),
    Smtb.Properties.TraceSound.deletionRound_trace_iff (Sat.poseidonH p) K _ Sat.poseidon2_hH d
      root idx item proof hl]

/-- **ReducedModRCheck** over the field itself on `n` input wires: below the bit length of the
modulus nothing is constrained; from there on the inputs must be booleans denoting
(little-endian) a number `< p`. -/
theorem reducedModRCheck_meaning (n : ℕ) (t : List TLine)
    (ht : traceOf ["Poseidon2"] (traceReducedModRCheck p n) = t)
    (H : ZMod p → ZMod p → ZMod p) (K : List ℕ → List (ZMod p) → List (ZMod p))
    (inp : List (ZMod p)) (hl : inp.length = n) :
    (∃ env : Env p, InputsAre env inp ∧ denote p H K env t) ↔
      inp.length < bitLen p ∨
      (bitLen p ≤ inp.length ∧ ∃ bs : List Bool, inp = bs.map Sat.embed ∧ Sat.natOfBits bs < p) := by
  subst ht
  have h1 := Smtb.Properties.C06.reducedModRCheck_sat inp (fun _ => True)
  have h2 := Smtb.Properties.TraceSound.reducedModRCheck_trace_iff H K p n inp hl (fun _ => True)
  simp only [and_true] at h1 h2
  rw [← h1, h2]

omit [Fact p.Prime] in
/-- **FromBinaryBigEndian** on `n` input wires: the byte-swapped inputs must be booleans and the
result is their little-endian recomposition. -/
theorem fromBinaryBigEndian_meaning (n : ℕ) (t : List TLine) (res : TV)
    (ht : traceOf ["Poseidon2"] (traceFromBinaryBigEndian n) = t)
    (hr : resultOf ["Poseidon2"] (traceFromBinaryBigEndian n) = res)
    (H : ZMod p → ZMod p → ZMod p) (K : List ℕ → List (ZMod p) → List (ZMod p))
    (inp : List (ZMod p)) (hl : inp.length = n) (out : ZMod p) :
    (∃ env : Env p, InputsAre env inp ∧ denote p H K env t ∧ evalTV env res = out) ↔
      (∀ b ∈ swapByteOrder inp, isBool b) ∧ recompose (swapByteOrder inp) = out := by
  subst ht hr
  rw [← Smtb.Properties.C06.fromBinaryBigEndian_sat inp (· = out),
    Smtb.Properties.TraceSound.fromBinaryBigEndian_trace_iff H K n inp hl]

end small

#print axioms insertion_circuit_meaning
#print axioms deletion_circuit_meaning
#print axioms insertionProof_meaning
#print axioms deletionProof_meaning
#print axioms toReducedBigEndian_meaning
#print axioms poseidon2_meaning
#print axioms poseidon1_meaning
#print axioms insertionRound_meaning
#print axioms deletionRound_meaning
#print axioms reducedModRCheck_meaning
#print axioms fromBinaryBigEndian_meaning

end Smtb.Properties.GoTrace
