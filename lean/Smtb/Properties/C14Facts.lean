import Smtb.Gen.Facts
/-!
# C14 — regenerated-facts obligation: shutdown has no deadline and never force-closes

The protocol model (`Smtb/Model/Job.lean`) assumes `http.Server.Shutdown` is called so that it
returns only when no accepted request is active.  On the Go side that is the call
`server.Shutdown(context.Background())` in `spawnServerJob` — a context that can expire, or a
`Close()` on the server, would cut accepted requests short.  Regenerated from the current tree by
a go/ast walk on every run.
-/
namespace Smtb.Properties.C14Facts
open Smtb

theorem shutdown_waits_for_requests :
    Gen.serverShutdownCalls = [("spawnServerJob", "server.Shutdown(context.Background())")] := by decide

end Smtb.Properties.C14Facts

#print axioms Smtb.Properties.C14Facts.shutdown_waits_for_requests
