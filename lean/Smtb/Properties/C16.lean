import Smtb.Proofs.Codec
/-!
# C16 — the parameter-JSON codec round-trips, and rejects non-numbers / out-of-range indices

Subject: `/repo/prover/marshal.go:24-185` (`fromHex`, `toHex`, `InsertionParameters` /
`DeletionParameters` `MarshalJSON` / `UnmarshalJSON`).  Model: `Smtb/Model/Codec/{Hex,Json}.lean`
(tied to the Go code by the differential test `harness/cmd/corr16` ↔ `driver c16`).

* `big.Int` values are `Int` in the model because `fromHex` accepts a sign; the round-trip
  theorems quantify over **all non-negative** values (`NonNeg`, or the `ofNat` forms which need no
  hypothesis besides the `uint32` bound), all list lengths, ragged and empty proofs included.
* `startIndex : Nat` with hypothesis `< 2^32` is the Go type `uint32`; likewise every deletion
  index.  `deletionIndices = none` is the nil slice: Go writes `null` and reads `null` back as nil;
  `some []` is the empty non-nil slice (`[]` both ways).
* Everything is text level: `encode…` produces the exact JSON text of `json.Marshal`, `decode…`
  scans that text. There is no `_partial` statement.
-/
namespace Smtb.C16
open Smtb.Codec

/-- **Hex round trip**, every natural number (0, 1, r-1, ≥ r, 2^256-1, … unbounded). -/
theorem fromHex_toHex (n : Nat) : fromHex (toHex n) = some (n : Int) :=
  Smtb.Codec.fromHex_toHex n

/-- **Insertion round trip (text level).** -/
theorem decodeInsertion_encodeInsertion (p : InsertionParams) (hp : p.NonNeg)
    (h : p.startIndex < 2 ^ 32) : decodeInsertion (encodeInsertion p) = .ok p :=
  Smtb.Codec.decodeInsertion_encodeInsertion p hp h

/-- The same over natural-number parameter sets: only the `uint32` bound remains. -/
theorem decodeInsertion_encodeInsertion_ofNat (ih si pre post : Nat) (ids : List Nat)
    (mps : List (List Nat)) (h : si < 2 ^ 32) :
    decodeInsertion (encodeInsertion (InsertionParams.ofNat ih si pre post ids mps)) =
      .ok (InsertionParams.ofNat ih si pre post ids mps) :=
  Smtb.Codec.decodeInsertion_encodeInsertion _ (InsertionParams.nonNeg_ofNat ..) h

/-- **Deletion round trip (text level).** A nil index slice (`none`) is written as `null` and
read back as nil; `some l` is written as an array and read back as `some l`. -/
theorem decodeDeletion_encodeDeletion (p : DeletionParams) (hp : p.NonNeg)
    (h : ∀ l, p.deletionIndices = some l → ∀ i ∈ l, i < 2 ^ 32) :
    decodeDeletion (encodeDeletion p) = .ok p :=
  Smtb.Codec.decodeDeletion_encodeDeletion p hp h

theorem decodeDeletion_encodeDeletion_ofNat (ih : Nat) (idx : Option (List Nat)) (pre post : Nat)
    (ids : List Nat) (mps : List (List Nat))
    (h : ∀ l, idx = some l → ∀ i ∈ l, i < 2 ^ 32) :
    decodeDeletion (encodeDeletion (DeletionParams.ofNat ih idx pre post ids mps)) =
      .ok (DeletionParams.ofNat ih idx pre post ids mps) :=
  Smtb.Codec.decodeDeletion_encodeDeletion _ (DeletionParams.nonNeg_ofNat ..) h

/-- **Non-numbers are rejected (general).** Any string containing a character outside
`[0-9a-zA-Z_+-]` (whitespace, `.`, any non-ASCII character, …) is rejected by `fromHex`. -/
theorem fromHex_rejects_nondigit (s : String)
    (h : ∃ c ∈ s.toList, NotNumChar c ∧ c ≠ '+' ∧ c ≠ '-') : fromHex s = none :=
  fromHexChars_bad s.toList h

/-- A sign anywhere but in first position is rejected as well (tightening of the alphabet). -/
theorem fromHex_rejects_nondigit_tail (c : Char) (cs : List Char)
    (h : ∃ x ∈ cs, NotNumChar x) : fromHex (String.ofList (c :: cs)) = none := by
  unfold fromHex; rw [String.toList_ofList]; exact fromHexChars_bad_tail c cs h

theorem fromHex_empty : fromHex "" = none := by decide
theorem fromHex_0x : fromHex "0x" = none := by decide
theorem fromHex_zz : fromHex "zz" = none := by decide
theorem fromHex_space1 : fromHex " 1" = none := by decide
theorem fromHex_1space : fromHex "1 " = none := by decide
theorem fromHex_float : fromHex "1.5" = none := by decide
theorem fromHex_exp : fromHex "1e3" = none := by decide
theorem fromHex_sep_end : fromHex "0x1_" = none := by decide
theorem fromHex_sep_double : fromHex "1__0" = none := by decide
theorem fromHex_bad_bin : fromHex "0b102" = none := by decide
theorem fromHex_bad_oct : fromHex "089" = none := by decide

/-- What *is* accepted besides `toHex` output (behaviour of `big.Int.SetString(s, 0)`): upper
case, leading zeros, other bases, separators, signs. -/
example : fromHex "0X1f" = some 31 := by decide
example : fromHex "0x0000ab" = some 171 := by decide
example : fromHex "017" = some 15 := by decide
example : fromHex "0b101" = some 5 := by decide
example : fromHex "0o17" = some 15 := by decide
example : fromHex "1_000" = some 1000 := by decide
example : fromHex "0x_5" = some 5 := by decide
example : fromHex "0_1" = some 1 := by decide
example : fromHex "+7" = some 7 := by decide
example : fromHex "-0x5" = some (-5) := by decide
example : fromHex "-0" = some 0 := by decide

/-- Negative `big.Int`s are outside the quantifier: `toHex` prints `0x-…`, which is rejected. -/
theorem negative_not_round_trip (i : Int) (h : i < 0) : fromHex (toHexInt i) = none := by
  unfold fromHex toHexInt; rw [String.toList_ofList]; exact fromHexChars_toHexIntChars_neg i h

/-- **Index outside 32 bits (insertion).** The encoder-shaped document whose `startIndex` number
is any integer `≥ 2^32` is rejected with the `UnmarshalTypeError "number …"` class. -/
theorem index_out_of_range_rejected (p : InsertionParams) (h : 2 ^ 32 ≤ p.startIndex) :
    decodeInsertion (encodeInsertion p) = .error Err.range :=
  decodeInsertion_range p h

/-- **Index outside 32 bits (deletion).** -/
theorem deletion_index_out_of_range_rejected (p : DeletionParams) (l : List Nat)
    (hl : p.deletionIndices = some l) (h : ∃ i ∈ l, 2 ^ 32 ≤ i) :
    decodeDeletion (encodeDeletion p) = .error Err.range :=
  decodeDeletion_range p l hl h

/-- **Index outside 32 bits, all documents.** Whatever the document (any text, any key order,
duplicates, …): if decoding succeeds, `startIndex` is a `uint32`. -/
theorem decoded_startIndex_lt (s : String) (p : InsertionParams)
    (h : decodeInsertion s = .ok p) : p.startIndex < 2 ^ 32 :=
  decodeInsertion_startIndex_lt s p h

theorem decoded_deletionIndices_lt (s : String) (p : DeletionParams)
    (h : decodeDeletion s = .ok p) : ∀ l, p.deletionIndices = some l → ∀ i ∈ l, i < 2 ^ 32 :=
  decodeDeletion_indices_lt s p h

/-- **No silent values, all documents.** If decoding succeeds, the text scanned as JSON, the typed
decode into the mirror struct `m` recorded no error, and *every* component of the result is the
`fromHex` value of the corresponding string of `m` (so, with `fromHex_rejects_nondigit`, a string
that is not a number anywhere in `m` makes decoding fail). -/
theorem decoded_values_from_fromHex (s : String) (p : InsertionParams)
    (h : decodeInsertion s = .ok p) :
    ∃ v m, parseDoc s.toList = .ok v ∧ decInsTop v = (m, none) ∧
      fromHexChars m.inputHash = some p.inputHash ∧ p.startIndex = m.startIndex ∧
      fromHexChars m.preRoot = some p.preRoot ∧ fromHexChars m.postRoot = some p.postRoot ∧
      List.Forall₂ (fun s i => fromHexChars s = some i) m.idComms.vis p.idComms ∧
      List.Forall₂ (fun s r => List.Forall₂ (fun x i => fromHexChars x = some i) s.vis r)
        m.merkleProofs.vis p.merkleProofs := by
  obtain ⟨v, m, h1, h2, h3⟩ := decodeInsertionChars_ok_inv s.toList p h
  exact ⟨v, m, h1, h2, finishIns_ok_inv m p h3⟩

theorem decoded_values_from_fromHex_del (s : String) (p : DeletionParams)
    (h : decodeDeletion s = .ok p) :
    ∃ v m, parseDoc s.toList = .ok v ∧ decDelTop v = (m, none) ∧
      fromHexChars m.inputHash = some p.inputHash ∧
      p.deletionIndices = sliceToOption m.deletionIndices ∧
      fromHexChars m.preRoot = some p.preRoot ∧ fromHexChars m.postRoot = some p.postRoot ∧
      List.Forall₂ (fun s i => fromHexChars s = some i) m.idComms.vis p.idComms ∧
      List.Forall₂ (fun s r => List.Forall₂ (fun x i => fromHexChars x = some i) s.vis r)
        m.merkleProofs.vis p.merkleProofs := by
  obtain ⟨v, m, h1, h2, h3⟩ := decodeDeletionChars_ok_inv s.toList p h
  exact ⟨v, m, h1, h2, finishDel_ok_inv m p h3⟩

/-- The API returns an error or a value, never both. -/
theorem decode_error_no_value (s : String) :
    (∃ e, decodeInsertion s = .error e ∧ ∀ p, decodeInsertion s ≠ .ok p) ∨
    (∃ p, decodeInsertion s = .ok p ∧ ∀ e, decodeInsertion s ≠ .error e) := by
  cases h : decodeInsertion s with
  | error e => exact Or.inl ⟨e, rfl, fun p hp => by cases hp⟩
  | ok p => exact Or.inr ⟨p, rfl, fun e he => by cases he⟩

theorem decode_error_no_value_del (s : String) :
    (∃ e, decodeDeletion s = .error e ∧ ∀ p, decodeDeletion s ≠ .ok p) ∨
    (∃ p, decodeDeletion s = .ok p ∧ ∀ e, decodeDeletion s ≠ .error e) := by
  cases h : decodeDeletion s with
  | error e => exact Or.inl ⟨e, rfl, fun p hp => by cases hp⟩
  | ok p => exact Or.inr ⟨p, rfl, fun e he => by cases he⟩

/-! ## Non-vacuity: concrete documents through the executable model -/

example : (InsertionParams.ofNat 1 5 2 3 [4] [[5, 6], []]).NonNeg := InsertionParams.nonNeg_ofNat ..

example : encodeInsertion (InsertionParams.ofNat 1 5 2 3 [4] [[5, 6], []]) =
    "{\"inputHash\":\"0x1\",\"startIndex\":5,\"preRoot\":\"0x2\",\"postRoot\":\"0x3\",\"identityCommitments\":[\"0x4\"],\"merkleProofs\":[[\"0x5\",\"0x6\"],[]]}" := by
  decide +kernel

example : encodeDeletion (DeletionParams.ofNat 255 none 0 1 [] []) =
    "{\"inputHash\":\"0xff\",\"deletionIndices\":null,\"preRoot\":\"0x0\",\"postRoot\":\"0x1\",\"identityCommitments\":[],\"merkleProofs\":[]}" := by
  decide +kernel

theorem example_decode_max_index : decodeInsertion "{\"inputHash\":\"0x1\",\"startIndex\":4294967295,\"preRoot\":\"0x2\",\"postRoot\":\"0x3\",\"identityCommitments\":[\"0x4\"],\"merkleProofs\":[[\"0x5\"],[]]}" =
    .ok (InsertionParams.ofNat 1 4294967295 2 3 [4] [[5], []]) := by decide +kernel

example : decodeInsertion "{\"inputHash\":\"0x1\",\"startIndex\":4294967296,\"preRoot\":\"0x2\",\"postRoot\":\"0x3\"}" =
    .error Err.range := by decide +kernel
example : decodeInsertion "{\"inputHash\":\"0x1\",\"startIndex\":-1,\"preRoot\":\"0x2\",\"postRoot\":\"0x3\"}" =
    .error Err.range := by decide +kernel
example : decodeInsertion "{\"inputHash\":\"0x1\",\"startIndex\":1.0,\"preRoot\":\"0x2\",\"postRoot\":\"0x3\"}" =
    .error Err.range := by decide +kernel
example : decodeInsertion "{\"inputHash\":\"0x1\",\"startIndex\":\"1\",\"preRoot\":\"0x2\",\"postRoot\":\"0x3\"}" =
    .error Err.type := by decide +kernel
example : decodeInsertion "{\"inputHash\":\"zz\",\"preRoot\":\"0x2\",\"postRoot\":\"0x3\"}" =
    .error Err.invalidNumber := by decide +kernel
example : decodeInsertion "{\"inputHash\":\"0x1\",\"preRoot\":\"0x2\",\"postRoot\":\"0x3\",\"identityCommitments\":[\" 1\"]}" =
    .error Err.invalidNumber := by decide +kernel
example : decodeInsertion "{}" = .error Err.invalidNumber := by decide +kernel
example : decodeInsertion "null" = .error Err.invalidNumber := by decide +kernel
example : decodeInsertion "{\"inputHash\":\"0x1\"} x" = .error Err.syntax := by decide +kernel
example : decodeDeletion "{\"inputHash\":\"1\",\"preRoot\":\"1\",\"postRoot\":\"1\",\"deletionIndices\":[4294967296]}" =
    .error Err.range := by decide +kernel
/-- duplicate keys decode into the existing slice: `null` elements keep the earlier values -/
example : decodeDeletion "{\"inputHash\":\"1\",\"preRoot\":\"1\",\"postRoot\":\"1\",\"deletionIndices\":[7,8,9],\"deletionIndices\":[1],\"deletionIndices\":[null,null,null,null]}" =
    .ok (DeletionParams.ofNat 1 (some [1, 8, 9, 0]) 1 1 [] []) := by decide +kernel

end Smtb.C16

#print axioms Smtb.C16.fromHex_toHex
#print axioms Smtb.C16.decodeInsertion_encodeInsertion
#print axioms Smtb.C16.decodeInsertion_encodeInsertion_ofNat
#print axioms Smtb.C16.decodeDeletion_encodeDeletion
#print axioms Smtb.C16.decodeDeletion_encodeDeletion_ofNat
#print axioms Smtb.C16.fromHex_rejects_nondigit
#print axioms Smtb.C16.fromHex_rejects_nondigit_tail
#print axioms Smtb.C16.fromHex_empty
#print axioms Smtb.C16.fromHex_0x
#print axioms Smtb.C16.fromHex_zz
#print axioms Smtb.C16.fromHex_space1
#print axioms Smtb.C16.fromHex_float
#print axioms Smtb.C16.negative_not_round_trip
#print axioms Smtb.C16.index_out_of_range_rejected
#print axioms Smtb.C16.deletion_index_out_of_range_rejected
#print axioms Smtb.C16.decoded_startIndex_lt
#print axioms Smtb.C16.decoded_deletionIndices_lt
#print axioms Smtb.C16.decoded_values_from_fromHex
#print axioms Smtb.C16.decoded_values_from_fromHex_del
#print axioms Smtb.C16.decode_error_no_value
#print axioms Smtb.C16.decode_error_no_value_del
#print axioms Smtb.C16.example_decode_max_index
