import Smtb.Proofs.Keccak.RelGadget
/-!
# C04 — the in-circuit Keccak gadget computes Keccak-256 / SHA3-256
-/
namespace Smtb.Properties.C04
open Smtb Smtb.Circuit Smtb.KeccakSpec

variable {p : ℕ}

/-- On boolean inputs the gadget's constraints are satisfiable in exactly one way: the output is
the `Bool` run of the gadget program.  All lengths, all domain bytes. -/
theorem keccakGadget_sat (dom : ℕ) (msg : List Bool) (k : List (ZMod p) → Prop) :
    (Keccak.keccakGadget dom (msg.map Sat.embed) : SatM p _) k
      ↔ k ((gadgetSpecBits dom msg).map Sat.embed) :=
  Proofs.Keccak.keccakGadget_sat dom msg k

#print axioms keccakGadget_sat

end Smtb.Properties.C04
