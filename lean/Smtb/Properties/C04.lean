import Smtb.Proofs.Keccak.RelGadget
import Smtb.Proofs.Keccak.Final
import Smtb.Proofs.Keccak.Words
import Smtb.Proofs.Keccak.InputBool
/-!
# C04 — the in-circuit Keccak gadget computes Keccak-256 / SHA3-256

Objects:
* `Smtb.Circuit.Keccak.keccakGadget` — the model of `prover/keccak/keccak.go` (trace-tied to Go);
* `SatM p` — satisfiability semantics over `ZMod p` (`Smtb/Proofs/Sat.lean`);
* `Smtb.KeccakSpec.gadgetSpecBits` — the same program run on `Bool` (`Smtb/Model/KeccakSpec.lean`);
* `Smtb.KeccakRef` — the FIPS 202 reference (`Smtb/Model/Keccak.lean`, differentially tested
  against `golang.org/x/crypto/sha3` by `harness/cmd/corr04`).

No primality of `p` is needed for the satisfiability statements: they hold over any `ZMod p`
(only `keccak_output_bits_unique` uses injectivity of `Sat.embed`, i.e. `0 ≠ 1`).
-/
namespace Smtb.Properties.C04
open Smtb Smtb.Circuit Smtb.KeccakSpec

variable {p : ℕ}

/-- On boolean inputs the gadget's constraints are satisfiable in exactly one way and the output
is the `Bool` run of the gadget program.  All lengths, all domain bytes. -/
theorem keccakGadget_sat (dom : ℕ) (msg : List Bool) (k : List (ZMod p) → Prop) :
    (Keccak.keccakGadget dom (msg.map Sat.embed) : SatM p _) k
      ↔ k ((gadgetSpecBits dom msg).map Sat.embed) :=
  Proofs.Keccak.keccakGadget_sat dom msg k

/-- The gadget program with domain byte `0x01` is Keccak-256 (`KECCAK[512]` without suffix,
Ethereum's hash) on byte-aligned messages of every length. -/
theorem gadgetSpec_eq_keccak256 (msg : List Bool) (h : 8 ∣ msg.length) :
    gadgetSpecBits 0x01 msg = KeccakRef.keccak256Bits msg :=
  Proofs.Keccak.gadgetSpec_eq_keccak256 msg h

/-- The gadget program with domain byte `0x06` is SHA3-256 on byte-aligned messages of every
length. -/
theorem gadgetSpec_eq_sha3_256 (msg : List Bool) (h : 8 ∣ msg.length) :
    gadgetSpecBits 0x06 msg = KeccakRef.sha3_256Bits msg :=
  Proofs.Keccak.gadgetSpec_eq_sha3_256 msg h

/-- `keccak.NewKeccak256` in the circuit: satisfiable exactly with the Keccak-256 digest. -/
theorem newKeccak256_sat (msg : List Bool) (h : 8 ∣ msg.length) (k : List (ZMod p) → Prop) :
    (Keccak.newKeccak256 (msg.map Sat.embed) : SatM p _) k
      ↔ k ((KeccakRef.keccak256Bits msg).map Sat.embed) := by
  unfold Keccak.newKeccak256
  rw [keccakGadget_sat, gadgetSpec_eq_keccak256 msg h]

/-- `keccak.NewSHA3_256` in the circuit: satisfiable exactly with the SHA3-256 digest. -/
theorem newSHA3_256_sat (msg : List Bool) (h : 8 ∣ msg.length) (k : List (ZMod p) → Prop) :
    (Keccak.newSHA3_256 (msg.map Sat.embed) : SatM p _) k
      ↔ k ((KeccakRef.sha3_256Bits msg).map Sat.embed) := by
  unfold Keccak.newSHA3_256
  rw [keccakGadget_sat, gadgetSpec_eq_sha3_256 msg h]

/-- The constraints of `NewKeccak256` on a boolean, byte-aligned input are satisfiable with output
`o` iff `o` is the (embedded) Keccak-256 digest. -/
theorem keccak_output_unique (msg : List Bool) (h : 8 ∣ msg.length) (o : List (ZMod p)) :
    (Keccak.newKeccak256 (msg.map Sat.embed) : SatM p _) (· = o)
      ↔ o = (KeccakRef.keccak256Bits msg).map Sat.embed := by
  rw [newKeccak256_sat msg h]
  exact eq_comm

/-- same for `NewSHA3_256` -/
theorem sha3_output_unique (msg : List Bool) (h : 8 ∣ msg.length) (o : List (ZMod p)) :
    (Keccak.newSHA3_256 (msg.map Sat.embed) : SatM p _) (· = o)
      ↔ o = (KeccakRef.sha3_256Bits msg).map Sat.embed := by
  rw [newSHA3_256_sat msg h]
  exact eq_comm

/-- Over a field with `0 ≠ 1` the digest bits themselves are determined: two satisfying outputs
`o = embed bits` have the same `bits`. -/
theorem keccak_output_bits_unique [Fact p.Prime] (msg : List Bool) (h : 8 ∣ msg.length) (bits : List Bool) :
    (Keccak.newKeccak256 (msg.map Sat.embed) : SatM p _) (· = bits.map Sat.embed)
      ↔ bits = KeccakRef.keccak256Bits msg := by
  rw [keccak_output_unique msg h]
  constructor
  · intro e; exact (List.map_injective_iff.mpr Sat.embed_injective e)
  · intro e; rw [e]

/-- **Inputs are constrained to be bits**: if the gadget's constraints are satisfiable at all
(any continuation), every input element is boolean.  Any field, any length, any domain byte.
(Every input slot is an argument of some `api.Xor`: in `Xor5` of the first round after it is
copied into the zero state, or in the absorbing `Xor` of later blocks.) -/
theorem keccakGadget_inputs_bool (dom : ℕ) (data : List (ZMod p)) (k : List (ZMod p) → Prop)
    (h : (Keccak.keccakGadget dom data : SatM p _) k) : ∀ v ∈ data, isBool v :=
  Proofs.Keccak.keccakGadget_inputs_bool dom data k h

/-- a non-boolean input element makes the gadget unsatisfiable (not partial: every input position) -/
theorem keccak_nonbool_input_unsat (dom : ℕ) (data : List (ZMod p)) (v : ZMod p) (hv : v ∈ data)
    (hnb : ¬ isBool v) (k : List (ZMod p) → Prop) : ¬ (Keccak.keccakGadget dom data : SatM p _) k :=
  fun h => hnb (keccakGadget_inputs_bool dom data k h v hv)

/-- **Complete characterisation over a prime field**, for arbitrary field inputs: the gadget is
satisfiable iff the input is a bit string, and then exactly with the `Bool` run as output. -/
theorem keccakGadget_sat_iff [Fact p.Prime] (dom : ℕ) (data : List (ZMod p)) (k : List (ZMod p) → Prop) :
    (Keccak.keccakGadget dom data : SatM p _) k
      ↔ ∃ msg : List Bool, data = msg.map Sat.embed ∧ k ((gadgetSpecBits dom msg).map Sat.embed) := by
  constructor
  · intro h
    obtain ⟨msg, rfl⟩ := (Sat.all_isBool_iff data).mp (keccakGadget_inputs_bool dom data k h)
    exact ⟨msg, rfl, (keccakGadget_sat dom msg k).mp h⟩
  · rintro ⟨msg, rfl, h⟩
    exact (keccakGadget_sat dom msg k).mpr h

#print axioms keccakGadget_sat
#print axioms keccakGadget_inputs_bool
#print axioms keccak_nonbool_input_unsat
#print axioms keccakGadget_sat_iff
#print axioms gadgetSpec_eq_keccak256
#print axioms gadgetSpec_eq_sha3_256
#print axioms newKeccak256_sat
#print axioms newSHA3_256_sat
#print axioms keccak_output_unique
#print axioms sha3_output_unique
#print axioms keccak_output_bits_unique

/-! ## non-vacuity -/

/-- the gadget is satisfiable on every boolean input (so the `↔`s above are not `False ↔ False`) -/
example (dom : ℕ) (msg : List Bool) :
    ∃ o, (Keccak.keccakGadget dom (msg.map Sat.embed) : SatM p _) (· = o) :=
  ⟨_, (keccakGadget_sat dom msg _).mpr rfl⟩

/-- a non-boolean input exists and is rejected: `2` over `ZMod 7` -/
example : ¬ (Keccak.newKeccak256 ([2] : List (ZMod 7)) : SatM 7 _) (fun _ => True) :=
  keccak_nonbool_input_unsat 0x01 [2] 2 (by simp) (by unfold isBool; decide) _

/-- byte-aligned messages exist, e.g. the empty one and any list of 8·n bits -/
example : 8 ∣ ([] : List Bool).length := by decide
example (n : ℕ) : 8 ∣ (List.replicate (8 * n) true).length := by simp

end Smtb.Properties.C04
