import Smtb.Proofs.Keccak.RelGadget
import Smtb.Proofs.Keccak.Final
import Smtb.Proofs.Keccak.Words
import Smtb.Proofs.Keccak.InputBool
/-!
# C04 — the in-circuit Keccak gadget computes Keccak-256 / SHA3-256

Objects:
* `Smtb.Circuit.Keccak.keccakGadget` — the model of `prover/keccak/keccak.go` (trace-tied to Go);
* `SatM p` — satisfiability semantics over `ZMod p` (`Smtb/Proofs/Sat.lean`);
* `Smtb.KeccakSpec.gadgetSpecBits` — the same program run on `Bool` (`Smtb/Model/KeccakSpec.lean`);
* `Smtb.KeccakRef` — the FIPS 202 reference (`Smtb/Model/Keccak.lean`, differentially tested
  against `golang.org/x/crypto/sha3` by `harness/cmd/corr04`).

No primality of `p` is needed for the satisfiability statements: they hold over any `ZMod p`
(only `keccak_output_bits_unique` uses injectivity of `Sat.embed`, i.e. `0 ≠ 1`).
-/
namespace Smtb.Properties.C04
open Smtb Smtb.Circuit Smtb.KeccakSpec

variable {p : ℕ}

/-- On boolean inputs the gadget's constraints are satisfiable in exactly one way and the output
is the `Bool` run of the gadget program.  All lengths, all domain bytes. -/
theorem keccakGadget_sat (dom : ℕ) (msg : List Bool) (k : List (ZMod p) → Prop) :
    (Keccak.keccakGadget dom (msg.map Sat.embed) : SatM p _) k
      ↔ k ((gadgetSpecBits dom msg).map Sat.embed) :=
  Proofs.Keccak.keccakGadget_sat dom msg k

/-- The gadget program with domain byte `0x01` is Keccak-256 (`KECCAK[512]` without suffix,
Ethereum's hash) on byte-aligned messages of every length. -/
theorem gadgetSpec_eq_keccak256 (msg : List Bool) (h : 8 ∣ msg.length) :
    gadgetSpecBits 0x01 msg = KeccakRef.keccak256Bits msg :=
  Proofs.Keccak.gadgetSpec_eq_keccak256 msg h

/-- The gadget program with domain byte `0x06` is SHA3-256 on byte-aligned messages of every
length. -/
theorem gadgetSpec_eq_sha3_256 (msg : List Bool) (h : 8 ∣ msg.length) :
    gadgetSpecBits 0x06 msg = KeccakRef.sha3_256Bits msg :=
  Proofs.Keccak.gadgetSpec_eq_sha3_256 msg h

/-- `keccak.NewKeccak256` in the circuit: satisfiable exactly with the Keccak-256 digest. -/
theorem newKeccak256_sat (msg : List Bool) (h : 8 ∣ msg.length) (k : List (ZMod p) → Prop) :
    (Keccak.newKeccak256 (msg.map Sat.embed) : SatM p _) k
      ↔ k ((KeccakRef.keccak256Bits msg).map Sat.embed) := by
  unfold Keccak.newKeccak256
  rw [keccakGadget_sat, gadgetSpec_eq_keccak256 msg h]

/-- `keccak.NewSHA3_256` in the circuit: satisfiable exactly with the SHA3-256 digest. -/
theorem newSHA3_256_sat (msg : List Bool) (h : 8 ∣ msg.length) (k : List (ZMod p) → Prop) :
    (Keccak.newSHA3_256 (msg.map Sat.embed) : SatM p _) k
      ↔ k ((KeccakRef.sha3_256Bits msg).map Sat.embed) := by
  unfold Keccak.newSHA3_256
  rw [keccakGadget_sat, gadgetSpec_eq_sha3_256 msg h]

/-- The constraints of `NewKeccak256` on a boolean, byte-aligned input are satisfiable with output
`o` iff `o` is the (embedded) Keccak-256 digest. -/
theorem keccak_output_unique (msg : List Bool) (h : 8 ∣ msg.length) (o : List (ZMod p)) :
    (Keccak.newKeccak256 (msg.map Sat.embed) : SatM p _) (· = o)
      ↔ o = (KeccakRef.keccak256Bits msg).map Sat.embed := by
  rw [newKeccak256_sat msg h]
  exact eq_comm

/-- same for `NewSHA3_256` -/
theorem sha3_output_unique (msg : List Bool) (h : 8 ∣ msg.length) (o : List (ZMod p)) :
    (Keccak.newSHA3_256 (msg.map Sat.embed) : SatM p _) (· = o)
      ↔ o = (KeccakRef.sha3_256Bits msg).map Sat.embed := by
  rw [newSHA3_256_sat msg h]
  exact eq_comm

/-- Over a field with `0 ≠ 1` the digest bits themselves are determined: two satisfying outputs
`o = embed bits` have the same `bits`. -/
theorem keccak_output_bits_unique [Fact p.Prime] (msg : List Bool) (h : 8 ∣ msg.length) (bits : List Bool) :
    (Keccak.newKeccak256 (msg.map Sat.embed) : SatM p _) (· = bits.map Sat.embed)
      ↔ bits = KeccakRef.keccak256Bits msg := by
  rw [keccak_output_unique msg h]
  constructor
  · intro e; exact (List.map_injective_iff.mpr Sat.embed_injective e)
  · intro e; rw [e]

/-- **Inputs are constrained to be bits**: if the gadget's constraints are satisfiable at all
(any continuation), every input element is boolean.  Any field, any length, any domain byte.
(Every input slot is an argument of some `api.Xor`: in `Xor5` of the first round after it is
copied into the zero state, or in the absorbing `Xor` of later blocks.) -/
theorem keccakGadget_inputs_bool (dom : ℕ) (data : List (ZMod p)) (k : List (ZMod p) → Prop)
    (h : (Keccak.keccakGadget dom data : SatM p _) k) : ∀ v ∈ data, isBool v :=
  Proofs.Keccak.keccakGadget_inputs_bool dom data k h

/-- a non-boolean input element makes the gadget unsatisfiable (not partial: every input position) -/
theorem keccak_nonbool_input_unsat (dom : ℕ) (data : List (ZMod p)) (v : ZMod p) (hv : v ∈ data)
    (hnb : ¬ isBool v) (k : List (ZMod p) → Prop) : ¬ (Keccak.keccakGadget dom data : SatM p _) k :=
  fun h => hnb (keccakGadget_inputs_bool dom data k h v hv)

/-- **Complete characterisation over a prime field**, for arbitrary field inputs: the gadget is
satisfiable iff the input is a bit string, and then exactly with the `Bool` run as output. -/
theorem keccakGadget_sat_iff [Fact p.Prime] (dom : ℕ) (data : List (ZMod p)) (k : List (ZMod p) → Prop) :
    (Keccak.keccakGadget dom data : SatM p _) k
      ↔ ∃ msg : List Bool, data = msg.map Sat.embed ∧ k ((gadgetSpecBits dom msg).map Sat.embed) := by
  constructor
  · intro h
    obtain ⟨msg, rfl⟩ := (Sat.all_isBool_iff data).mp (keccakGadget_inputs_bool dom data k h)
    exact ⟨msg, rfl, (keccakGadget_sat dom msg k).mp h⟩
  · rintro ⟨msg, rfl, h⟩
    exact (keccakGadget_sat dom msg k).mpr h

#print axioms keccakGadget_sat
#print axioms keccakGadget_inputs_bool
#print axioms keccak_nonbool_input_unsat
#print axioms keccakGadget_sat_iff
#print axioms gadgetSpec_eq_keccak256
#print axioms gadgetSpec_eq_sha3_256
#print axioms newKeccak256_sat
#print axioms newSHA3_256_sat
#print axioms keccak_output_unique
#print axioms sha3_output_unique
#print axioms keccak_output_bits_unique

/-! ## non-vacuity -/

/-- the gadget is satisfiable on every boolean input (so the `↔`s above are not `False ↔ False`) -/
example (dom : ℕ) (msg : List Bool) :
    ∃ o, (Keccak.keccakGadget dom (msg.map Sat.embed) : SatM p _) (· = o) :=
  ⟨_, (keccakGadget_sat dom msg _).mpr rfl⟩

/-- a non-boolean input exists and is rejected: `2` over `ZMod 7` -/
example : ¬ (Keccak.newKeccak256 ([2] : List (ZMod 7)) : SatM 7 _) (fun _ => True) :=
  keccak_nonbool_input_unsat 0x01 [2] 2 (by simp) (by unfold isBool; decide) _

/-- byte-aligned messages exist, e.g. the empty one and any list of 8·n bits -/
example : 8 ∣ ([] : List Bool).length := by decide
example (n : ℕ) : 8 ∣ (List.replicate (8 * n) true).length := by simp

/-! ### concrete digests, evaluated in the kernel

The reference is evaluated through a 64-bit-word implementation proved equal to it
(`Proofs/Keccak/Words.lean`, `sponge_eq_spongeW256`); `decide +kernel` then runs on GMP naturals.
Known answers: Keccak-256("") and SHA3-256("") (well known), SHA3-256 of 200 bytes `0xa3` (NIST
example "SHA3-256, 1600-bit message", two blocks), and 135 zero bytes (padding is the single byte
`0x81` resp. `0x86`). -/

set_option maxRecDepth 100000 in
example : KeccakRef.keccak256 [] =
    [0xc5, 0xd2, 0x46, 0x01, 0x86, 0xf7, 0x23, 0x3c, 0x92, 0x7e, 0x7d, 0xb2, 0xdc, 0xc7, 0x03, 0xc0,
     0xe5, 0x00, 0xb6, 0x53, 0xca, 0x82, 0x27, 0x3b, 0x7b, 0xfa, 0xd8, 0x04, 0x5d, 0x85, 0xa4, 0x70] := by
  rw [Proofs.Keccak.keccak256_eq_W]; decide +kernel

set_option maxRecDepth 100000 in
example : KeccakRef.sha3_256 [] =
    [0xa7, 0xff, 0xc6, 0xf8, 0xbf, 0x1e, 0xd7, 0x66, 0x51, 0xc1, 0x47, 0x56, 0xa0, 0x61, 0xd6, 0x62,
     0xf5, 0x80, 0xff, 0x4d, 0xe4, 0x3b, 0x49, 0xfa, 0x82, 0xd8, 0x0a, 0x4b, 0x80, 0xf8, 0x43, 0x4a] := by
  rw [Proofs.Keccak.sha3_256_eq_W]; decide +kernel

set_option maxRecDepth 100000 in
example : KeccakRef.sha3_256 (List.replicate 200 0xa3) =
    [0x79, 0xf3, 0x8a, 0xde, 0xc5, 0xc2, 0x03, 0x07, 0xa9, 0x8e, 0xf7, 0x6e, 0x83, 0x24, 0xaf, 0xbf,
     0xd4, 0x6c, 0xfd, 0x81, 0xb2, 0x2e, 0x39, 0x73, 0xc6, 0x5f, 0xa1, 0xbd, 0x9d, 0xe3, 0x17, 0x87] := by
  rw [Proofs.Keccak.sha3_256_eq_W]; decide +kernel

set_option maxRecDepth 100000 in
example : KeccakRef.keccak256 (List.replicate 135 0) =
    [0x29, 0xe3, 0x70, 0x4f, 0xee, 0xca, 0x7f, 0xb9, 0xba, 0x22, 0x9f, 0x0f, 0xa0, 0x4d, 0x9b, 0x36,
     0x44, 0x9c, 0xf3, 0xad, 0x6e, 0x1d, 0x85, 0xd9, 0xcf, 0xff, 0x3a, 0x10, 0xdf, 0x9a, 0xbc, 0x3e] := by
  rw [Proofs.Keccak.keccak256_eq_W]; decide +kernel

set_option maxRecDepth 100000 in
example : KeccakRef.sha3_256 (List.replicate 135 0) =
    [0x7d, 0x08, 0x0d, 0x7b, 0xa9, 0x78, 0xa7, 0x5c, 0x8a, 0x7d, 0x1f, 0x9b, 0xe5, 0x66, 0xc8, 0x59,
     0x08, 0x45, 0x09, 0xc9, 0xc2, 0xb4, 0x92, 0x84, 0x35, 0xc2, 0x25, 0xd5, 0x77, 0x7d, 0x98, 0xe3] := by
  rw [Proofs.Keccak.sha3_256_eq_W]; decide +kernel

/-- Keccak-256 of the empty message, as bits -/
theorem keccak256Bits_nil : KeccakRef.keccak256Bits [] = KeccakRef.bytesToBits
    [0xc5, 0xd2, 0x46, 0x01, 0x86, 0xf7, 0x23, 0x3c, 0x92, 0x7e, 0x7d, 0xb2, 0xdc, 0xc7, 0x03, 0xc0,
     0xe5, 0x00, 0xb6, 0x53, 0xca, 0x82, 0x27, 0x3b, 0x7b, 0xfa, 0xd8, 0x04, 0x5d, 0x85, 0xa4, 0x70] := by
  unfold KeccakRef.keccak256Bits
  rw [Proofs.Keccak.sponge_eq_spongeW256]
  decide +kernel

/-- the whole chain on a concrete input: the circuit `NewKeccak256` on the empty message is
satisfiable, and only with the bits of `c5d24601…5d85a470` as output -/
example (o : List (ZMod p)) :
    (Keccak.newKeccak256 ([] : List (ZMod p)) : SatM p _) (· = o) ↔ o = (KeccakRef.bytesToBits
    [0xc5, 0xd2, 0x46, 0x01, 0x86, 0xf7, 0x23, 0x3c, 0x92, 0x7e, 0x7d, 0xb2, 0xdc, 0xc7, 0x03, 0xc0,
     0xe5, 0x00, 0xb6, 0x53, 0xca, 0x82, 0x27, 0x3b, 0x7b, 0xfa, 0xd8, 0x04, 0x5d, 0x85, 0xa4, 0x70]).map Sat.embed := by
  have h := keccak_output_unique (p := p) [] (by decide) o
  rw [keccak256Bits_nil] at h
  exact h

#print axioms keccak256Bits_nil

end Smtb.Properties.C04
