import Smtb.Proofs.Bits
import Mathlib.Tactic.NormNum.Prime
/-!
# C06 — bit-encoding gadgets (`prover/circuit_utils.go:218-291`)

Machine-checked for every prime field `ZMod p` and every width, over the satisfiability
semantics `SatM p` of the gnark API (`(x : SatM p α) k` reads: "the constraints emitted by `x`
are satisfiable with a result of which `k` holds").  The gadget programs are
`Smtb.Circuit.reducedModRCheck / toReducedBigEndian / fromBinaryBigEndian`.

Remarks on the Go code (none is a defect for the widths 32 and 256 used by the circuits):
* `ReducedModRCheck` on fewer than `BitLen(p)` digits emits no constraint at all, not even
  booleanity (first disjunct of `reducedModRCheck_sat`); inside `ToReducedBigEndian` booleanity
  comes from `ToBinary`.
* the byte-swap loop drops the `Size % 8` least significant digits (`swapByteOrder_length`); for
  such sizes the output does not determine the input.  `fromBinaryBigEndian_toReducedBigEndian`
  therefore needs `8 ∣ n`.
-/
namespace Smtb.Properties.C06
open Smtb Smtb.Sat Smtb.Merkle Smtb.Bits CircuitApi

section general
variable {p : ℕ} [Fact p.Prime]

/-- `ReducedModRCheck`: nothing is constrained below the bit length of the modulus; from there on
the input must be a string of booleans denoting (little-endian) a number `< p` -/
theorem reducedModRCheck_sat (bits : List (ZMod p)) (k : Unit → Prop) :
    (Circuit.reducedModRCheck p bits : SatM p Unit) k ↔
      (bits.length < bitLen p ∧ k ()) ∨
      (bitLen p ≤ bits.length ∧
        ∃ bs : List Bool, bits = bs.map Sat.embed ∧ Sat.natOfBits bs < p ∧ k ()) := by
  unfold Circuit.reducedModRCheck
  by_cases h : bits.length < bitLen p
  · rw [if_pos h]
    simp [h, Nat.not_le.mpr h]
  · rw [if_neg h]
    have h0 : (const (m := SatM p) 0 : ZMod p) = embed false := by simp
    rw [h0, SatM.bind_apply, reducedLoop_sat]
    have hle : bitLen p ≤ bits.length := Nat.le_of_not_lt h
    simp only [assertEq_iff, const_eq, Nat.cast_one, embed_eq_one, h, false_and, false_or, hle,
      true_and]
    constructor
    · rintro ⟨bs, hbs, hs, hk⟩
      have hlen : bitLen p ≤ bs.length := by
        have := congrArg List.length hbs
        rw [List.length_reverse, List.length_map] at this
        omega
      rw [scanB_zero p bs hlen, decide_eq_true_eq] at hs
      refine ⟨bs.reverse, ?_, hs, hk⟩
      rw [List.map_reverse, ← hbs, List.reverse_reverse]
    · rintro ⟨bs, rfl, hlt, hk⟩
      refine ⟨bs.reverse, by rw [List.map_reverse], ?_, hk⟩
      rw [List.length_map] at hle
      rw [scanB_zero p bs.reverse (by rwa [List.length_reverse]), List.reverse_reverse,
        decide_eq_true_eq]
      exact hlt

/-- `ToReducedBigEndian`, every width `n`: satisfiable iff `v`'s canonical representative fits in
`n` bits, and then the output is forced to be the byte-swapped `n` low bits of that
representative.  (`n < bitLen p`: uniqueness because `2^n ≤ p`; `bitLen p ≤ n`: the scan is what
excludes the digit strings of `v.val + j * p`.) -/
theorem toReducedBigEndian_sat (v : ZMod p) (n : ℕ) (k : List (ZMod p) → Prop) :
    (Circuit.toReducedBigEndian p v n : SatM p _) k ↔
      v.val < 2 ^ n ∧ k (swapByteOrder ((Merkle.bitsLE n v.val).map Sat.embed)) := by
  unfold Circuit.toReducedBigEndian
  simp only [SatM.bind_apply, toBinary_def, SatM.pure_apply, reducedModRCheck_sat]
  constructor
  · rintro ⟨bits, hlen, hb, hrec, h⟩
    obtain ⟨bs, rfl⟩ := (all_isBool_iff bits).mp hb
    rw [recompose_embed] at hrec
    rw [List.length_map] at hlen h
    have hk : k (swapByteOrder (bs.map embed)) := by
      rcases h with ⟨_, h⟩ | ⟨_, _, _, _, h⟩ <;> exact h
    have hred : bs.length < bitLen p ∨ natOfBits bs < p := by
      rcases h with h | ⟨_, bs', hbs', hlt, _⟩
      · exact Or.inl h.1
      · rw [List.map_injective_iff.mpr embed_injective hbs']; exact Or.inr hlt
    obtain ⟨hv, rfl⟩ := (canonical_bits_iff v n bs).mp ⟨hlen, hrec, hred⟩
    exact ⟨hv, hk⟩
  · rintro ⟨hv, hk⟩
    obtain ⟨hlen, hrec, hred⟩ := (canonical_bits_iff v n _).mpr ⟨hv, rfl⟩
    refine ⟨(bitsLE n v.val).map embed, by rw [List.length_map, hlen],
      fun b hb => by obtain ⟨c, _, rfl⟩ := List.mem_map.mp hb; exact isBool_embed c,
      by rw [recompose_embed, hrec], ?_⟩
    rw [List.length_map]
    by_cases h : (bitsLE n v.val).length < bitLen p
    · exact Or.inl ⟨h, hk⟩
    · refine Or.inr ⟨Nat.le_of_not_lt h, _, rfl, ?_, hk⟩
      rcases hred with h' | h'
      · exact absurd h' h
      · exact h'

/-- if the gadget is satisfiable with output `o`, then `o` is the byte-swapped canonical digit
string of `v` (and `v` fits in `n` bits) -/
theorem toReducedBigEndian_unique (v : ZMod p) (n : ℕ) (o : List (ZMod p))
    (h : (Circuit.toReducedBigEndian p v n : SatM p _) (fun out => out = o)) :
    v.val < 2 ^ n ∧ o = swapByteOrder ((Merkle.bitsLE n v.val).map Sat.embed) := by
  rw [toReducedBigEndian_sat] at h
  exact ⟨h.1, h.2.symm⟩

/-- a value that needs more than `n` bits is rejected, whatever follows -/
theorem toReducedBigEndian_rejects_overflow (v : ZMod p) (n : ℕ) (hv : 2 ^ n ≤ v.val)
    (k : List (ZMod p) → Prop) : ¬ (Circuit.toReducedBigEndian p v n : SatM p _) k := by
  rw [toReducedBigEndian_sat]
  exact fun h => absurd h.1 (Nat.not_lt.mpr hv)

/-- on boolean inputs `ReducedModRCheck` is exactly the executable specification `reducedOk` -/
theorem reducedModRCheck_embed (bs : List Bool) (k : Unit → Prop) :
    (Circuit.reducedModRCheck p (bs.map Sat.embed) : SatM p Unit) k ↔
      reducedOk p bs = true ∧ k () := by
  rw [reducedModRCheck_sat, reducedOk_iff, List.length_map]
  constructor
  · rintro (⟨h, hk⟩ | ⟨_, bs', hbs', hlt, hk⟩)
    · exact ⟨Or.inl h, hk⟩
    · rw [List.map_injective_iff.mpr embed_injective hbs']; exact ⟨Or.inr hlt, hk⟩
  · rintro ⟨h, hk⟩
    by_cases hl : bs.length < bitLen p
    · exact Or.inl ⟨hl, hk⟩
    · exact Or.inr ⟨Nat.le_of_not_lt hl, bs, rfl, h.resolve_left hl, hk⟩

/-- when the scan runs, a non-boolean digit is rejected -/
theorem reducedModRCheck_rejects_nonboolean (bits : List (ZMod p)) (hn : bitLen p ≤ bits.length)
    (b : ZMod p) (hb : b ∈ bits) (hnb : ¬ isBool b) (k : Unit → Prop) :
    ¬ (Circuit.reducedModRCheck p bits : SatM p Unit) k := by
  rw [reducedModRCheck_sat]
  rintro (⟨h, _⟩ | ⟨_, bs, rfl, _, _⟩)
  · omega
  · obtain ⟨c, _, rfl⟩ := List.mem_map.mp hb
    exact hnb (isBool_embed c)

/-- the digits of any `v.val + j * p` satisfy the constraints of `ToBinary(v, n)` alone: without
`ReducedModRCheck` the decomposition would not be unique once `p < 2^n` -/
theorem alias_satisfies_toBinary (v : ZMod p) (j : ℕ) (bs : List Bool)
    (hval : Sat.natOfBits bs = v.val + j * p) :
    (∀ b ∈ bs.map Sat.embed, isBool (p := p) b) ∧ recompose (bs.map (Sat.embed (p := p))) = v := by
  refine ⟨fun b hb => by obtain ⟨c, _, rfl⟩ := List.mem_map.mp hb; exact isBool_embed c, ?_⟩
  rw [recompose_embed, hval]
  simp

/-- … but `ReducedModRCheck` rejects every such alias `v.val + j * p`, `j ≥ 1` -/
theorem reducedModRCheck_rejects_alias (v : ZMod p) (n j : ℕ) (hn : bitLen p ≤ n)
    (bs : List Bool) (hlen : bs.length = n) (hval : Sat.natOfBits bs = v.val + j * p)
    (hj : 1 ≤ j) (k : Unit → Prop) :
    ¬ (Circuit.reducedModRCheck p (bs.map Sat.embed) : SatM p Unit) k := by
  rw [reducedModRCheck_embed, reducedOk_iff]
  rintro ⟨h | h, _⟩
  · omega
  · have : p ≤ j * p := Nat.le_mul_of_pos_left p hj
    omega

/-- the same in the requested form: the alias digits never pass the three constraint groups of
`ToReducedBigEndian` (booleanity, recomposition, reducedness) together -/
theorem toReducedBigEndian_alias_rejected (v : ZMod p) (n j : ℕ) (hn : bitLen p ≤ n) :
    ∀ bs : List Bool, Sat.natOfBits bs = v.val + j * p → j ≥ 1 → bs.length = n →
      ¬ ((∀ b ∈ bs.map Sat.embed, isBool (p := p) b) ∧ recompose (bs.map (Sat.embed (p := p))) = v ∧
          (Circuit.reducedModRCheck p (bs.map Sat.embed) : SatM p Unit) (fun _ => True)) :=
  fun bs hval hj hlen h => reducedModRCheck_rejects_alias v n j hn bs hlen hval hj _ h.2.2

/-- the digits of the modulus itself are rejected -/
theorem reducedModRCheck_rejects_modulus (n : ℕ) (hn : bitLen p ≤ n) (bs : List Bool)
    (hlen : bs.length = n) (hval : Sat.natOfBits bs = p) (k : Unit → Prop) :
    ¬ (Circuit.reducedModRCheck p (bs.map Sat.embed) : SatM p Unit) k :=
  reducedModRCheck_rejects_alias (0 : ZMod p) n 1 hn bs hlen (by simp [hval]) le_rfl k

omit [Fact p.Prime] in
/-- `FromBinaryBigEndian`: byte-swap, then `FromBinary` (booleanity of the kept digits and
little-endian recomposition) -/
theorem fromBinaryBigEndian_sat (bits : List (ZMod p)) (k : ZMod p → Prop) :
    (Circuit.fromBinaryBigEndian bits : SatM p _) k ↔
      (∀ b ∈ swapByteOrder bits, isBool b) ∧ k (recompose (swapByteOrder bits)) := Iff.rfl

theorem fromBinaryBigEndian_embed (bs : List Bool) (k : ZMod p → Prop) :
    (Circuit.fromBinaryBigEndian (bs.map Sat.embed) : SatM p _) k ↔
      k ((Sat.natOfBits (swapByteOrder bs) : ℕ) : ZMod p) := by
  rw [fromBinaryBigEndian_sat, swapByteOrder_map, recompose_embed]
  exact and_iff_right fun b hb => by obtain ⟨c, _, rfl⟩ := List.mem_map.mp hb; exact isBool_embed c

/-- `FromBinaryBigEndian` undoes `ToReducedBigEndian` when the width is a whole number of bytes -/
theorem fromBinaryBigEndian_toReducedBigEndian (v : ZMod p) (n : ℕ) (h8 : 8 ∣ n)
    (k : ZMod p → Prop) :
    ((Circuit.toReducedBigEndian p v n >>= Circuit.fromBinaryBigEndian : SatM p _) k) ↔
      v.val < 2 ^ n ∧ k v := by
  rw [SatM.bind_apply, toReducedBigEndian_sat, swapByteOrder_map, fromBinaryBigEndian_embed]
  refine and_congr_right fun hv => ?_
  rw [swapByteOrder_involutive _ (by rwa [length_bitsLE]), natOfBits_bitsLE, Nat.mod_eq_of_lt hv,
    ZMod.natCast_zmod_val]

/-! ## pure byte-order facts (no field) -/

/-- the bit string emitted for width `8*w` is the big-endian byte string of `x` (of `x % 256^w`:
no range hypothesis is needed), least significant bit first inside each byte -/
theorem swapByteOrder_bitsLE (w x : ℕ) :
    swapByteOrder (Merkle.bitsLE (8 * w) x) = bitsOfBytes (bytesBE w x) :=
  swapByteOrder_bitsLE_mod w x

/-- recomposing a big-endian byte string yields the integer it denotes -/
theorem natOfBits_swapByteOrder (bytes : List ℕ) (h : ∀ b ∈ bytes, b < 256) :
    Sat.natOfBits (swapByteOrder (bitsOfBytes bytes)) = natOfBytesBE bytes :=
  natOfBits_swapByteOrder_bitsOfBytes bytes h

theorem natOfBytesBE_bytesBE (w x : ℕ) (hx : x < 256 ^ w) : natOfBytesBE (bytesBE w x) = x := by
  rw [natOfBytesBE_bytesBE_mod, Nat.mod_eq_of_lt hx]

theorem swapByteOrder_map' {α β : Type} (f : α → β) (l : List α) :
    swapByteOrder (l.map f) = (swapByteOrder l).map f := swapByteOrder_map f l

theorem swapByteOrder_swapByteOrder {α : Type} (l : List α) (h : 8 ∣ l.length) :
    swapByteOrder (swapByteOrder l) = l := swapByteOrder_involutive l h

/-- the Go loop silently drops the `length % 8` least significant positions -/
theorem swapByteOrder_length {α : Type} (l : List α) :
    (swapByteOrder l).length = 8 * (l.length / 8) := length_swapByteOrder l

theorem natOfBitsLE_eq_natOfBits (bs : List Bool) : natOfBitsLE bs = Sat.natOfBits bs :=
  natOfBitsLE_eq bs

theorem bytesOfBits_bitsOfBytes' (bytes : List ℕ) (h : ∀ b ∈ bytes, b < 256) :
    bytesOfBits (bitsOfBytes bytes) = bytes := bytesOfBits_bitsOfBytes bytes h

theorem bitsOfBytes_bytesOfBits' (bs : List Bool) (h : 8 ∣ bs.length) :
    bitsOfBytes (bytesOfBits bs) = bs := bitsOfBytes_bytesOfBits bs h

/-! ## the two gadgets in terms of byte strings -/

/-- for a width of `w` bytes the only accepted output is the embedded bit string of the `w`-byte
big-endian encoding of the canonical representative `v.val` -/
theorem toReducedBigEndian_bytes (v : ZMod p) (w : ℕ) (k : List (ZMod p) → Prop) :
    (Circuit.toReducedBigEndian p v (8 * w) : SatM p _) k ↔
      v.val < 256 ^ w ∧ k ((bitsOfBytes (bytesBE w v.val)).map Sat.embed) := by
  rw [toReducedBigEndian_sat, swapByteOrder_map, swapByteOrder_bitsLE, pow_mul]
  norm_num

/-- fed with the bit string of a byte string, `FromBinaryBigEndian` returns the big-endian number
it denotes, reduced modulo `p` -/
theorem fromBinaryBigEndian_bytes (bytes : List ℕ) (h : ∀ b ∈ bytes, b < 256)
    (k : ZMod p → Prop) :
    (Circuit.fromBinaryBigEndian ((bitsOfBytes bytes).map Sat.embed) : SatM p _) k ↔
      k ((natOfBytesBE bytes : ℕ) : ZMod p) := by
  rw [fromBinaryBigEndian_embed, natOfBits_swapByteOrder bytes h]

end general

/-! ## non-vacuity: `p = 47` (`bitLen 47 = 6`), width 8, and BN254 -/
section examples

local instance fact47 : Fact (Nat.Prime 47) := ⟨by norm_num⟩

/-- the digits of 46 = p - 1 are accepted … -/
example : (Circuit.reducedModRCheck 47 ((Merkle.bitsLE 8 46).map Sat.embed) : SatM 47 Unit)
    (fun _ => True) := by
  rw [reducedModRCheck_embed]; exact ⟨by decide, trivial⟩

/-- … those of 47 = p are rejected … -/
example : ¬ (Circuit.reducedModRCheck 47 ((Merkle.bitsLE 8 47).map Sat.embed) : SatM 47 Unit)
    (fun _ => True) :=
  reducedModRCheck_rejects_modulus 8 (by decide) _ (by decide) (by decide) _

/-- … and so are those of 52 = 5 + p, although they are a valid `ToBinary(5, 8)` witness -/
example : ¬ (Circuit.reducedModRCheck 47 ((Merkle.bitsLE 8 52).map Sat.embed) : SatM 47 Unit)
    (fun _ => True) :=
  reducedModRCheck_rejects_alias (5 : ZMod 47) 8 1 (by decide) _ (by decide) (by decide) le_rfl _

example : (∀ b ∈ (Merkle.bitsLE 8 52).map Sat.embed, isBool (p := 47) b) ∧
    recompose ((Merkle.bitsLE 8 52).map (Sat.embed (p := 47))) = 5 :=
  alias_satisfies_toBinary (5 : ZMod 47) 1 _ (by decide)

/-- `ToReducedBigEndian(46, 8)` is satisfiable, with exactly one output: the byte `0x2e`, least
significant bit first -/
example : (Circuit.toReducedBigEndian 47 (46 : ZMod 47) 8 : SatM 47 _)
    (fun o => o = [false, true, true, true, false, true, false, false].map Sat.embed) := by
  rw [toReducedBigEndian_sat]; exact ⟨by decide, by decide⟩

/-- two bytes: 46 = 0x002e is emitted most significant byte first -/
example : (Circuit.toReducedBigEndian 47 (46 : ZMod 47) 16 : SatM 47 _)
    (fun o => o = (bitsOfBytes [0x00, 0x2e]).map Sat.embed) :=
  (toReducedBigEndian_bytes (46 : ZMod 47) 2 _).mpr ⟨by decide, by decide⟩

/-- below the bit length of the modulus no scan runs; 31 fits in 5 bits, 32 does not -/
example : (Circuit.toReducedBigEndian 47 (31 : ZMod 47) 5 : SatM 47 _) (fun _ => True) := by
  rw [toReducedBigEndian_sat]; exact ⟨by decide, trivial⟩
example : ¬ (Circuit.toReducedBigEndian 47 (32 : ZMod 47) 5 : SatM 47 _) (fun _ => True) :=
  toReducedBigEndian_rejects_overflow _ _ (by decide) _

/-- `FromBinaryBigEndian` of the byte string `01 00` is 256 mod 47 = 21 -/
example : (Circuit.fromBinaryBigEndian ((bitsOfBytes [0x01, 0x00]).map Sat.embed) : SatM 47 _)
    (fun x => x = 21) := by
  rw [fromBinaryBigEndian_bytes _ (by decide)]; decide

/-- a non-boolean digit is rejected -/
example : ¬ (Circuit.reducedModRCheck 47 [0, 0, 2, 0, 0, 0, 0, 0] : SatM 47 Unit) (fun _ => True) :=
  reducedModRCheck_rejects_nonboolean _ (by decide) 2 (by decide) (by unfold isBool; decide) _

/-- BN254 scalar field modulus -/
def r : ℕ := 21888242871839275222246405745257275088548364400416034343698204186575808495617

set_option maxRecDepth 10000 in
example : bitLen r = 254 := by decide
set_option maxRecDepth 10000 in
example : reducedOk r (Merkle.bitsLE 256 (r - 1)) = true := by decide
set_option maxRecDepth 10000 in
example : reducedOk r (Merkle.bitsLE 256 r) = false := by decide
set_option maxRecDepth 10000 in
example : reducedOk r (Merkle.bitsLE 256 (2 ^ 256 - 1)) = false := by decide
set_option maxRecDepth 10000 in
/-- 253 bits: always accepted, nothing to check -/
example : reducedOk r (Merkle.bitsLE 253 (2 ^ 253 - 1)) = true := by decide
/-- the 32 bytes emitted for `r - 1` -/
example : bytesBE 32 (r - 1) =
    [0x30, 0x64, 0x4e, 0x72, 0xe1, 0x31, 0xa0, 0x29, 0xb8, 0x50, 0x45, 0xb6, 0x81, 0x81, 0x58, 0x5d,
     0x28, 0x33, 0xe8, 0x48, 0x79, 0xb9, 0x70, 0x91, 0x43, 0xe1, 0xf5, 0x93, 0xf0, 0x00, 0x00, 0x00] := by
  decide

end examples

/-! ## axioms -/
#print axioms reducedModRCheck_sat
#print axioms toReducedBigEndian_sat
#print axioms toReducedBigEndian_unique
#print axioms toReducedBigEndian_rejects_overflow
#print axioms reducedModRCheck_embed
#print axioms reducedModRCheck_rejects_nonboolean
#print axioms alias_satisfies_toBinary
#print axioms reducedModRCheck_rejects_alias
#print axioms toReducedBigEndian_alias_rejected
#print axioms reducedModRCheck_rejects_modulus
#print axioms fromBinaryBigEndian_sat
#print axioms fromBinaryBigEndian_embed
#print axioms fromBinaryBigEndian_toReducedBigEndian
#print axioms swapByteOrder_bitsLE
#print axioms natOfBits_swapByteOrder
#print axioms natOfBytesBE_bytesBE
#print axioms swapByteOrder_map'
#print axioms swapByteOrder_swapByteOrder
#print axioms swapByteOrder_length
#print axioms natOfBitsLE_eq_natOfBits
#print axioms bytesOfBits_bitsOfBytes'
#print axioms bitsOfBytes_bytesOfBits'
#print axioms toReducedBigEndian_bytes
#print axioms fromBinaryBigEndian_bytes

end Smtb.Properties.C06
