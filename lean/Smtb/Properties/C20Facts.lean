import Smtb.Gen.Facts
/-!
# C20 — regenerated-facts obligations: every response passes through the instrumentation

The counter model (`Smtb/Model/Metrics.lean`) assumes that each request to `/prove` runs
gauge++ → handler → counter++ → gauge-- exactly once, i.e. that
* `wrapped_http.Handle` applies `InstrumentHandlerInFlight` outermost, `InstrumentHandlerCounter`
  next, only further promhttp instrumentation inside, and the registered handler innermost;
* the prover `http.Server` serves the wrapped mux itself: nothing outside the instrumentation can
  produce a response (a timeout or recovery wrapper around the mux would send responses that are
  never counted).
Regenerated from the current tree by a go/ast walk on every run.
-/
namespace Smtb.Properties.C20Facts
open Smtb

theorem instrumentation_order :
    (Gen.instrumentationChain.take 2).map (·.1) = ["promhttp.InstrumentHandlerInFlight", "promhttp.InstrumentHandlerCounter"]
    ∧ Gen.instrumentationChain.getLast? = some ("handler", false)
    ∧ (Gen.instrumentationChain.dropLast.all fun w => w.2) = true := by decide

theorem servers_serve_the_muxes_directly :
    Gen.httpServerHandlers = [("Run", "metricsMux"), ("Run", "proverMux")] := by decide

end Smtb.Properties.C20Facts

#print axioms Smtb.Properties.C20Facts.instrumentation_order
#print axioms Smtb.Properties.C20Facts.servers_serve_the_muxes_directly
