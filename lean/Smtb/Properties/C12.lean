import Smtb.Gen.Facts
import Smtb.Circuit.Main
/-!
# C12 — one public input, secret everything else; deletion depth guard (T-facts obligations)

`Smtb/Gen/Facts.lean` is regenerated from the current tree on every run (reflection over
`prover.InsertionMbuCircuit` / `prover.DeletionMbuCircuit`); the statements below are `decide`d
against the regenerated tables, so a changed struct tag breaks this file.
gnark's tag rule (`frontend/schema`): `gnark:"name,option"` (the extractor splits the tag at commas); option `public` makes the leaf public,
`secret` / nothing makes it secret, name `-` drops it.
-/
namespace Smtb.Properties.C12
open Smtb

abbrev Field := String × String × String × List String
def isPublic (f : Field) : Bool := f.2.2.2.contains "public"
def isDropped (f : Field) : Bool := f.2.2.1 == "-"
/-- fields that hold circuit variables (scalars, slices, slices of slices) -/
def isVariable (ty : String) : Bool :=
  ty == "frontend.Variable" || ty == "[]frontend.Variable" || ty == "[][]frontend.Variable"

def publicFields (fs : List Field) : List String :=
  (fs.filter fun f => isVariable f.2.1 && isPublic f).map (·.1)
def secretFields (fs : List Field) : List String :=
  (fs.filter fun f => isVariable f.2.1 && !isPublic f && !isDropped f).map (·.1)
def droppedFields (fs : List Field) : List String :=
  (fs.filter fun f => isVariable f.2.1 && isDropped f).map (·.1)

/-- **InputHash is the only public variable of the insertion circuit** -/
theorem insertion_one_public : publicFields Gen.insertionCircuitFields = ["InputHash"] := by decide
/-- **InputHash is the only public variable of the deletion circuit** -/
theorem deletion_one_public : publicFields Gen.deletionCircuitFields = ["InputHash"] := by decide

/-- every other variable is a secret input, none is dropped from the witness -/
theorem insertion_secrets :
    secretFields Gen.insertionCircuitFields = ["StartIndex", "PreRoot", "PostRoot", "IdComms", "MerkleProofs"]
    ∧ droppedFields Gen.insertionCircuitFields = [] := by decide
theorem deletion_secrets :
    secretFields Gen.deletionCircuitFields = ["DeletionIndices", "PreRoot", "PostRoot", "IdComms", "MerkleProofs"]
    ∧ droppedFields Gen.deletionCircuitFields = [] := by decide

/-- the field order is the input order assumed by the traces (`Driver/TraceCmd.lean`) -/
theorem field_order :
    Gen.insertionCircuitFields.map (·.1) =
      ["InputHash", "StartIndex", "PreRoot", "PostRoot", "IdComms", "MerkleProofs", "BatchSize", "Depth"]
    ∧ Gen.deletionCircuitFields.map (·.1) =
      ["InputHash", "DeletionIndices", "PreRoot", "PostRoot", "IdComms", "MerkleProofs", "BatchSize", "Depth"] := by decide

/-- deletion circuits deeper than 31 levels are refused (model of deletion_circuit.go:31-33) -/
theorem deletion_depth_guard (d : Nat) : Circuit.deletionDepthOk d = true ↔ d ≤ 31 := by
  simp [Circuit.deletionDepthOk]

/-- **every construction path compiles with the same field, the same builder and no compile
options**: `BuildR1CS*` (setup, R1CS export) and `Import*Setup` (key import) all call
`frontend.Compile(ecc.BN254.ScalarField(), r1cs.NewBuilder, <circuit>)` with nothing after the
circuit, so the constraint system cannot depend on the path through an option. -/
theorem compile_calls_uniform :
    Gen.compileCalls.map (·.1) = ["BuildR1CSDeletion", "BuildR1CSInsertion", "ImportDeletionSetup", "ImportInsertionSetup"]
    ∧ Gen.compileCalls.all (fun c => c.2.take 2 == ["ecc.BN254.ScalarField()", "r1cs.NewBuilder"] && c.2.length == 3) = true := by
  decide

theorem modes : Gen.insertionMode = "insertion" ∧ Gen.deletionMode = "deletion" := by decide

end Smtb.Properties.C12

#print axioms Smtb.Properties.C12.insertion_one_public
#print axioms Smtb.Properties.C12.deletion_one_public
#print axioms Smtb.Properties.C12.insertion_secrets
#print axioms Smtb.Properties.C12.deletion_secrets
#print axioms Smtb.Properties.C12.field_order
#print axioms Smtb.Properties.C12.deletion_depth_guard
#print axioms Smtb.Properties.C12.modes
#print axioms Smtb.Properties.C12.compile_calls_uniform
