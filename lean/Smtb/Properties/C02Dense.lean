import Smtb.Model.Merkle
import Smtb.Model.Batch
import Smtb.Proofs.Tree
import Smtb.Proofs.DenseBatch
import Mathlib.Data.Nat.Pairing

/-!
# C02 at tree level — what an accepted deletion batch means for the Merkle tree

The circuit theorems (`Properties/C02.lean`, `C03.lean`) say: the deletion gadget is satisfiable
with result `post` **iff** `Batch.deletionSpec … = some post`, and `deletionSpec` is a chain of
per-slot checks "the presented sibling path with the presented item recomputes to the running
root" (real slots, index `< 2^d`), "nothing" (padding slots, index in `[2^d, 2^(d+1))`), and
root recomputations with the empty leaf.  This file proves what that chain *means* for the dense
reference tree `Merkle.rootOf`:

> a deletion batch is accepted from the root of the tree over leaves `f` **iff** every index is
> `< 2^(d+1)`, every real slot presents the value the leaf REALLY HAS in the tree whose root is
> the running root together with the GENUINE sibling path, and `post` is the root of the tree with
> those leaves cleared; padding slots are unconstrained and change nothing.

## The assumption `hinj`

As in `Properties/C01Dense.lean`: abstract carrier `F`, abstract `zero`, abstract `H`, and the
**explicit hypothesis** `hinj : ∀ a b c d, H a b = H c d → a = c ∧ b = d` (collision-freedom),
a hypothesis of the theorems and never an axiom.  For the real Poseidon2 hash it is a
cryptographic assumption; the circuit theorems do not need it.  These theorems are the bridge
from "the path reproduces the root" to "the leaf really has that value in the tree with that
root".  Statements that do not mention `hinj` hold for every `H`.

## Statements

* `deleteLeaves_spec`, `deleteLeaves_take_succ` — the running leaves
  `f_0 = f`, `f_{k+1} = if idx_k < 2^d then setLeaf f_k idx_k zero else f_k`.
* `deletion_dense` — the batch, for an arbitrary index decoding `val` (composes directly with
  `C02.deletionProof_sat_iff` at `val := ZMod.val`); `deletion_dense_nat` — `F := ℕ`, `val := id`.
* `deletion_too_large_none` — any index `≥ 2^(d+1)` makes the whole batch `none`.
* `deletion_all_padding` — padding slots are accepted whatever they carry, root unchanged.
* `deletion_duplicate_zero`, `deletion_duplicate_stale_rejected` — a repeated real index must
  present `zero` the second time.
-/
namespace Smtb.C02Dense

open Smtb.Merkle Smtb.Batch Smtb.Tree Smtb.DenseBatch

variable {F : Type}

/-! ## 1. The running leaf assignment -/

section Leaves

variable [Inhabited F] (zero : F)

/-- closed form of `deleteLeaves zero d f idxs` (`f` with the in-range positions of `idxs`
cleared): positions that occur in `idxs` and are `< 2^d` hold `zero`, all others are untouched -/
theorem deleteLeaves_spec (d : Nat) (f : Nat → F) (idxs : List Nat) (j : Nat) :
    deleteLeaves zero d f idxs j = if j ∈ idxs ∧ j < 2 ^ d then zero else f j :=
  deleteLeaves_apply zero d idxs f j

theorem deleteLeaves_take_zero (d : Nat) (f : Nat → F) (idxs : List Nat) :
    deleteLeaves zero d f (idxs.take 0) = f := rfl

/-- `f_{k+1} = setLeaf f_k idx_k zero` for a real slot, `f_{k+1} = f_k` for a padding slot -/
theorem deleteLeaves_take_succ (d : Nat) (f : Nat → F) (idxs : List Nat) (k idx : Nat)
    (h : idxs[k]? = some idx) :
    deleteLeaves zero d f (idxs.take (k + 1)) =
      if idx < 2 ^ d then setLeaf (deleteLeaves zero d f (idxs.take k)) idx zero
      else deleteLeaves zero d f (idxs.take k) := by
  have hk : k < idxs.length := by
    rcases Nat.lt_or_ge k idxs.length with h' | h'
    · exact h'
    · rw [List.getElem?_eq_none h'] at h; cases h
  have hv : idxs[k] = idx := by
    rw [List.getElem?_eq_getElem hk] at h; exact Option.some.inj h
  rw [List.take_succ_eq_append_getElem hk, deleteLeaves_append, hv]
  rfl

/-- padding indices never change the leaves -/
theorem deleteLeaves_padding_noop (d : Nat) (f : Nat → F) (idxs : List Nat)
    (h : ∀ i ∈ idxs, 2 ^ d ≤ i) : deleteLeaves zero d f idxs = f :=
  deleteLeaves_padding zero d idxs f h

end Leaves

/-! ## 2. The deletion batch -/

section Deletion

variable [DecidableEq F] [Inhabited F] (H : F → F → F) (zero : F)

section WithInj

variable (hinj : ∀ a b c d, H a b = H c d → a = c ∧ b = d)
include hinj

/-- **C02 at tree level.**  With `f_k = deleteLeaves zero d f ((idxs.take k).map val)` (the leaves
after slots `0..k`), the batch is accepted from `pre = rootOf H d f` with result `post` iff for
every slot `k` with index `idx = val idxs[k]`:
* `idx < 2^(d+1)`;
* if `idx < 2^d` (real slot): the presented item is the value leaf `idx` REALLY has in `f_k`
  (whose root is the running root) and the presented path is the genuine sibling path of leaf
  `idx` in `f_k`; the leaf is then cleared;
* if `2^d ≤ idx < 2^(d+1)` (padding slot): no condition on its item or path, `f_{k+1} = f_k`;
and `post` is the root of the final tree. -/
theorem deletion_dense (val : F → Nat) (d : Nat) (f : Nat → F) (idxs ids : List F)
    (proofs : List (List F)) (post : F)
    (hlen1 : idxs.length = ids.length) (hlen2 : ids.length = proofs.length)
    (hprf : ∀ prf ∈ proofs, prf.length = d) :
    deletionSpec H zero val d (rootOf H d f) idxs ids proofs = some post ↔
      (∀ k idx, idxs[k]? = some idx →
        val idx < 2 ^ (d + 1) ∧
        (val idx < 2 ^ d →
          ids[k]? = some (deleteLeaves zero d f ((idxs.take k).map val) (val idx)) ∧
          proofs[k]? = some (pathOf H d (deleteLeaves zero d f ((idxs.take k).map val))
            (val idx)))) ∧
      post = rootOf H d (deleteLeaves zero d f (idxs.map val)) :=
  deletionSpec_dense_aux H zero hinj val d idxs ids proofs f post hlen1 hlen2 hprf

/-- **A duplicated real index must present `zero` the second time.**  If the batch is accepted
and slots `j < k` carry the same index `< 2^d`, the item of slot `k` is `zero`. -/
theorem deletion_duplicate_zero (val : F → Nat) (d : Nat) (f : Nat → F) (idxs ids : List F)
    (proofs : List (List F)) (post : F)
    (hlen1 : idxs.length = ids.length) (hlen2 : ids.length = proofs.length)
    (hprf : ∀ prf ∈ proofs, prf.length = d)
    (hacc : deletionSpec H zero val d (rootOf H d f) idxs ids proofs = some post)
    (j k : Nat) (a b : F) (hjk : j < k) (hj : idxs[j]? = some a) (hk : idxs[k]? = some b)
    (hsame : val a = val b) (hreal : val b < 2 ^ d) :
    ids[k]? = some zero := by
  have h := ((deletion_dense H zero hinj val d f idxs ids proofs post hlen1 hlen2 hprf).1 hacc).1
    k b hk
  rw [(h.2 hreal).1]
  congr 1
  apply deleteLeaves_of_mem zero d _ f _ hreal
  rw [← hsame]
  apply List.mem_map_of_mem
  have hj' : j < idxs.length := by
    rcases Nat.lt_or_ge j idxs.length with h' | h'
    · exact h'
    · rw [List.getElem?_eq_none h'] at hj; cases hj
  have : idxs[j] = a := by
    rw [List.getElem?_eq_getElem hj'] at hj; exact Option.some.inj hj
  rw [← this, List.mem_take_iff_getElem]
  exact ⟨j, by omega, rfl⟩

/-- …so presenting anything else (e.g. the stale value) for the second occurrence is rejected,
whatever paths are supplied -/
theorem deletion_duplicate_stale_rejected (val : F → Nat) (d : Nat) (f : Nat → F)
    (idxs ids : List F) (proofs : List (List F))
    (hlen1 : idxs.length = ids.length) (hlen2 : ids.length = proofs.length)
    (hprf : ∀ prf ∈ proofs, prf.length = d)
    (j k : Nat) (a b item : F) (hjk : j < k) (hj : idxs[j]? = some a) (hk : idxs[k]? = some b)
    (hsame : val a = val b) (hreal : val b < 2 ^ d)
    (hitem : ids[k]? = some item) (hne : item ≠ zero) :
    deletionSpec H zero val d (rootOf H d f) idxs ids proofs = none := by
  cases h : deletionSpec H zero val d (rootOf H d f) idxs ids proofs with
  | none => rfl
  | some post =>
    have := deletion_duplicate_zero H zero hinj val d f idxs ids proofs post hlen1 hlen2 hprf h
      j k a b hjk hj hk hsame hreal
    rw [hitem] at this
    exact absurd (Option.some.inj this) hne

/-- a real slot that presents a value the leaf does not have is rejected, whatever paths are
supplied -/
theorem deletion_wrong_item_rejected (val : F → Nat) (d : Nat) (f : Nat → F)
    (idxs ids : List F) (proofs : List (List F))
    (hlen1 : idxs.length = ids.length) (hlen2 : ids.length = proofs.length)
    (hprf : ∀ prf ∈ proofs, prf.length = d)
    (k : Nat) (b item : F) (hk : idxs[k]? = some b) (hreal : val b < 2 ^ d)
    (hitem : ids[k]? = some item)
    (hne : item ≠ deleteLeaves zero d f ((idxs.take k).map val) (val b)) :
    deletionSpec H zero val d (rootOf H d f) idxs ids proofs = none := by
  cases h : deletionSpec H zero val d (rootOf H d f) idxs ids proofs with
  | none => rfl
  | some post =>
    have := (((deletion_dense H zero hinj val d f idxs ids proofs post hlen1 hlen2 hprf).1 h).1
      k b hk).2 hreal
    rw [hitem] at this
    exact absurd (Option.some.inj this.1) hne

end WithInj

omit [Inhabited F] in
/-- **Any index `≥ 2^(d+1)` makes the whole batch `none`** (every `H`, every starting root). -/
theorem deletion_too_large_none (val : F → Nat) (d : Nat) (pre : F) (idxs ids : List F)
    (proofs : List (List F))
    (hlen1 : idxs.length = ids.length) (hlen2 : ids.length = proofs.length)
    (idx : F) (hm : idx ∈ idxs) (hbig : 2 ^ (d + 1) ≤ val idx) :
    deletionSpec H zero val d pre idxs ids proofs = none :=
  deletionSpec_too_large H zero val d idxs ids proofs pre idx hlen1 hlen2 hm hbig

omit [Inhabited F] in
/-- **Padding slots are free**: a batch consisting of padding slots only is accepted with the
unchanged root whatever its items and paths contain (every `H`, every starting root). -/
theorem deletion_all_padding (val : F → Nat) (d : Nat) (pre : F) (idxs ids : List F)
    (proofs : List (List F))
    (hpad : ∀ idx ∈ idxs, 2 ^ d ≤ val idx ∧ val idx < 2 ^ (d + 1)) :
    deletionSpec H zero val d pre idxs ids proofs = some pre :=
  deletionSpec_all_padding H zero val d idxs ids proofs pre hpad

end Deletion

set_option linter.constructorNameAsVariable false in
/-- **C02 at tree level over `ℕ`** (`val := id`: indices are naturals; the circuit theorem feeds
`idx.val`).  `f_k = deleteLeaves zero d f (idxs.take k)`. -/
theorem deletion_dense_nat (H : Nat → Nat → Nat) (zero : Nat)
    (hinj : ∀ a b c d, H a b = H c d → a = c ∧ b = d)
    (d : Nat) (f : Nat → Nat) (idxs ids : List Nat) (proofs : List (List Nat)) (post : Nat)
    (hlen1 : idxs.length = ids.length) (hlen2 : ids.length = proofs.length)
    (hprf : ∀ prf ∈ proofs, prf.length = d) :
    deletionSpec H zero id d (rootOf H d f) idxs ids proofs = some post ↔
      (∀ k idx, idxs[k]? = some idx →
        idx < 2 ^ (d + 1) ∧
        (idx < 2 ^ d →
          ids[k]? = some (deleteLeaves zero d f (idxs.take k) idx) ∧
          proofs[k]? = some (pathOf H d (deleteLeaves zero d f (idxs.take k)) idx))) ∧
      post = rootOf H d (deleteLeaves zero d f idxs) := by
  have := deletion_dense H zero hinj id d f idxs ids proofs post hlen1 hlen2 hprf
  simpa only [List.map_id_fun, id_eq] using this

/-! ## Non-vacuity

`F := ℕ`, `zero := 0`, `H a b := Nat.pair a b + 1` (injective, and `0` is not a hash value). -/

section Example

def exH (a b : Nat) : Nat := Nat.pair a b + 1

theorem exH_inj : ∀ a b c d, exH a b = exH c d → a = c ∧ b = d := by
  intro a b c d h
  exact Nat.pair_eq_pair.1 (Nat.add_right_cancel h)

/-- depth 2, leaves `[9, 4, 0, 0]` -/
def exF : Nat → Nat := fun j => if j = 0 then 9 else if j = 1 then 4 else 0

example : pathOf exH 2 exF 1 = [9, 1] := by decide

/-- delete leaf 1, then a padding slot (index 4) with garbage contents, then delete leaf 1 again
presenting `0`: accepted … -/
theorem ex_accept : deletionSpec exH 0 id 2 (rootOf exH 2 exF) [1, 4, 1] [4, 55, 0]
    [[9, 1], [1, 2], [9, 1]] = some (rootOf exH 2 (deleteLeaves 0 2 exF [1, 4, 1])) := by decide

/-- … the resulting leaves are `[9, 0, 0, 0]` and the root changed -/
example : (List.range 4).map (deleteLeaves 0 2 exF [1, 4, 1]) = [9, 0, 0, 0] := by decide
example : rootOf exH 2 (deleteLeaves 0 2 exF [1, 4, 1]) ≠ rootOf exH 2 exF := by decide

/-- so the right-hand side of `deletion_dense_nat` is inhabited (obtained through the theorem) -/
example :
    (∀ k idx, [1, 4, 1][k]? = some idx → idx < 2 ^ (2 + 1) ∧ (idx < 2 ^ 2 →
      [4, 55, 0][k]? = some (deleteLeaves 0 2 exF ([1, 4, 1].take k) idx) ∧
      [[9, 1], [1, 2], [9, 1]][k]? = some (pathOf exH 2 (deleteLeaves 0 2 exF ([1, 4, 1].take k)) idx))) ∧
    rootOf exH 2 (deleteLeaves 0 2 exF [1, 4, 1]) = rootOf exH 2 (deleteLeaves 0 2 exF [1, 4, 1]) :=
  (deletion_dense_nat exH 0 exH_inj 2 exF [1, 4, 1] [4, 55, 0] [[9, 1], [1, 2], [9, 1]] _ rfl rfl
    (by decide)).1 ex_accept

/-- presenting the stale value `4` for the second deletion of leaf 1 is rejected for EVERY choice
of sibling paths (obtained from the theorem; no finite evaluation gives this) -/
example (proofs : List (List Nat)) (hlen : proofs.length = 2) (hprf : ∀ prf ∈ proofs, prf.length = 2) :
    deletionSpec exH 0 id 2 (rootOf exH 2 exF) [1, 1] [4, 4] proofs = none :=
  deletion_duplicate_stale_rejected exH 0 exH_inj id 2 exF [1, 1] [4, 4] proofs rfl hlen.symm hprf
    0 1 1 1 4 (by decide) rfl rfl rfl (by decide) rfl (by decide)

/-- presenting a value leaf 0 does not hold is rejected for every choice of sibling paths -/
example (proofs : List (List Nat)) (hlen : proofs.length = 1) (hprf : ∀ prf ∈ proofs, prf.length = 2) :
    deletionSpec exH 0 id 2 (rootOf exH 2 exF) [0] [8] proofs = none :=
  deletion_wrong_item_rejected exH 0 exH_inj id 2 exF [0] [8] proofs rfl hlen.symm hprf
    0 0 8 rfl (by decide) rfl (by decide)

/-- an index `≥ 2^(d+1) = 8` anywhere makes the batch `none` -/
example : deletionSpec exH 0 id 2 (rootOf exH 2 exF) [1, 8] [4, 0] [[9, 1], [0, 0]] = none := by decide
example (pre : Nat) (ids : List Nat) (proofs : List (List Nat)) (h1 : ids.length = 2)
    (h2 : proofs.length = 2) : deletionSpec exH 0 id 2 pre [1, 8] ids proofs = none :=
  deletion_too_large_none exH 0 id 2 pre [1, 8] ids proofs h1.symm (h1.trans h2.symm) 8
    (by decide) (by decide)

end Example

end Smtb.C02Dense

#print axioms Smtb.C02Dense.deleteLeaves_spec
#print axioms Smtb.C02Dense.deleteLeaves_take_succ
#print axioms Smtb.C02Dense.deleteLeaves_padding_noop
#print axioms Smtb.C02Dense.deletion_dense
#print axioms Smtb.C02Dense.deletion_duplicate_zero
#print axioms Smtb.C02Dense.deletion_duplicate_stale_rejected
#print axioms Smtb.C02Dense.deletion_wrong_item_rejected
#print axioms Smtb.C02Dense.deletion_too_large_none
#print axioms Smtb.C02Dense.deletion_all_padding
#print axioms Smtb.C02Dense.deletion_dense_nat
#print axioms Smtb.C02Dense.exH_inj
#print axioms Smtb.C02Dense.ex_accept
