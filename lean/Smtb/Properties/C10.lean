import Smtb.Proofs.ProofJson
/-!
# C10 — the JSON form of a proof round-trips

Subject: `Proof.MarshalJSON` / `Proof.UnmarshalJSON` (`/repo/prover/marshal.go:187-253`) at the
state after the repair commit `0168fd6`.  Model: `Smtb/Model/ProofJson.lean` on the 256-byte raw
buffer of gnark's `WriteRawTo` / `ReadFrom` (layout `A.x A.y | B.x.A1 B.x.A0 B.y.A1 B.y.A0 | C.x C.y`
assumed about gnark-crypto and validated, like the whole model, by the differential test
`harness/cmd/corr10` ↔ `driver corr c10`).  `unmarshal` returns the buffer handed to `ReadFrom`;
since `ReadFrom ∘ WriteRawTo = id` on proofs, `unmarshal (marshal buf) = ok buf` is "decoding the
JSON yields a proof equal to the original".

Everything is text level (`marshal` is the exact output of `json.Marshal`, `unmarshal` scans that
text with the `encoding/json` model of C16); the quantifier is **all** 256-byte buffers, in
particular all proofs with coordinates that have leading zero bytes.  No `_partial` statement for
the current code; `unmarshalOld_partial` / `unmarshalOld_defect` document the pre-repair decoder.
-/
namespace Smtb.Properties.C10
open Smtb Smtb.Codec Smtb.Bits Smtb.ProofJson

/-- **Round trip, full strength**: every buffer of 256 bytes. -/
theorem unmarshal_marshal (buf : List ℕ) (h : buf.length = 256) (hb : ∀ b ∈ buf, b < 256) :
    unmarshal (marshal buf) = .ok buf := by
  unfold unmarshal marshal
  rw [String.toList_ofList]
  exact unmarshalChars_marshalChars buf h hb

/-- the same through the byte front end for the (ASCII) output of `marshal` is covered by the
differential test; here: the eight numbers `fromHex` returns are the eight coordinates -/
theorem decoded_coordinates (buf : List ℕ) :
    decodeInts (marshal buf).toList = .ok ((wordNats buf).map Int.ofNat) := by
  unfold marshal
  rw [String.toList_ofList, marshalChars_eq]
  exact decodeInts_jsonOfWords _ (wordNats_length buf)

/-- the hex words: word `i` is `toHex` of the number denoted by bytes `32i … 32i+31` -/
theorem marshalWords_eq (buf : List ℕ) :
    marshalWords buf =
      (List.range 8).map fun i => toHex (natOfBytesBE ((buf.drop (32 * i)).take 32)) := by
  simp [marshalWords, wordNats, word, List.map_map, Function.comp_def]

/-- hex text of coordinate `i` -/
def W (buf : List ℕ) (i : ℕ) : Chars := toHexChars (natOfBytesBE ((buf.drop (32 * i)).take 32))

/-- **Order of the coordinates**: the text produced by `marshal` scans (with the JSON scanner of
`encoding/json`) to the object with keys `ar`, `bs`, `krs` in this order, whose values list the
words in the order `ar[0], ar[1], bs[0][0], bs[0][1], bs[1][0], bs[1][1], krs[0], krs[1]`
= `A.x, A.y, B.x1, B.x0, B.y1, B.y0, C.x, C.y`; no hypothesis on the buffer. -/
theorem marshal_order (buf : List ℕ) :
    parseDoc (marshal buf).toList = .ok (JVal.obj
      [("ar".toList, JVal.arr [JVal.str (W buf 0), JVal.str (W buf 1)]),
       ("bs".toList, JVal.arr [JVal.arr [JVal.str (W buf 2), JVal.str (W buf 3)],
                               JVal.arr [JVal.str (W buf 4), JVal.str (W buf 5)]]),
       ("krs".toList, JVal.arr [JVal.str (W buf 6), JVal.str (W buf 7)])]) := by
  unfold marshal
  rw [String.toList_ofList, marshalChars_eq, parseDoc_jsonOfWords _ (by
    intro x hx
    obtain ⟨n, _, rfl⟩ := List.mem_map.mp hx
    exact toHexChars_plain n)]
  rfl

/-- **A coordinate that does not fit 32 bytes is rejected** (whatever its sign). -/
theorem coordinate_too_long_rejected (i : ℤ) (h : 2 ^ 256 ≤ i.natAbs) : slot i = .error .tooLong :=
  slot_tooLong h

/-- every coordinate below `2^256` is placed right-aligned, as the fixed-width big-endian form -/
theorem coordinate_placement (n : ℕ) (h : n < 2 ^ 256) : slot (Int.ofNat n) = .ok (bytesBE 32 n) :=
  slot_ofNat h

/-- a negative number is placed as its magnitude (`big.Int.Bytes()` is the absolute value): the
decoder does not reject `"-0x5"`; recorded behaviour, outside the property's quantifier -/
theorem negative_placed_as_magnitude (i : ℤ) : slot (-i) = slot i := by
  unfold slot; rw [Int.natAbs_neg]

/-! ## The pre-repair decoder (regression model of the defect repaired by `0168fd6`) -/

/-- it round-tripped exactly the proofs all of whose coordinates have a non-zero leading byte -/
theorem unmarshalOld_partial (buf : List ℕ) (h : buf.length = 256) (hb : ∀ b ∈ buf, b < 256)
    (hlo : ∀ i, i < 8 → 2 ^ 248 ≤ natOfBytesBE ((buf.drop (32 * i)).take 32)) :
    unmarshalOld (marshal buf) = .ok buf := by
  unfold unmarshalOld marshal
  rw [String.toList_ofList]
  exact unmarshalOldChars_marshalChars buf h hb hlo

/-- a buffer whose first coordinate is 1 (31 leading zero bytes) -/
def defectBuf : List ℕ := List.replicate 31 0 ++ [1] ++ List.replicate 224 0

theorem defectBuf_ok : defectBuf.length = 256 ∧ ∀ b ∈ defectBuf, b < 256 := by decide +kernel

/-- the old decoder moved the byte to the front of the slot … -/
theorem unmarshalOld_defect : unmarshalOld (marshal defectBuf) ≠ .ok defectBuf := by
  decide +kernel

theorem unmarshalOld_defect_value :
    unmarshalOld (marshal defectBuf) = .ok (1 :: List.replicate 255 0) := by decide +kernel

/-- … the current one returns the original bytes (instance of `unmarshal_marshal`, also by
evaluation) -/
theorem unmarshal_defectBuf : unmarshal (marshal defectBuf) = .ok defectBuf := by decide +kernel

/-- the old decoder silently truncated a coordinate of more than 32 bytes -/
example : slotOld (2 ^ 256 + 5) = 1 :: List.replicate 31 0 := by decide +kernel

/-! ## Non-vacuity: exact texts -/

example : marshal defectBuf =
    "{\"ar\":[\"0x1\",\"0x0\"],\"bs\":[[\"0x0\",\"0x0\"],[\"0x0\",\"0x0\"]],\"krs\":[\"0x0\",\"0x0\"]}" := by
  decide +kernel

/-- a buffer with eight different words: `i+1` in the last byte, `0xab` in the first byte of word 3 -/
def sampleBuf : List ℕ :=
  (List.range 8).flatMap fun i => (if i = 3 then 0xab else 0) :: (List.replicate 30 0 ++ [i + 1])

example : marshal sampleBuf =
    "{\"ar\":[\"0x1\",\"0x2\"],\"bs\":[[\"0x3\",\"0xab00000000000000000000000000000000000000000000000000000000000004\"],[\"0x5\",\"0x6\"]],\"krs\":[\"0x7\",\"0x8\"]}" := by
  decide +kernel

example : unmarshal (marshal sampleBuf) = .ok sampleBuf :=
  unmarshal_marshal sampleBuf (by decide +kernel) (by decide +kernel)

/-- formatting variants of the same numbers decode to the same bytes: upper case, leading zeros,
decimal, whitespace, key order, unknown and case-folded keys, surplus array elements -/
example : unmarshal " { \"KRS\" : [\"7\", \"0X8\", 5], \"x\": {}, \"bs\":[[\"0x0003\",\"0xAB00000000000000000000000000000000000000000000000000000000000004\"],[\"0b101\",\"0o6\"]],\n\"ar\":[\"0x1\",\"+2\"]}"
    = .ok sampleBuf := by decide +kernel

/-- failures of the codec itself -/
example : unmarshal "{\"ar\":[\"0x1\"],\"bs\":[[\"0x3\",\"0x4\"],[\"0x5\",\"0x6\"]],\"krs\":[\"0x7\",\"0x8\"]}"
    = .error .invalidNumber := by decide +kernel          -- short array: ar[1] = ""
example : unmarshal "{\"ar\":[\"0x1\",\"zz\"],\"bs\":[[\"0x3\",\"0x4\"],[\"0x5\",\"0x6\"]],\"krs\":[\"0x7\",\"0x8\"]}"
    = .error .invalidNumber := by decide +kernel
example : unmarshal "{\"ar\":[\"0x1\",2],\"bs\":[[\"0x3\",\"0x4\"],[\"0x5\",\"0x6\"]],\"krs\":[\"0x7\",\"0x8\"]}"
    = .error .type := by decide +kernel
example : unmarshal "{\"ar\":[\"0x1\",\"0x10000000000000000000000000000000000000000000000000000000000000000\"],\"bs\":[[\"0x3\",\"0x4\"],[\"0x5\",\"0x6\"]],\"krs\":[\"0x7\",\"0x8\"]}"
    = .error .tooLong := by decide +kernel
example : unmarshal "{\"ar\":[\"0x1\",\"0x2\"],\"bs\":[[\"0x3\",\"0x4\"],[\"0x5\",\"0x6\"]]}"
    = .error .invalidNumber := by decide +kernel          -- missing key
example : unmarshal "{\"ar\":[\"0x1\",\"0x2\"]" = .error .syntax := by decide +kernel
example : unmarshal "null" = .error .invalidNumber := by decide +kernel
example : unmarshal "[]" = .error .type := by decide +kernel
/-- a later, shorter duplicate zeroes the rest of the Go array -/
example : unmarshal "{\"ar\":[\"0x1\",\"0x2\"],\"bs\":[[\"0x3\",\"0x4\"],[\"0x5\",\"0x6\"]],\"krs\":[\"0x7\",\"0x8\"],\"ar\":[\"0x1\"]}"
    = .error .invalidNumber := by decide +kernel

end Smtb.Properties.C10

#print axioms Smtb.Properties.C10.unmarshal_marshal
#print axioms Smtb.Properties.C10.decoded_coordinates
#print axioms Smtb.Properties.C10.marshalWords_eq
#print axioms Smtb.Properties.C10.marshal_order
#print axioms Smtb.Properties.C10.coordinate_too_long_rejected
#print axioms Smtb.Properties.C10.coordinate_placement
#print axioms Smtb.Properties.C10.negative_placed_as_magnitude
#print axioms Smtb.Properties.C10.unmarshalOld_partial
#print axioms Smtb.Properties.C10.defectBuf_ok
#print axioms Smtb.Properties.C10.unmarshalOld_defect
#print axioms Smtb.Properties.C10.unmarshalOld_defect_value
#print axioms Smtb.Properties.C10.unmarshal_defectBuf
