/-!
# Reference Keccak-256 / SHA3-256, bit level, after FIPS 202 (core only, executable)

This file is the trusted statement of "the standard".  It follows FIPS 202 literally:

* §3.1.2  a state is a string `S` of `b = 1600` bits, seen as `A[x, y, z] = S[64 (5 y + x) + z]`;
* §3.2    the step mappings θ ρ π χ ι, `Rnd`, `KECCAK-p[1600, 24] = KECCAK-f[1600]`;
* §4, §5.1 the sponge construction and `pad10*1`;
* §5.2, §6.1  `KECCAK[512] (N, d) = SPONGE[KECCAK-p[1600,24], pad10*1, 1088] (N, d)`,
  `SHA3-256 (M) = KECCAK[512] (M ‖ 01, 256)`.

`Keccak-256` (the pre-FIPS padding used by Ethereum) is `KECCAK[512] (M, 256)`: no suffix bits.
Bytes are converted as in FIPS 202 §B.1: bit `i` of byte `j` (least significant first) is message
bit `8 j + i`.
-/
namespace Smtb.KeccakRef

/-- a state string `S` of 1600 bits -/
abbrev State := Array Bool

/-- `A[x, y, z] = S[w (5 y + x) + z]`, `w = 64` (§3.1.2) -/
def State.get (S : State) (x y z : Nat) : Bool := S.getD (64 * (5 * y + x) + z) false

/-- the state string whose bit `A[x, y, z]` is `f x y z` (§3.1.3) -/
def State.mk (f : Nat → Nat → Nat → Bool) : State :=
  Array.ofFn (n := 1600) fun i => f (i.val / 64 % 5) (i.val / 320) (i.val % 64)

/-- θ (§3.2.1, Algorithm 1); `(x - 1) mod 5` is written `(x + 4) % 5`, `(z - 1) mod 64` is `(z + 63) % 64` -/
def theta (A : State) : State :=
  let C := fun x z => A.get x 0 z ^^ A.get x 1 z ^^ A.get x 2 z ^^ A.get x 3 z ^^ A.get x 4 z
  let D := fun x z => C ((x + 4) % 5) z ^^ C ((x + 1) % 5) ((z + 63) % 64)
  State.mk fun x y z => A.get x y z ^^ D x z

/-- the offsets of ρ, FIPS 202 Table 2, indexed `[x][y]` (checked against the loop of
Algorithm 2, `(t + 1)(t + 2)/2` along `(x, y) ← (y, (2x + 3y) mod 5)`, in `Proofs/Keccak`) -/
def rhoOffsets : Array (Array Nat) :=
  #[#[0, 36, 3, 105, 210], #[1, 300, 10, 45, 66], #[190, 6, 171, 15, 253], #[28, 55, 153, 21, 120],
    #[91, 276, 231, 136, 78]]

def rhoOffset (x y : Nat) : Nat := (rhoOffsets.getD x #[]).getD y 0

/-- ρ (§3.2.2, Algorithm 2): `A'[x, y, z] = A[x, y, (z - offset) mod 64]` -/
def rho (A : State) : State :=
  State.mk fun x y z => A.get x y ((z + (64 - rhoOffset x y % 64)) % 64)

/-- π (§3.2.3, Algorithm 3) -/
def pi (A : State) : State :=
  State.mk fun x y z => A.get ((x + 3 * y) % 5) x z

/-- χ (§3.2.4, Algorithm 4) -/
def chi (A : State) : State :=
  State.mk fun x y z => A.get x y z ^^ ((A.get ((x + 1) % 5) y z ^^ true) && A.get ((x + 2) % 5) y z)

/-- `rc(t)` (§3.2.5, Algorithm 5): the LFSR with feedback polynomial `x⁸ + x⁶ + x⁵ + x⁴ + 1` -/
def rc (t : Nat) : Bool :=
  if t % 255 = 0 then true else
    let step := fun (R : List Bool) =>
      let R := false :: R
      let r8 := R.getD 8 false
      let R := R.set 0 (R.getD 0 false ^^ r8)
      let R := R.set 4 (R.getD 4 false ^^ r8)
      let R := R.set 5 (R.getD 5 false ^^ r8)
      let R := R.set 6 (R.getD 6 false ^^ r8)
      R.take 8
    let R := (List.range (t % 255)).foldl (fun R _ => step R) [true, false, false, false, false, false, false, false]
    R.getD 0 false

/-- the round constant `RC` of round `ir` (Algorithm 6, steps 2-3): `RC[2^j - 1] = rc(j + 7 ir)` -/
def roundConstant (ir : Nat) : Array Bool :=
  Array.ofFn (n := 64) fun z => (List.range 7).any fun j => z.val == 2 ^ j - 1 && rc (j + 7 * ir)

/-- ι (§3.2.5, Algorithm 6) -/
def iota (A : State) (ir : Nat) : State :=
  let RC := roundConstant ir
  State.mk fun x y z => if x = 0 ∧ y = 0 then A.get 0 0 z ^^ RC.getD z false else A.get x y z

/-- `Rnd(A, ir) = ι(χ(π(ρ(θ(A)))), ir)` (§3.3) -/
def Rnd (A : State) (ir : Nat) : State := iota (chi (pi (rho (theta A)))) ir

/-- `KECCAK-p[1600, 24] = KECCAK-f[1600]`: rounds `ir = 0 … 23` (§3.3, §3.4) -/
def keccakF1600 (S : State) : State := (List.range 24).foldl Rnd S

/-- `pad10*1(x, m)` (§5.1, Algorithm 9): `j = (-m - 2) mod x` -/
def pad10star1 (x m : Nat) : List Bool :=
  let j := (x - (m + 2) % x) % x
  [true] ++ List.replicate j false ++ [true]

/-- rate and capacity of `KECCAK[512]` -/
def rate : Nat := 1088
def capacity : Nat := 512

/-- bitwise xor of a state with a bit string (shorter strings count as zero-extended) -/
def xorBits (S : State) (B : List Bool) : State :=
  let B := B.toArray
  Array.ofFn (n := 1600) fun i => S.getD i.val false ^^ B.getD i.val false

/-- `Trunc_r` of a state string -/
def truncRate (S : State) : List Bool := (S.toList.take rate)

/-- steps 8-10 of Algorithm 8: `n` further output blocks -/
def squeezeMore : Nat → State → List Bool
  | 0, _ => []
  | n + 1, S => let S := keccakF1600 S; truncRate S ++ squeezeMore n S

/-- `SPONGE[KECCAK-p[1600,24], pad10*1, 1088] (N, d)` (§4, Algorithm 8) -/
def sponge (N : List Bool) (d : Nat) : List Bool :=
  let P := N ++ pad10star1 rate N.length
  let n := P.length / rate
  let S := (List.range n).foldl (fun S i =>
    let Pi := (P.drop (i * rate)).take rate
    keccakF1600 (xorBits S (Pi ++ List.replicate capacity false))) (Array.replicate 1600 false)
  (truncRate S ++ squeezeMore ((d + rate - 1) / rate - 1) S).take d

/-- Keccak-256 on bit strings: `KECCAK[512] (M, 256)` without suffix (Ethereum's hash) -/
def keccak256Bits (msg : List Bool) : List Bool := sponge msg 256

/-- SHA3-256 on bit strings: `KECCAK[512] (M ‖ 01, 256)` (§6.1) -/
def sha3_256Bits (msg : List Bool) : List Bool := sponge (msg ++ [false, true]) 256

/-- a byte as 8 bits, least significant first (§B.1) -/
def byteToBits (b : Nat) : List Bool := (List.range 8).map fun i => b.testBit i

def bytesToBits (bs : List Nat) : List Bool := bs.flatMap byteToBits

/-- 8 bits (least significant first) as a byte -/
def bitsToByte (bits : List Bool) : Nat := bits.foldr (fun b acc => (if b then 1 else 0) + 2 * acc) 0

def bitsToBytes (bits : List Bool) : List Nat :=
  (List.range (bits.length / 8)).map fun j => bitsToByte ((bits.drop (8 * j)).take 8)

def keccak256 (bytes : List Nat) : List Nat := bitsToBytes (keccak256Bits (bytesToBits bytes))
def sha3_256 (bytes : List Nat) : List Nat := bitsToBytes (sha3_256Bits (bytesToBits bytes))

end Smtb.KeccakRef
