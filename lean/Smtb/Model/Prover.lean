import Smtb.Model.Codec.Json
import Smtb.Model.Batch
import Smtb.Model.Poseidon
import Smtb.Model.Keccak
import Smtb.Model.Bits
/-!
# Prover / verifier glue (`prover/{insertion,deletion}_proving_system.go`) — core only, executable

Decision-logic model of `ValidateShape`, `ProveInsertion` / `ProveDeletion` (witness assembly and
the call of `groth16.Prove`) and `VerifyInsertion` / `VerifyDeletion`.

## ASSUMPTION: Groth16 is an IDEAL FUNCTIONALITY

`groth16.Setup / Prove / Verify` are **not** modelled cryptographically.  They are replaced by the
ideal zero-knowledge-proof functionality:

* `Setup` of a circuit yields a *proving system* `System = { id, mode, depth, batch }` whose `id`
  is fresh (never handed out before; the CLI model draws it from a counter).  `id` stands for the
  pair (proving key, verifying key); two set-ups of the same circuit have different `id`s.
* `Prove(sys, witness)` returns a proof **iff the witness satisfies the circuit of `sys`**
  (completeness; and the gnark solver returns an error on an unsatisfied constraint).  The proof
  is the token `{ sysId := sys.id, pub := <public part of the witness> }`.
* `Verify(sys, public, proof)` accepts **iff** `proof.sysId = sys.id ∧ proof.pub = public`.
  Knowledge soundness (no accepted proof without a satisfying witness) is the statement that
  tokens are only ever *created by `prove`*; a hand-written `Token` value is, by definition of the
  ideal functionality, a proof somebody legitimately obtained.  Unforgeability itself is therefore
  an assumption of this model, not a theorem.

"The witness satisfies the circuit" is `circuitAcceptsInsertion` / `circuitAcceptsDeletion` below:
the right-hand side of the circuit theorems proved elsewhere in the project (public-input hash =
Keccak-256 of the packed inputs reduced mod `r`, indices are 32-bit, and the batch specification
of `Smtb.Batch` computes the post root).

## What is mirrored from the Go code

* `ValidateShape`: the checks **in source order** (`shapeErrInsertion`, `shapeErrDeletion`; the
  deletion variant additionally checks the number of indices, *after* the number of proofs and
  *before* the per-proof sizes).  `len` of a nil slice is 0 (`deletionIndices = none`).
* witness assembly: the Go loops `for i < BatchSize { … params.IdComms[i] … for j < TreeDepth {
  … params.MerkleProofs[i][j] … } }` are modelled with *partial* indexing (`gather`, `none` = Go's
  index-out-of-range panic); `Smtb.Properties.C07.validateShape_guards_indexing` shows the panic
  is unreachable after `ValidateShape`.
* every `big.Int` is reduced modulo `r` when it enters the witness (`fr.Element.SetBigInt`, which
  maps negative numbers to their non-negative residue: `Int.emod`, `red`).  `uint32` values are
  `< 2^32 < r` by their Go type (`InsertionParams.startIndex`, the deletion indices: the JSON
  decoder guarantees the range).
* a gnark witness is a **positional vector** (public part, then the secret part in struct-field
  order), and `groth16.Prove` only checks its *length* against the constraint system
  (`constraint/bn254/r1cs.go:92`, "invalid witness size").  `ProvingSystem` does **not** record
  the mode it was set up for, and `ProveInsertion` / `ProveDeletion` can both be called on any
  system (`main.go` and `server.go` dispatch on a `--mode` flag that is independent of the keys
  file).  The model keeps this: `Witness`, `layoutInsertion` / `layoutDeletion`, `solve` re-parses
  the vector according to the mode of the *system*.  For matching modes this is the identity
  (`Smtb.Proofs.Prover`); for mismatching modes the lengths `3 + b + b·d` and `2 + 2b + b·d`
  agree iff `b = 1`, and then an insertion witness *is* a deletion witness
  (`StartIndex ↦ DeletionIndices[0]`), see `Smtb.Properties.C07.prove_cross_mode`.
* `VerifyInsertion` and `VerifyDeletion` build a public-only witness `[inputHash mod r]`; both
  have exactly one public input, so the two functions coincide (`verify`).
-/
namespace Smtb.Prover
open Smtb.Codec Smtb.Bits Smtb.Batch

/-- the BN254 scalar-field order -/
def r : Nat := Smtb.Poseidon.bn254r

/-- `fr.Element.SetBigInt`: the canonical residue of an integer (also for negative ones) -/
def red (x : Int) : Nat := (x.emod (r : Int)).toNat

inductive Mode where
  | insertion
  | deletion
  deriving DecidableEq, Repr

/-- Result of `SetupInsertion` / `SetupDeletion` (ideal functionality: `id` is fresh per set-up). -/
structure System where
  id : Nat
  mode : Mode
  depth : Nat
  batch : Nat
  deriving DecidableEq, Repr

/-- An (ideal) Groth16 proof. -/
structure Token where
  sysId : Nat
  pub : Nat
  deriving DecidableEq, Repr

/-! ## `ValidateShape` -/

/-- The four error messages of `ValidateShape`, with their arguments. -/
inductive ShapeErr where
  | idComms (n : Nat)          -- "wrong number of identity commitments: n"
  | merkleProofs (n : Nat)     -- "wrong number of merkle proofs: n"
  | deletionIndices (n : Nat)  -- "wrong number of deletion indices: n"
  | proofSize (i n : Nat)      -- "wrong size of merkle proof for proof i: n"
  deriving DecidableEq, Repr

/-- `for i, proof := range p.MerkleProofs { if len(proof) != treeDepth { return … } }` -/
def firstBadProof (d : Nat) : Nat → List (List Int) → Option ShapeErr
  | _, [] => none
  | i, q :: qs => if q.length ≠ d then some (.proofSize i q.length) else firstBadProof d (i + 1) qs

/-- `(*InsertionParameters).ValidateShape`, `insertion_proving_system.go:27-40` -/
def shapeErrInsertion (d b : Nat) (p : InsertionParams) : Option ShapeErr :=
  if p.idComms.length ≠ b then some (.idComms p.idComms.length)
  else if p.merkleProofs.length ≠ b then some (.merkleProofs p.merkleProofs.length)
  else firstBadProof d 0 p.merkleProofs

/-- the deletion indices as a slice: nil has length 0 -/
def DeletionParams.indices (p : DeletionParams) : List Nat := p.deletionIndices.getD []

/-- `(*DeletionParameters).ValidateShape`, `deletion_proving_system.go:27-43` -/
def shapeErrDeletion (d b : Nat) (p : DeletionParams) : Option ShapeErr :=
  if p.idComms.length ≠ b then some (.idComms p.idComms.length)
  else if p.merkleProofs.length ≠ b then some (.merkleProofs p.merkleProofs.length)
  else if (DeletionParams.indices p).length ≠ b then
    some (.deletionIndices (DeletionParams.indices p).length)
  else firstBadProof d 0 p.merkleProofs

def validateShapeInsertion (d b : Nat) (p : InsertionParams) : Bool := (shapeErrInsertion d b p).isNone
def validateShapeDeletion (d b : Nat) (p : DeletionParams) : Bool := (shapeErrDeletion d b p).isNone

/-! ## Witness assembly -/

/-- `for i := k; i < k + n; i++ { out = append(out, f(i)) }` where `f i = none` is a panic -/
def gather {α : Type} (f : Nat → Option α) : Nat → Nat → Option (List α)
  | _, 0 => some []
  | i, n + 1 =>
    match f i with
    | none => none
    | some x =>
      match gather f (i + 1) n with
      | none => none
      | some xs => some (x :: xs)

/-- `idComms[i] = params.IdComms[i]` for `i < BatchSize` -/
def assembleIds (b : Nat) (ids : List Int) : Option (List Nat) :=
  gather (fun i => ids[i]?.map red) 0 b

/-- `deletionIndices[i] = params.DeletionIndices[i]` for `i < BatchSize` -/
def assembleIdx (b : Nat) (idxs : List Nat) : Option (List Nat) :=
  gather (fun i => idxs[i]?) 0 b

/-- `proofs[i][j] = params.MerkleProofs[i][j]` for `i < BatchSize`, `j < TreeDepth` -/
def assembleProofs (d b : Nat) (mps : List (List Int)) : Option (List (List Nat)) :=
  gather (fun i => gather (fun j => (mps[i]?.bind (·[j]?)).map red) 0 d) 0 b

/-- A gnark witness: the public part (one element: `InputHash`) and the secret vector. -/
structure Witness where
  pub : Nat
  secret : List Nat
  deriving DecidableEq, Repr

/-- field order of `InsertionMbuCircuit`: StartIndex, PreRoot, PostRoot, IdComms…, MerkleProofs… -/
def layoutInsertion (start pre post : Nat) (ids : List Nat) (proofs : List (List Nat)) : List Nat :=
  start :: pre :: post :: (ids ++ proofs.flatten)

/-- field order of `DeletionMbuCircuit`: DeletionIndices…, PreRoot, PostRoot, IdComms…, MerkleProofs… -/
def layoutDeletion (idxs : List Nat) (pre post : Nat) (ids : List Nat) (proofs : List (List Nat)) :
    List Nat :=
  idxs ++ pre :: post :: (ids ++ proofs.flatten)

/-- `frontend.NewWitness(&InsertionMbuCircuit{…})` after the assembly loops; `none` = panic -/
def assembleInsertion (d b : Nat) (p : InsertionParams) : Option Witness :=
  match assembleIds b p.idComms, assembleProofs d b p.merkleProofs with
  | some ids, some prfs =>
    some { pub := red p.inputHash,
           secret := layoutInsertion p.startIndex (red p.preRoot) (red p.postRoot) ids prfs }
  | _, _ => none

/-- `frontend.NewWitness(&DeletionMbuCircuit{…})` after the assembly loops; `none` = panic -/
def assembleDeletion (d b : Nat) (p : DeletionParams) : Option Witness :=
  match assembleIdx b (DeletionParams.indices p), assembleIds b p.idComms,
        assembleProofs d b p.merkleProofs with
  | some idxs, some ids, some prfs =>
    some { pub := red p.inputHash,
           secret := layoutDeletion idxs (red p.preRoot) (red p.postRoot) ids prfs }
  | _, _, _ => none

/-! ## What the circuits accept (right-hand side of the circuit theorems) -/

/-- `abi.encodePacked(uint32 startIndex, uint256 preRoot, uint256 postRoot, uint256[] ids)` -/
def insertionPacking (start pre post : Nat) (ids : List Nat) : List Nat :=
  bytesBE 4 start ++ bytesBE 32 pre ++ bytesBE 32 post ++ ids.flatMap (bytesBE 32)

/-- `abi.encodePacked(uint32[] indices, uint256 preRoot, uint256 postRoot)` -/
def deletionPacking (idxs : List Nat) (pre post : Nat) : List Nat :=
  idxs.flatMap (bytesBE 4) ++ bytesBE 32 pre ++ bytesBE 32 post

/-- All arguments are field elements (already reduced mod `r`). -/
def circuitAcceptsInsertion (d : Nat) (ih : Nat) (start : Nat) (pre post : Nat) (ids : List Nat)
    (proofs : List (List Nat)) : Bool :=
  decide (start < 2 ^ 32) &&
  decide (ih % r = natOfBytesBE (KeccakRef.keccak256 (insertionPacking start pre post ids)) % r) &&
  decide (insertionSpec (Smtb.Poseidon.hash2 r) 0 id (fun s j => (s + j) % r) d start 0 pre ids
    proofs = some post)

/-- All arguments are field elements (already reduced mod `r`). -/
def circuitAcceptsDeletion (d : Nat) (ih : Nat) (idxs : List Nat) (pre post : Nat) (ids : List Nat)
    (proofs : List (List Nat)) : Bool :=
  idxs.all (fun i => decide (i < 2 ^ 32)) &&
  decide (ih % r = natOfBytesBE (KeccakRef.keccak256 (deletionPacking idxs pre post)) % r) &&
  decide (deletionSpec (Smtb.Poseidon.hash2 r) 0 id d pre idxs ids proofs = some post)

/-! ## The solver: a positional witness against the circuit of a system -/

/-- `b` consecutive chunks of length `d` -/
def chunks (d : Nat) : Nat → List Nat → List (List Nat)
  | 0, _ => []
  | b + 1, l => l.take d :: chunks d b (l.drop d)

/-- Read a secret vector with the layout of the insertion circuit of dimensions `(d, b)`;
`none` = "invalid witness size". -/
def parseInsertion (d b : Nat) (s : List Nat) :
    Option (Nat × Nat × Nat × List Nat × List (List Nat)) :=
  if s.length ≠ 3 + b + b * d then none
  else
    match s with
    | start :: pre :: post :: rest => some (start, pre, post, rest.take b, chunks d b (rest.drop b))
    | _ => none

/-- Read a secret vector with the layout of the deletion circuit of dimensions `(d, b)`. -/
def parseDeletion (d b : Nat) (s : List Nat) :
    Option (List Nat × Nat × Nat × List Nat × List (List Nat)) :=
  if s.length ≠ 2 + 2 * b + b * d then none
  else
    match s.drop b with
    | pre :: post :: rest => some (s.take b, pre, post, rest.take b, chunks d b (rest.drop b))
    | _ => none

/-- `ccs.Solve(witness)` succeeds: right size and all constraints satisfied. -/
def solve (sys : System) (w : Witness) : Bool :=
  match sys.mode with
  | .insertion =>
    match parseInsertion sys.depth sys.batch w.secret with
    | none => false
    | some (start, pre, post, ids, prfs) =>
      circuitAcceptsInsertion sys.depth w.pub start pre post ids prfs
  | .deletion =>
    match parseDeletion sys.depth sys.batch w.secret with
    | none => false
    | some (idxs, pre, post, ids, prfs) =>
      circuitAcceptsDeletion sys.depth w.pub idxs pre post ids prfs

/-! ## `Prove…` and `Verify…` -/

inductive ProveErr where
  | shape (e : ShapeErr)  -- `ValidateShape` returned an error
  | panic                 -- index out of range during assembly (shown unreachable)
  | backend               -- `groth16.Prove` returned an error (witness size / unsatisfied constraint)
  deriving DecidableEq, Repr

/-- IDEAL FUNCTIONALITY `groth16.Prove`: a token iff the solver succeeds. -/
def idealProve (sys : System) (w : Witness) : Except ProveErr Token :=
  if solve sys w then .ok { sysId := sys.id, pub := w.pub } else .error .backend

/-- `(*ProvingSystem).ProveInsertion`, `insertion_proving_system.go:96-130` -/
def proveInsertion (sys : System) (p : InsertionParams) : Except ProveErr Token :=
  match shapeErrInsertion sys.depth sys.batch p with
  | some e => .error (.shape e)
  | none =>
    match assembleInsertion sys.depth sys.batch p with
    | none => .error .panic
    | some w => idealProve sys w

/-- `(*ProvingSystem).ProveDeletion`, `deletion_proving_system.go:93-133` -/
def proveDeletion (sys : System) (p : DeletionParams) : Except ProveErr Token :=
  match shapeErrDeletion sys.depth sys.batch p with
  | some e => .error (.shape e)
  | none =>
    match assembleDeletion sys.depth sys.batch p with
    | none => .error .panic
    | some w => idealProve sys w

/-- A parameter set of either kind. -/
inductive Params where
  | insertion (p : InsertionParams)
  | deletion (p : DeletionParams)
  deriving DecidableEq, Repr

def Params.mode : Params → Mode
  | .insertion _ => .insertion
  | .deletion _ => .deletion

def Params.inputHash : Params → Int
  | .insertion p => p.inputHash
  | .deletion p => p.inputHash

/-- `Prove…` selected by the kind of the parameters (the callers select it by their `--mode`). -/
def prove (sys : System) : Params → Except ProveErr Token
  | .insertion p => proveInsertion sys p
  | .deletion p => proveDeletion sys p

/-- IDEAL FUNCTIONALITY `groth16.Verify` behind `VerifyInsertion` / `VerifyDeletion`
(`insertion_proving_system.go:132-142`, `deletion_proving_system.go:135-145`): the public witness
is `[inputHash mod r]` in both. -/
def verify (sys : System) (h : Int) (tok : Token) : Bool :=
  decide (tok.sysId = sys.id) && decide (tok.pub = red h)

/-! ## The acceptance predicates on parameter sets (reduced values) -/

def redRows (mps : List (List Int)) : List (List Nat) := mps.map (fun q => q.map red)

/-- the insertion circuit accepts the reduced values of `p` -/
def acceptsInsertion (d : Nat) (p : InsertionParams) : Bool :=
  circuitAcceptsInsertion d (red p.inputHash) p.startIndex (red p.preRoot) (red p.postRoot)
    (p.idComms.map red) (redRows p.merkleProofs)

/-- the deletion circuit accepts the reduced values of `p` -/
def acceptsDeletion (d : Nat) (p : DeletionParams) : Bool :=
  circuitAcceptsDeletion d (red p.inputHash) (DeletionParams.indices p) (red p.preRoot)
    (red p.postRoot) (p.idComms.map red) (redRows p.merkleProofs)

/-- `ValidateShape` of either kind -/
def Params.shapeOk (d b : Nat) : Params → Bool
  | .insertion p => validateShapeInsertion d b p
  | .deletion p => validateShapeDeletion d b p

/-- the circuit *of the parameters' own kind* accepts the reduced values -/
def Params.accepted (d : Nat) : Params → Bool
  | .insertion p => acceptsInsertion d p
  | .deletion p => acceptsDeletion d p

end Smtb.Prover
