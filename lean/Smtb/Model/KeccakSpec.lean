import Smtb.Circuit.Keccak
/-!
# The Keccak gadget program run on `Bool` (core only, executable)

`boolApi` interprets the gnark API calls used by `prover/keccak/keccak.go` (`Xor`, `And`,
`Sub(1, ·)`) on booleans in the identity monad.  `gadgetSpecBits dom msg` is the very program
`Smtb.Circuit.Keccak.keccakGadget` under that interpretation: an executable specification of what
the circuit computes, proved equal to the circuit's satisfiability semantics
(`Smtb/Properties/C04.lean`, `keccakGadget_sat`) and to the FIPS 202 reference
(`gadgetSpec_eq_keccak256`, `gadgetSpec_eq_sha3_256`).
-/
namespace Smtb.KeccakSpec
open Smtb

/-- booleans for field elements; only `const 0`, `const 1`, `xor_`, `and_` and `sub (const 1) ·`
are reached by the Keccak program, the other operations are arbitrary total functions -/
instance boolApi : CircuitApi Id Bool where
  const n := n % 2 == 1
  add a b := pure (a != b)
  sub a b := pure (a && !b)
  mul a b := pure (a && b)
  select c a b := pure (if c then a else b)
  isZero a := pure (!a)
  or_ a b := pure (a || b)
  xor_ a b := pure (a != b)
  and_ a b := pure (a && b)
  toBinary v n := pure (v :: List.replicate (n - 1) false)
  fromBinary bs := pure (bs.headD false)
  assertBool _ := pure ()
  assertEq _ _ := pure ()
  opaque1 _ _ _ body := body
  opaqueN _ _ _ _ body := body

/-- the Keccak gadget program of `keccak.go`, with domain byte `dom`, run on booleans -/
def gadgetSpecBits (dom : Nat) (msg : List Bool) : List Bool :=
  Id.run (Circuit.Keccak.keccakGadget (m := Id) dom msg)

end Smtb.KeccakSpec
