import Smtb.Model.Merkle
/-!
# Batch specifications (core only, executable)

What an insertion / deletion batch must satisfy, as a function computing the final root (or
`none`).  Generic in the carrier `F` so that the same definition is used over `ZMod p` in the
theorems and over `Nat` (mod p) in the executable oracle of the correspondence checks.
-/
namespace Smtb.Batch
open Smtb.Merkle

variable {F : Type} [DecidableEq F]

/-- One insertion slot: position `idx` must lie inside the tree, the leaf must be empty under the
running root, and the new running root is obtained by writing `item` there. -/
def insertionStep (H : F → F → F) (zero : F) (d : Nat) (idx : Nat) (item prev : F) (proof : List F) : Option F :=
  if idx < 2^d ∧ recover H zero proof (bitsLE d idx) = prev then
    some (recover H item proof (bitsLE d idx))
  else none

/-- `val` gives the canonical representative of an index, `addi s i` is `s + i` in the carrier. -/
def insertionSpec (H : F → F → F) (zero : F) (val : F → Nat) (addi : F → Nat → F) (d : Nat) (start : F) :
    Nat → F → List F → List (List F) → Option F
  | i, prev, id :: ids, prf :: proofs =>
    match insertionStep H zero d (val (addi start i)) id prev prf with
    | some root => insertionSpec H zero val addi d start (i + 1) root ids proofs
    | none => none
  | _, prev, _, _ => some prev

/-- One deletion slot: an index below `2^d` must present the leaf's current value and is replaced
by the empty value; an index in `[2^d, 2^(d+1))` is padding; anything larger is unprovable. -/
def deletionStep (H : F → F → F) (zero : F) (d : Nat) (root : F) (idx : Nat) (item : F) (proof : List F) : Option F :=
  if idx < 2^d then
    if recover H item proof (bitsLE d idx) = root then some (recover H zero proof (bitsLE d idx)) else none
  else if idx < 2^(d+1) then some root
  else none

def deletionSpec (H : F → F → F) (zero : F) (val : F → Nat) (d : Nat) :
    F → List F → List F → List (List F) → Option F
  | root, idx :: idxs, id :: ids, prf :: proofs =>
    match deletionStep H zero d root (val idx) id prf with
    | some root' => deletionSpec H zero val d root' idxs ids proofs
    | none => none
  | root, _, _, _ => some root

end Smtb.Batch
