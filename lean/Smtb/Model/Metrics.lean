/-!
# C20 — request-metrics accounting of the `/prove` endpoint (core Lean only)

Go sources modelled: `server/wrapped_http/serve_mux.go` (`serveMuxWithMetrics.Handle`) and
`server/server.go:83-109` (`Run`: one shared `prometheus.Registry`, scraped by `/metrics` on the
metrics server, written by the wrapped `/prove` handler on the prover server).

`Handle` wraps the application handler as

    promhttp.InstrumentHandlerInFlight(requestsInFlight,
      promhttp.InstrumentHandlerCounter(requestsTotal,
        … Duration / RequestSize / ResponseSize … handler))

so every request that reaches `/prove` performs, in this order,

    gauge.Inc            (`Event.begin`)
    handler runs, the response status is recorded by promhttp's delegator
    counter{method,code}.Inc   (`Event.count`)
    gauge.Dec            (`Event.finish`, a `defer`)

Requests are served on separate goroutines, so the three events of different requests interleave
arbitrarily; the three events of ONE request are ordered (they happen on one goroutine).  Gauge and
counter updates are atomic (`sync/atomic` in client_golang), so a concurrent execution is
equivalent to some interleaving of these atomic events: a *history* `List Event`.

## Assumptions about promhttp / client_golang v1.14.0 (not verified here, read off its source)

* (P1) order: `InstrumentHandlerInFlight` does `g.Inc(); defer g.Dec(); next.ServeHTTP`;
  `InstrumentHandlerCounter` does `next.ServeHTTP(d, r)` and THEN
  `counter.With(labels(.., r.Method, d.Status())).Inc` — hence begin < count < finish per request.
* (P2) method label = `sanitizeMethod(r.Method)`: exactly the twenty spellings
  `GET get PUT put HEAD head POST post DELETE delete CONNECT connect OPTIONS options NOTIFY notify
  TRACE trace PATCH patch` map to the lower-case name, everything else (including mixed case such
  as `Post`, and any non-standard token such as `FOO`) maps to `"unknown"` (no `WithExtraMethods`
  option is passed in serve_mux.go).
* (P3) code label = `sanitizeCode(d.Status())`: the decimal status; status `0` (handler never
  called `WriteHeader`/`Write`) is reported as `200`.  (Statuses outside 100..599 would be reported
  as `"unknown"`; `proveHandler` only ever sends 200, 400, 405, 500, and net/http panics on
  `WriteHeader` outside 100..999, so the model keeps the code as a number.)
* (P4) `CounterVec.With(labels)` is get-or-create of the child for that label pair and `Inc` adds
  exactly 1; `Gauge.Inc/Dec` add ±1; all atomically.  The gauge is a float64 in Go and could go
  negative; the model uses `Nat` with truncated subtraction and the theorems show the truncation is
  never exercised on well-formed histories (`inFlight + finished = begun`).
* (P5) a handler panic would skip the `count` event but not the deferred `finish`
  ("If the wrapped Handler panics, no values are reported").  `proveHandler` has no panicking path
  in the model; histories here always have all three events for a completed request.
* (P6) only requests routed to the pattern `/prove` reach the wrapped handler; the metrics carry the
  constant label `endpoint_pattern="/prove"` (`WrapRegistererWith`), which the model leaves implicit.
-/
namespace Smtb.Metrics

/-- atomic metric events; `req` identifies the request (goroutine) performing it.
`count` carries the RAW `r.Method` and the RAW recorded status (0 = never written). -/
inductive Event where
  | begin (req : Nat)
  | count (req : Nat) (method : String) (code : Nat)
  | finish (req : Nat)
deriving DecidableEq, Repr

/-- a canonical label pair (method, code) of `http_requests_total` -/
abbrev Label := String × Nat

/-- promhttp `sanitizeMethod` without extra methods (assumption P2) -/
def canonMethod (m : String) : String :=
  match m with
  | "GET" | "get" => "get"
  | "PUT" | "put" => "put"
  | "HEAD" | "head" => "head"
  | "POST" | "post" => "post"
  | "DELETE" | "delete" => "delete"
  | "CONNECT" | "connect" => "connect"
  | "OPTIONS" | "options" => "options"
  | "NOTIFY" | "notify" => "notify"
  | "TRACE" | "trace" => "trace"
  | "PATCH" | "patch" => "patch"
  | _ => "unknown"

/-- promhttp `sanitizeCode` on the range the handler uses (assumption P3): 0 ↦ 200 -/
def canonCode (s : Nat) : Nat := if s = 0 then 200 else s

def canonLabel (r : String × Nat) : Label := (canonMethod r.1, canonCode r.2)

/-- the registry content relevant to C20: the in-flight gauge and the counter vector, the latter as
an association list from label pairs to values (children are created on first use) -/
structure State where
  inFlight : Nat
  totals : List (Label × Nat)
deriving DecidableEq, Repr

def init : State := ⟨0, []⟩

def lookup : List (Label × Nat) → Label → Nat
  | [], _ => 0
  | (k, n) :: t, l => if k = l then n else lookup t l

/-- `CounterVec.With(l).Inc()` -/
def bump : List (Label × Nat) → Label → List (Label × Nat)
  | [], l => [(l, 1)]
  | (k, n) :: t, l => if k = l then (k, n + 1) :: t else (k, n) :: bump t l

/-- what a scrape reports for `http_requests_total{method=l.1,code=l.2}` (absent child = 0) -/
def total (st : State) (l : Label) : Nat := lookup st.totals l

/-- the sum over all label pairs of `http_requests_total` -/
def sumTotals (st : State) : Nat := (st.totals.map (·.2)).sum

def step (st : State) : Event → State
  | .begin _ => { st with inFlight := st.inFlight + 1 }
  | .count _ m c => { st with totals := bump st.totals (canonLabel (m, c)) }
  | .finish _ => { st with inFlight := st.inFlight - 1 }

def run (st : State) (h : List Event) : State := h.foldl step st

/-! ### projections of a history -/

def begins (h : List Event) : List Nat :=
  h.filterMap fun | .begin r => some r | _ => none

def countIds (h : List Event) : List Nat :=
  h.filterMap fun | .count r _ _ => some r | _ => none

def finishes (h : List Event) : List Nat :=
  h.filterMap fun | .finish r => some r | _ => none

/-- the responses actually sent, as (raw method, raw status), in counting order -/
def responses (h : List Event) : List (String × Nat) :=
  h.filterMap fun | .count _ m c => some (m, c) | _ => none

/-- requests that have begun and not yet finished -/
def openRequests (h : List Event) : List Nat :=
  (begins h).filter fun r => !(finishes h).contains r

/-- multiset count of canonicalised (method, code) among the responses -/
def tally (rs : List (String × Nat)) (l : Label) : Nat := (rs.map canonLabel).count l

/-! ### well-formed histories

Declarative definition: each request id begins / is counted / finishes at most once, a count is
preceded by the begin of the same request and a finish is preceded by a count of the same request.
Nothing is said about how events of different requests interleave (the concurrent case), and a
request may have begun without having been counted or finished yet (the "during load" case);
every prefix of a well-formed history is well-formed (`WellFormed.of_prefix` in the proofs). -/
structure WellFormed (h : List Event) : Prop where
  begin_once : (begins h).Nodup
  count_once : (countIds h).Nodup
  finish_once : (finishes h).Nodup
  count_after_begin : ∀ pre r m c post, h = pre ++ .count r m c :: post → .begin r ∈ pre
  finish_after_count : ∀ pre r post, h = pre ++ .finish r :: post → ∃ m c, .count r m c ∈ pre

/-- all requests that began have finished (no request in flight at the end of the history) -/
def AllFinished (h : List Event) : Prop := ∀ r ∈ begins h, r ∈ finishes h

/-- a complete history: well-formed and every request ran to completion -/
structure Complete (h : List Event) : Prop where
  wf : WellFormed h
  done : AllFinished h

/-! ### executable checker (equivalent to `WellFormed`, see `wellFormed_iff_check`) -/

/-- may event `e` happen after the events `seen`? -/
def okNext (seen : List Event) : Event → Bool
  | .begin r => !(begins seen).contains r
  | .count r _ _ => (begins seen).contains r && !(countIds seen).contains r
  | .finish r => (countIds seen).contains r && !(finishes seen).contains r

def checkFrom (seen : List Event) : List Event → Bool
  | [] => true
  | e :: es => okNext seen e && checkFrom (seen ++ [e]) es

def check (h : List Event) : Bool := checkFrom [] h

def checkComplete (h : List Event) : Bool :=
  check h && (begins h).all fun r => (finishes h).contains r

/-- the sequential history of a list of responses: request `i` runs to completion before
request `i+1` starts (what the driver feeds to `run`) -/
def sequentialFrom (i : Nat) : List (String × Nat) → List Event
  | [] => []
  | (m, c) :: rs => .begin i :: .count i m c :: .finish i :: sequentialFrom (i + 1) rs

def sequential (rs : List (String × Nat)) : List Event := sequentialFrom 0 rs

end Smtb.Metrics
