import Smtb.Circuit.PoseidonTables
/-!
# Reference Poseidon permutation and hash (core only, executable)

Textbook form (Grassi, Khovratovich, Rechberger, Roy, Schofnegger): state of width `t`,
`RF` full rounds split around `RP` partial rounds, each round = add round constants, S-box
`x^5` (on every element in a full round, on the first element in a partial round), multiply by
the MDS matrix.  Hash of `n = t-1` inputs: initial state `[0, x₁, …, xₙ]`, output `state[0]`.
Arithmetic is in `Nat` modulo `p`.
-/
namespace Smtb.Poseidon

structure Params where
  t : Nat
  RF : Nat
  RP : Nat
  ark : List (List Nat)   -- one row of `t` constants per round
  mds : List (List Nat)   -- `t × t`

def params2 : Params := { t := 2, RF := 8, RP := 56, ark := PoseidonTables.constants_2, mds := PoseidonTables.mds_2 }
def params3 : Params := { t := 3, RF := 8, RP := 57, ark := PoseidonTables.constants_3, mds := PoseidonTables.mds_3 }

def pow5 (p x : Nat) : Nat := let x2 := x * x % p; let x4 := x2 * x2 % p; x * x4 % p

def addRow (p : Nat) (st row : List Nat) : List Nat := List.zipWith (fun x c => (x + c) % p) st row

def dot (p : Nat) (st row : List Nat) : Nat :=
  (st.zip row).foldl (fun acc xc => (acc + xc.1 * xc.2 % p) % p) 0

def mix (p : Nat) (mds : List (List Nat)) (st : List Nat) : List Nat := (mds.take st.length).map (dot p st)

def fullRound (p : Nat) (P : Params) (st row : List Nat) : List Nat :=
  mix p P.mds ((addRow p st row).map (pow5 p))

def partialRound (p : Nat) (P : Params) (st row : List Nat) : List Nat :=
  match addRow p st row with
  | [] => mix p P.mds []
  | x :: rest => mix p P.mds (pow5 p x :: rest)

def permute (p : Nat) (P : Params) (st : List Nat) : List Nat :=
  let st := (P.ark.take (P.RF / 2)).foldl (fullRound p P) st
  let st := ((P.ark.drop (P.RF / 2)).take P.RP).foldl (partialRound p P) st
  ((P.ark.drop (P.RF / 2 + P.RP)).take (P.RF / 2)).foldl (fullRound p P) st

/-- Poseidon hash of one field element -/
def hash1 (p a : Nat) : Nat := (permute p params2 [0, a % p]).headD 0
/-- Poseidon hash of two field elements -/
def hash2 (p a b : Nat) : Nat := (permute p params3 [0, a % p, b % p]).headD 0

/-- BN254 scalar-field order -/
def bn254r : Nat := 21888242871839275222246405745257275088548364400416034343698204186575808495617

end Smtb.Poseidon
