/-!
# Merkle-tree specification (core only, executable)

`recover` recomputes a root from a leaf, its sibling path (leaf level first) and the direction
bits of the leaf index (least significant first).  `rootOf` is the dense reference tree.
-/
namespace Smtb.Merkle

variable {F : Type}

/-- bit `b = true` means the running node is the *right* child at that level -/
def recover (H : F → F → F) : F → List F → List Bool → F
  | acc, s :: sibs, b :: bits => recover H (if b then H s acc else H acc s) sibs bits
  | acc, _, _ => acc

/-- the `n` low bits of `i`, least significant first -/
def bitsLE : Nat → Nat → List Bool
  | 0, _ => []
  | n+1, i => (i % 2 == 1) :: bitsLE n (i / 2)

/-- root of the complete binary tree of depth `d` over leaves `f 0 … f (2^d - 1)` -/
def rootOf (H : F → F → F) : Nat → (Nat → F) → F
  | 0, f => f 0
  | d+1, f => H (rootOf H d f) (rootOf H d (fun i => f (i + 2^d)))

/-- genuine sibling path of leaf `i` (leaf level first) in the dense tree of depth `d` -/
def pathOf (H : F → F → F) : Nat → (Nat → F) → Nat → List F
  | 0, _, _ => []
  | d+1, f, i =>
    if i % 2^(d+1) < 2^d then
      pathOf H d f i ++ [rootOf H d (fun j => f (j + 2^d))]
    else
      pathOf H d (fun j => f (j + 2^d)) i ++ [rootOf H d f]

/-- functional update of a leaf assignment -/
def setLeaf [Inhabited F] (f : Nat → F) (i : Nat) (v : F) : Nat → F := fun j => if j = i then v else f j

end Smtb.Merkle
