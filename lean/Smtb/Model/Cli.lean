import Smtb.Model.Http
import Smtb.Model.Tree
/-!
# The command-line pipeline (`main.go`) — core only, executable

Exit-status and stdout logic of the `gnark-mbu` commands, over an abstract file store.

* **Files.**  `World.files : List (String × FileContent)` (newest binding first).  The content of a
  proving-system file is abstract: `FileContent.keys sys` is a file written by `WriteRawTo` /
  `WriteTo` for the system `sys`; `.text s` is any text file; `.garbage` is any other byte string
  (`r1cs` output, truncated files, …).  `ReadSystemFromFile` succeeds exactly on `.keys`
  (missing file: `os.Open` fails; anything else: `UnsafeReadFrom` fails — that the *real* reader
  rejects ill-formed files is the subject of the file-format properties, not of this one).
  `World.unwritable` lists the paths at which `os.Create` fails.
* **Fresh ids.**  `setup` takes the id of the new system from the counter `World.nextId` (ideal
  functionality: every set-up generates new keys).
* **Modes** are arbitrary strings, `""` when neither `--mode` nor `MTB_MODE` is given
  (`DefaultText: "insertion"` only changes the help text, the flag's value stays `""`).  Every
  command that dispatches on the mode has the `else { return fmt.Errorf("Invalid mode: …") }`
  branch of `main.go`.  The *position* of that check is kept: `setup`, `r1cs`, `gen-test-params`
  check it first; `prove` after reading the keys and stdin; `verify` after parsing the hash, the
  keys and the proof.
* **Exit status.**  Every `Action` returns an `error`; `main` ends with
  `if err := app.Run(os.Args); err != nil { logging.Logger().Fatal()… }` and zerolog's `Fatal`
  calls `os.Exit(1)`: `step` maps every error to exit status 1 and success to 0.
* **stdout.**  The logger writes to stderr (`logging/logger.go:9`; `SetJSONOutput` is only
  reachable from `start`), so the only stdout output of the modelled commands is the single
  `fmt.Println` of `gen-test-params` and of `prove`, executed after everything that can fail —
  and two diagnostic lines that gnark itself prints to stdout in `verify --mode deletion`
  (`verifyDiag`; observed on the binary built from the tree).
* **Proof text.**  A real proof is the JSON of eight field elements; the ideal token
  `{sysId, pub}` is written as `0x<sysId>,0x<pub>` (`encodeToken`).  `decodeToken` skips trailing
  white space like `json.Unmarshal` does (the newline of `fmt.Println` survives the pipe).
* **`verify` ignores which mode it is given** beyond checking that it is one of the two:
  `VerifyInsertion` and `VerifyDeletion` build the same one-element public witness.
* **`prove` with a mode that differs from the keys' mode** runs `Prove<mode>` on that system;
  see `Smtb.Properties.C07.prove_cross_mode`.
* `setup`, `r1cs` for deletion and `extract-circuit` fail for `tree-depth > 31`
  (`deletion_circuit.go:31`).  gnark's own limits for absurd depths (≥ 254 bits) are not modelled.
* Not modelled: flag parsing by urfave/cli (a missing `Required` flag or an unknown command is an
  error, hence exit 1, before any `Action` runs), `uint32(context.Uint(…))` truncation,
  `import-setup`, `export-solidity`, `export-vk`, `start`, `start-from-s3`, short writes.
-/
namespace Smtb.Cli
open Smtb.Codec Smtb.Prover Smtb.Bits

/-! ## files -/

inductive FileContent where
  | keys (sys : System)
  | text (s : String)
  | garbage
  deriving DecidableEq, Repr

structure World where
  files : List (String × FileContent) := []
  nextId : Nat := 0
  unwritable : List String := []
  deriving Repr

def World.read (w : World) (path : String) : Option FileContent := w.files.lookup path

/-- `prover.ReadSystemFromFile` -/
def World.readKeys (w : World) (path : String) : Option System :=
  match w.read path with
  | some (.keys sys) => some sys
  | _ => none

/-- `os.Create(path)` succeeds -/
def World.creatable (w : World) (path : String) : Bool := !w.unwritable.contains path

def World.write (w : World) (path : String) (c : FileContent) : World :=
  { w with files := (path, c) :: w.files }

/-! ## modes -/

def parseMode (s : String) : Option Mode :=
  if s = "insertion" then some .insertion
  else if s = "deletion" then some .deletion
  else none

def modeString : Mode → String
  | .insertion => "insertion"
  | .deletion => "deletion"

/-- `frontend.Compile` of the circuit fails (`DeletionMbuCircuit.Define`: "max depth supported
is 31") -/
def compileFails (m : Mode) (d : Nat) : Bool :=
  match m with
  | .insertion => false
  | .deletion => decide (31 < d)

/-! ## proof text -/

def encodeTokenChars (t : Token) : List Char := toHexChars t.sysId ++ ',' :: toHexChars t.pub

def encodeToken (t : Token) : String := String.ofList (encodeTokenChars t)

def natOfHexChars (cs : List Char) : Option Nat :=
  match fromHexChars cs with
  | some (Int.ofNat n) => some n
  | _ => none

def decodeTokenChars (cs : List Char) : Option Token :=
  let a := cs.takeWhile (fun c => c != ',')
  match cs.dropWhile (fun c => c != ',') with
  | ',' :: rest =>
    let b := rest.takeWhile (fun c => !isWs c)
    let tail := rest.dropWhile (fun c => !isWs c)
    if tail.all isWs then
      match natOfHexChars a, natOfHexChars b with
      | some x, some y => some { sysId := x, pub := y }
      | _, _ => none
    else none
  | _ => none

def decodeToken (s : String) : Option Token := decodeTokenChars s.toList

/-! ## `gen-test-params` -/

/-- `poseidon.Hash` on two field elements -/
def H : Nat → Nat → Nat := Smtb.Poseidon.hash2 r

/-- a sequence of `tree.Update(i, v)` calls; returns the final tree and the proofs in order -/
def updates (t : Tree.Tree Nat) : List (Nat × Nat) → Tree.Tree Nat × List (List Nat)
  | [] => (t, [])
  | (i, v) :: rest =>
    let t' := (t.update H 0 i v).1
    ((updates t' rest).1, (t.update H 0 i v).2 :: (updates t' rest).2)

/-- `gen-test-params --mode insertion` (`main.go:232-247`): empty tree, identities `1 … b` at
indices `0 … b-1` -/
def genInsertion (d b : Nat) : InsertionParams :=
  let t0 := Tree.newTree H 0 d
  let ids := (List.range b).map (· + 1)
  let run := updates t0 ((List.range b).map fun i => (i, i + 1))
  let pre := t0.rootValue 0
  let post := run.1.rootValue 0
  InsertionParams.ofNat (natOfBytesBE (KeccakRef.keccak256 (insertionPacking 0 pre post ids)))
    0 pre post ids run.2

/-- `gen-test-params --mode deletion` (`main.go:248-270`): identities `1 … 2b` at indices
`0 … 2b-1`, then the even indices are deleted (`uint32` arithmetic wraps) -/
def genDeletion (d b : Nat) : DeletionParams :=
  let t0 := Tree.newTree H 0 d
  let t1 := (updates t0 ((List.range (b * 2 % 2 ^ 32)).map fun i => (i, i + 1))).1
  let idxs := (List.range b).map fun i => 2 * i % 2 ^ 32
  let ids := (List.range b).map fun i => 2 * i + 1
  let run := updates t1 ((List.range b).map fun i => (2 * i, 0))
  let pre := t1.rootValue 0
  let post := run.1.rootValue 0
  DeletionParams.ofNat (natOfBytesBE (KeccakRef.keccak256 (deletionPacking idxs pre post)))
    (some idxs) pre post ids run.2

def genParams (m : Mode) (d b : Nat) : Params :=
  match m with
  | .insertion => .insertion (genInsertion d b)
  | .deletion => .deletion (genDeletion d b)

/-- `json.Marshal(&params)` -/
def encodeParams : Params → String
  | .insertion p => encodeInsertion p
  | .deletion p => encodeDeletion p

/-! ## commands -/

inductive Cmd where
  | setup (mode out : String) (d b : Nat)
  | r1cs (mode out : String) (d b : Nat)
  | genTestParams (mode : String) (d b : Nat)
  | prove (mode keys stdin : String)
  | verify (mode keys inputHash stdin : String)
  | convertToRaw (inp out : String)
  | extractCircuit (out : String) (d b : Nat)
  deriving Repr

/-- the `error` returned by an `Action` -/
inductive CliErr where
  | invalidMode (s : String)     -- "Invalid mode: %s"
  | compile                      -- circuit compilation / extraction failed
  | create (path : String)       -- `os.Create`
  | readKeys (path : String)     -- `ReadSystemFromFile`
  | badParams (e : Err)          -- `json.Unmarshal` of the parameters on stdin
  | proving (e : ProveErr)       -- `Prove…`
  | invalidNumber (s : String)   -- `--input-hash` is not a number
  | badProof                     -- `json.Unmarshal` of the proof on stdin
  | verification                 -- `Verify…` rejected
  deriving Repr

/-- What `verify` prints on **stdout** besides nothing: gnark's schema walker reports every nil
`[]frontend.Variable` of the assignment with `fmt.Printf` (`frontend/schema/walk.go:85`,
`schema.go:325`; once per pass of `frontend.NewWitness`).  `VerifyDeletion` leaves `IdComms` nil,
`VerifyInsertion` initialises it; so `verify --mode deletion` prints two diagnostic lines before
the verifier runs (whatever its verdict), `verify --mode insertion` prints nothing. -/
def verifyDiag : Mode → String
  | .insertion => ""
  | .deletion =>
    "ignoring uninitialized slice: input []frontend.Variable\n" ++
    "ignoring uninitialized slice: input []frontend.Variable\n"

/-- the `Action` of a command: new world and stdout, or an error together with what had been
written to stdout before the error -/
def exec (w : World) : Cmd → Except (CliErr × String) (World × String)
  | .setup mode out d b =>
    match parseMode mode with
    | none => .error (.invalidMode mode, "")
    | some m =>
      if compileFails m d then .error (.compile, "")
      else if !w.creatable out then .error (.create out, "")
      else
        .ok (({ w with nextId := w.nextId + 1 }).write out
              (.keys { id := w.nextId, mode := m, depth := d, batch := b }), "")
  | .r1cs mode out d _ =>
    match parseMode mode with
    | none => .error (.invalidMode mode, "")
    | some m =>
      if compileFails m d then .error (.compile, "")
      else if !w.creatable out then .error (.create out, "")
      else .ok (w.write out .garbage, "")
  | .genTestParams mode d b =>
    match parseMode mode with
    | none => .error (.invalidMode mode, "")
    | some m => .ok (w, encodeParams (genParams m d b) ++ "\n")
  | .prove mode keys stdin =>
    match w.readKeys keys with
    | none => .error (.readKeys keys, "")
    | some sys =>
      match parseMode mode with
      | none => .error (.invalidMode mode, "")
      | some m =>
        match Http.decodeParams m stdin with
        | .error e => .error (.badParams e, "")
        | .ok ps =>
          match Prover.prove sys ps with
          | .error e => .error (.proving e, "")
          | .ok t => .ok (w, encodeToken t ++ "\n")
  | .verify mode keys inputHash stdin =>
    match fromHex inputHash with
    | none => .error (.invalidNumber inputHash, "")
    | some h =>
      match w.readKeys keys with
      | none => .error (.readKeys keys, "")
      | some sys =>
        match decodeToken stdin with
        | none => .error (.badProof, "")
        | some tok =>
          match parseMode mode with
          | none => .error (.invalidMode mode, "")
          | some m =>
            if Prover.verify sys h tok then .ok (w, verifyDiag m)
            else .error (.verification, verifyDiag m)
  | .convertToRaw inp out =>
    match w.readKeys inp with
    | none => .error (.readKeys inp, "")
    | some sys =>
      if !w.creatable out then .error (.create out, "") else .ok (w.write out (.keys sys), "")
  | .extractCircuit out d _ =>
    if compileFails .deletion d then .error (.compile, "")
    else if !w.creatable out then .error (.create out, "")
    else .ok (w.write out (.text "<lean>"), "")

/-- `main`: run the command; any error is logged (stderr) and becomes exit status 1.
Returns the new world, the exit status and stdout. -/
def step (w : World) (c : Cmd) : World × Nat × String :=
  match exec w c with
  | .ok (w', out) => (w', 0, out)
  | .error (_, out) => (w, 1, out)

def exitOf (w : World) (c : Cmd) : Nat := (step w c).2.1
def stdoutOf (w : World) (c : Cmd) : String := (step w c).2.2
def worldOf (w : World) (c : Cmd) : World := (step w c).1

end Smtb.Cli
