import Smtb.Model.Codec.Hex
/-!
# JSON codec of the insertion / deletion parameters (`prover/marshal.go:36-185`)

Encoding mirrors `json.Marshal` of `InsertionParametersJSON` / `DeletionParametersJSON`
(field order, compact form, no escapes needed for hex strings, `uint32` as JSON numbers,
nil `[]uint32` as `null`).

Decoding mirrors what `encoding/json` (Go 1.23) does for these two mirror structs, in the
same two phases as `json.Unmarshal`:

1. `checkValid`: the *whole* input is scanned first, any syntax error (including trailing
   data and nesting deeper than 10000) wins over everything else (`parseDoc`, class `syntax`);
2. the typed decode into the mirror struct (`decInsTop` / `decDelTop`):
   exact-then-case-folded key match, unknown keys skipped, duplicate keys decode *into the
   existing field value*, `null` is a no-op for `string`/`uint32` and resets slices to nil,
   a value of the wrong JSON kind is an `UnmarshalTypeError` (class `type`), a number that is
   not a base-10 `uint32` is an `UnmarshalTypeError` with `Value = "number <lit>"` (class
   `range`); such errors do not stop decoding, the *first* one is reported at the end;
   arrays decode element-wise into the existing slice (elements are *not* zeroed first, and
   memory between `len` and `cap` keeps stale elements: `GoSlice`);
3. only if 1 and 2 succeeded: `fromHex` on every string in the order of `UnmarshalJSON`
   (class `invalidNumber`).

The scanner works on `List Char`.  Go works on bytes; `utf8Lossy` is the byte-to-char
front end (`utf8.DecodeRune` semantics: every invalid byte becomes U+FFFD), which is exactly
what `encoding/json`'s `unquote` does inside strings, and outside strings every non-ASCII byte
is a syntax error in Go just as every non-ASCII character is one here.
-/

namespace Smtb.Codec

abbrev Chars := List Char

/-- Error classes (the differential test compares classes, not messages). -/
inductive Err where
  | syntax          -- `*json.SyntaxError`
  | type            -- `*json.UnmarshalTypeError`, wrong JSON kind
  | range           -- `*json.UnmarshalTypeError`, `Value = "number <literal>"` (not a uint32)
  | invalidNumber   -- `invalid number: <s>` from `fromHex`
  deriving DecidableEq, Repr

def Err.name : Err → String
  | .syntax => "syntax"
  | .type => "type"
  | .range => "range"
  | .invalidNumber => "invalid"

/-- Parsed JSON document. Numbers keep their literal text, strings are unquoted. -/
inductive JVal where
  | null
  | bool (b : Bool)
  | num (lit : Chars)
  | str (s : Chars)
  | arr (xs : List JVal)
  | obj (ms : List (Chars × JVal))

/-! ## Scanner (phase 1) -/

def isWs (c : Char) : Bool := c = ' ' || c = '\t' || c = '\n' || c = '\r'

def skipWs : Chars → Chars
  | [] => []
  | c :: cs => if isWs c then skipWs cs else c :: cs

def isDigit (c : Char) : Bool := decide (48 ≤ c.toNat) && decide (c.toNat ≤ 57)

def spanDigits : Chars → Chars × Chars
  | [] => ([], [])
  | c :: cs =>
    if isDigit c then
      let r := spanDigits cs
      (c :: r.1, r.2)
    else ([], c :: cs)

/-- Exponent part of a number (`stateE`, `stateESign`, `stateE0`). -/
def numExp (lit : Chars) (r : Chars) : Option (Chars × Chars) :=
  match r with
  | [] => some (lit, [])
  | e :: r1 =>
    if e = 'e' ∨ e = 'E' then
      let sg : Chars × Chars :=
        match r1 with
        | [] => ([], [])
        | s :: t => if s = '+' ∨ s = '-' then ([s], t) else ([], s :: t)
      let ds := spanDigits sg.2
      if ds.1.isEmpty then none else some (lit ++ e :: sg.1 ++ ds.1, ds.2)
    else some (lit, e :: r1)

/-- Fraction part (`stateDot`, `stateDot0`). -/
def numFrac (lit : Chars) (r : Chars) : Option (Chars × Chars) :=
  match r with
  | [] => some (lit, [])
  | d :: r1 =>
    if d = '.' then
      let ds := spanDigits r1
      if ds.1.isEmpty then none else numExp (lit ++ '.' :: ds.1) ds.2
    else numExp lit (d :: r1)

/-- Integer part (`stateNeg`, `state0`, `state1`). -/
def numInt (sign : Chars) (r : Chars) : Option (Chars × Chars) :=
  match r with
  | [] => none
  | d :: r1 =>
    if d = '0' then numFrac (sign ++ ['0']) r1
    else if isDigit d then
      let ds := spanDigits r1
      numFrac (sign ++ d :: ds.1) ds.2
    else none

/-- Longest JSON number literal at the head of the input: `(literal, rest)`. -/
def parseNum (cs : Chars) : Option (Chars × Chars) :=
  match cs with
  | [] => none
  | c :: r => if c = '-' then numInt ['-'] r else numInt [] (c :: r)

def hexVal (c : Char) : Option Nat :=
  let n := c.toNat
  if 48 ≤ n ∧ n ≤ 57 then some (n - 48)
  else if 97 ≤ n ∧ n ≤ 102 then some (n - 97 + 10)
  else if 65 ≤ n ∧ n ≤ 70 then some (n - 65 + 10)
  else none

/-- `getu4` without the leading `\u`. -/
def hex4 : Chars → Option (Nat × Chars)
  | a :: b :: c :: d :: rest =>
    match hexVal a, hexVal b, hexVal c, hexVal d with
    | some a, some b, some c, some d => some (((a * 16 + b) * 16 + c) * 16 + d, rest)
    | _, _, _, _ => none
  | _ => none

def replacementChar : Char := Char.ofNat 0xFFFD

/-- After a surrogate escape `rr`: try to read a following `\uXXXX` low surrogate
(`utf16.DecodeRune(rr, getu4(..))`). -/
def surrogatePair (rr : Nat) (r : Chars) : Option (Char × Chars) :=
  match r with
  | b :: u :: r1 =>
    if b = '\\' ∧ u = 'u' then
      match hex4 r1 with
      | some (rr1, r2) =>
        if 0xD800 ≤ rr ∧ rr < 0xDC00 ∧ 0xDC00 ≤ rr1 ∧ rr1 < 0xE000 then
          some (Char.ofNat ((rr - 0xD800) * 0x400 + (rr1 - 0xDC00) + 0x10000), r2)
        else none
      | none => none
    else none
  | _ => none

def simpleEsc (e : Char) : Option Char :=
  if e = '"' then some '"'
  else if e = '\\' then some '\\'
  else if e = '/' then some '/'
  else if e = 'b' then some (Char.ofNat 8)
  else if e = 'f' then some (Char.ofNat 12)
  else if e = 'n' then some '\n'
  else if e = 'r' then some '\r'
  else if e = 't' then some '\t'
  else none

/-- String body after the opening quote: `(unquoted, rest after closing quote)`.
Scanner rules (`stateInString*`) + `unquote`. `acc` is reversed. -/
def parseStr : Nat → Chars → Chars → Except Err (Chars × Chars)
  | 0, _, _ => .error .syntax
  | fuel + 1, cs, acc =>
    match cs with
    | [] => .error .syntax
    | c :: rest =>
      if c = '"' then .ok (acc.reverse, rest)
      else if c = '\\' then
        match rest with
        | [] => .error .syntax
        | e :: rest' =>
          if e = 'u' then
            match hex4 rest' with
            | none => .error .syntax
            | some (rr, r2) =>
              if 0xD800 ≤ rr ∧ rr < 0xE000 then
                match surrogatePair rr r2 with
                | some (ch, r3) => parseStr fuel r3 (ch :: acc)
                | none => parseStr fuel r2 (replacementChar :: acc)
              else parseStr fuel r2 (Char.ofNat rr :: acc)
          else
            match simpleEsc e with
            | some ch => parseStr fuel rest' (ch :: acc)
            | none => .error .syntax
      else if c.toNat < 0x20 then .error .syntax
      else parseStr fuel rest (c :: acc)

/-- `maxNestingDepth` of `encoding/json/scanner.go`. -/
def maxNestingDepth : Nat := 10000

def matchLit (lit : Chars) (cs : Chars) : Option Chars :=
  if lit.isPrefixOf cs then some (cs.drop lit.length) else none

mutual
/-- One JSON value (leading whitespace allowed); `depth` = number of enclosing arrays/objects. -/
def parseValue : Nat → Nat → Chars → Except Err (JVal × Chars)
  | 0, _, _ => .error .syntax
  | fuel + 1, depth, cs =>
    match skipWs cs with
    | [] => .error .syntax
    | c :: r =>
      if c = '"' then
        match parseStr (fuel + 1) r [] with
        | .ok (s, r') => .ok (JVal.str s, r')
        | .error e => .error e
      else if c = '[' then
        if maxNestingDepth ≤ depth then .error .syntax
        else
          match skipWs r with
          | [] => .error .syntax
          | c2 :: r2 =>
            if c2 = ']' then .ok (JVal.arr [], r2)
            else
              match parseElems fuel (depth + 1) (c2 :: r2) with
              | .ok (xs, r') => .ok (JVal.arr xs, r')
              | .error e => .error e
      else if c = '{' then
        if maxNestingDepth ≤ depth then .error .syntax
        else
          match skipWs r with
          | [] => .error .syntax
          | c2 :: r2 =>
            if c2 = '}' then .ok (JVal.obj [], r2)
            else
              match parseMembers fuel (depth + 1) (c2 :: r2) with
              | .ok (ms, r') => .ok (JVal.obj ms, r')
              | .error e => .error e
      else if c = 't' then
        match matchLit ['r', 'u', 'e'] r with
        | some r' => .ok (JVal.bool true, r')
        | none => .error .syntax
      else if c = 'f' then
        match matchLit ['a', 'l', 's', 'e'] r with
        | some r' => .ok (JVal.bool false, r')
        | none => .error .syntax
      else if c = 'n' then
        match matchLit ['u', 'l', 'l'] r with
        | some r' => .ok (JVal.null, r')
        | none => .error .syntax
      else
        match parseNum (c :: r) with
        | some (lit, r') => .ok (JVal.num lit, r')
        | none => .error .syntax

/-- Array elements after `[` (non-empty array), up to and including `]`. -/
def parseElems : Nat → Nat → Chars → Except Err (List JVal × Chars)
  | 0, _, _ => .error .syntax
  | fuel + 1, depth, cs =>
    match parseValue fuel depth cs with
    | .error e => .error e
    | .ok (v, r) =>
      match skipWs r with
      | [] => .error .syntax
      | c :: r1 =>
        if c = ',' then
          match parseElems fuel depth r1 with
          | .ok (vs, r2) => .ok (v :: vs, r2)
          | .error e => .error e
        else if c = ']' then .ok ([v], r1)
        else .error .syntax

/-- Object members after `{` (non-empty object), up to and including `}`. -/
def parseMembers : Nat → Nat → Chars → Except Err (List (Chars × JVal) × Chars)
  | 0, _, _ => .error .syntax
  | fuel + 1, depth, cs =>
    match skipWs cs with
    | [] => .error .syntax
    | q :: r =>
      if q = '"' then
        match parseStr (fuel + 1) r [] with
        | .error e => .error e
        | .ok (k, r1) =>
          match skipWs r1 with
          | [] => .error .syntax
          | col :: r2 =>
            if col = ':' then
              match parseValue fuel depth r2 with
              | .error e => .error e
              | .ok (v, r3) =>
                match skipWs r3 with
                | [] => .error .syntax
                | c :: r4 =>
                  if c = ',' then
                    match parseMembers fuel depth r4 with
                    | .ok (ms, r5) => .ok ((k, v) :: ms, r5)
                    | .error e => .error e
                  else if c = '}' then .ok ([(k, v)], r4)
                  else .error .syntax
            else .error .syntax
      else .error .syntax
end

/-- Fuel that can never run out: every nested call either consumes a character or is the
`parseElems → parseValue` hand-over, so the call depth is at most `2 * length + 2`; `parseStr`
consumes a character per call. -/
def docFuel (cs : Chars) : Nat := 2 * cs.length + 4

/-- Phase 1 (`checkValid`) + tree: one value, then only whitespace. -/
def parseDoc (cs : Chars) : Except Err JVal :=
  match parseValue (docFuel cs) 0 cs with
  | .error e => .error e
  | .ok (v, rest) => if (skipWs rest).isEmpty then .ok v else .error .syntax

/-! ## Typed decode into the mirror structs (phase 2) -/

/-- A Go slice value as far as `encoding/json` can observe it: nil-ness, the `len` visible
elements, and the stale elements that still sit in the backing array behind `len`
(everything further behind is zero).  `reflect.Value.Grow` preserves `[len:cap]`. -/
structure GoSlice (α : Type) where
  isNil : Bool := true
  vis : List α := []
  stale : List α := []
  deriving Repr

def saveErr (e : Option Err) (new : Err) : Option Err :=
  match e with
  | some x => some x
  | none => some new

/-- `foldRune` restricted to what can matter for ASCII field names: ASCII letters fold to upper
case, U+017F (long s) to `S`, U+212A (Kelvin) to `K`; no other rune folds onto ASCII. -/
def foldChar (c : Char) : Char :=
  let n := c.toNat
  if 97 ≤ n ∧ n ≤ 122 then Char.ofNat (n - 32)
  else if n = 0x17F then 'S'
  else if n = 0x212A then 'K'
  else c

def foldName (k : Chars) : Chars := k.map foldChar

def findExact (key : Chars) : List Chars → Nat → Option Nat
  | [], _ => none
  | n :: ns, i => if n = key then some i else findExact key ns (i + 1)

def findFolded (fkey : Chars) : List Chars → Nat → Option Nat
  | [], _ => none
  | n :: ns, i => if foldName n = fkey then some i else findFolded fkey ns (i + 1)

/-- `fields.byExactName[key]`, else `fields.byFoldedName[foldName(key)]`. -/
def fieldIdx (names : List Chars) (key : Chars) : Option Nat :=
  match findExact key names 0 with
  | some i => some i
  | none => findFolded (foldName key) names 0

/-- Decode into a `string` field / element. -/
def decString (old : Chars) (v : JVal) (e : Option Err) : Chars × Option Err :=
  match v with
  | .str s => (s, e)
  | .null => (old, e)
  | _ => (old, saveErr e .type)

/-- `strconv.ParseUint(lit, 10, 64)` + `OverflowUint` for `uint32`. -/
def parseU32 (lit : Chars) : Option Nat :=
  if lit.all isDigit && !lit.isEmpty then
    let n := lit.foldl (fun a c => a * 10 + (c.toNat - 48)) 0
    if n < 2 ^ 32 then some n else none
  else none

/-- Decode into a `uint32` field / element. -/
def decU32 (old : Nat) (v : JVal) (e : Option Err) : Nat × Option Err :=
  match v with
  | .num lit =>
    match parseU32 lit with
    | some n => (n, e)
    | none => (old, saveErr e .range)
  | .null => (old, e)
  | _ => (old, saveErr e .type)

/-- Element loop of `decodeState.array`: element `i` is decoded into whatever the backing
array holds at index `i` (old visible element, stale element, or zero).
Returns (new visible elements, rest of the backing array, saved error). -/
def decElems {α : Type} (dec : α → JVal → Option Err → α × Option Err) (zero : α) :
    List α → List JVal → Option Err → List α × List α × Option Err
  | bk, [], e => ([], bk, e)
  | bk, x :: xs, e =>
    let old := match bk with | [] => zero | o :: _ => o
    let r := dec old x e
    let rs := decElems dec zero bk.tail xs r.2
    (r.1 :: rs.1, rs.2.1, rs.2.2)

/-- Decode into a slice field / element. -/
def decSlice {α : Type} (dec : α → JVal → Option Err → α × Option Err) (zero : α)
    (old : GoSlice α) (v : JVal) (e : Option Err) : GoSlice α × Option Err :=
  match v with
  | .arr [] => ({ isNil := false, vis := [], stale := [] }, e)       -- reflect.MakeSlice(t,0,0)
  | .arr xs =>
    let r := decElems dec zero (old.vis ++ old.stale) xs e
    ({ isNil := false, vis := r.1, stale := r.2.1 }, r.2.2)
  | .null => ({ isNil := true, vis := [], stale := [] }, e)          -- v.SetZero()
  | _ => (old, saveErr e .type)

def decStrSlice : GoSlice Chars → JVal → Option Err → GoSlice Chars × Option Err :=
  decSlice decString []

def decStrSliceSlice :
    GoSlice (GoSlice Chars) → JVal → Option Err → GoSlice (GoSlice Chars) × Option Err :=
  decSlice decStrSlice {}

def decU32Slice : GoSlice Nat → JVal → Option Err → GoSlice Nat × Option Err :=
  decSlice decU32 0

/-- `InsertionParametersJSON` (`marshal.go:36`). -/
structure InsMirror where
  inputHash : Chars := []
  startIndex : Nat := 0
  preRoot : Chars := []
  postRoot : Chars := []
  idComms : GoSlice Chars := {}
  merkleProofs : GoSlice (GoSlice Chars) := {}

/-- `DeletionParametersJSON` (`marshal.go:44`). -/
structure DelMirror where
  inputHash : Chars := []
  deletionIndices : GoSlice Nat := {}
  preRoot : Chars := []
  postRoot : Chars := []
  idComms : GoSlice Chars := {}
  merkleProofs : GoSlice (GoSlice Chars) := {}

def insNames : List Chars :=
  ["inputHash".toList, "startIndex".toList, "preRoot".toList, "postRoot".toList,
   "identityCommitments".toList, "merkleProofs".toList]

def delNames : List Chars :=
  ["inputHash".toList, "deletionIndices".toList, "preRoot".toList, "postRoot".toList,
   "identityCommitments".toList, "merkleProofs".toList]

def decInsField (m : InsMirror) (i : Nat) (v : JVal) (e : Option Err) : InsMirror × Option Err :=
  match i with
  | 0 => let r := decString m.inputHash v e; ({ m with inputHash := r.1 }, r.2)
  | 1 => let r := decU32 m.startIndex v e; ({ m with startIndex := r.1 }, r.2)
  | 2 => let r := decString m.preRoot v e; ({ m with preRoot := r.1 }, r.2)
  | 3 => let r := decString m.postRoot v e; ({ m with postRoot := r.1 }, r.2)
  | 4 => let r := decStrSlice m.idComms v e; ({ m with idComms := r.1 }, r.2)
  | 5 => let r := decStrSliceSlice m.merkleProofs v e; ({ m with merkleProofs := r.1 }, r.2)
  | _ => (m, e)

def decDelField (m : DelMirror) (i : Nat) (v : JVal) (e : Option Err) : DelMirror × Option Err :=
  match i with
  | 0 => let r := decString m.inputHash v e; ({ m with inputHash := r.1 }, r.2)
  | 1 => let r := decU32Slice m.deletionIndices v e; ({ m with deletionIndices := r.1 }, r.2)
  | 2 => let r := decString m.preRoot v e; ({ m with preRoot := r.1 }, r.2)
  | 3 => let r := decString m.postRoot v e; ({ m with postRoot := r.1 }, r.2)
  | 4 => let r := decStrSlice m.idComms v e; ({ m with idComms := r.1 }, r.2)
  | 5 => let r := decStrSliceSlice m.merkleProofs v e; ({ m with merkleProofs := r.1 }, r.2)
  | _ => (m, e)

/-- Member loop of `decodeState.object` for a struct target. -/
def decMembers {μ : Type} (names : List Chars)
    (decField : μ → Nat → JVal → Option Err → μ × Option Err) :
    List (Chars × JVal) → μ → Option Err → μ × Option Err
  | [], m, e => (m, e)
  | (k, v) :: ms, m, e =>
    match fieldIdx names k with
    | some i =>
      let r := decField m i v e
      decMembers names decField ms r.1 r.2
    | none => decMembers names decField ms m e        -- unknown key: value skipped

/-- Decode a document into a zero mirror struct. -/
def decTop {μ : Type} (names : List Chars)
    (decField : μ → Nat → JVal → Option Err → μ × Option Err) (zero : μ) (v : JVal) :
    μ × Option Err :=
  match v with
  | .obj ms => decMembers names decField ms zero none
  | .null => (zero, none)
  | _ => (zero, some .type)

def decInsTop : JVal → InsMirror × Option Err := decTop insNames decInsField {}
def decDelTop : JVal → DelMirror × Option Err := decTop delNames decDelField {}

/-! ## Parameter values, `fromHex` stage (phase 3) -/

/-- `prover.InsertionParameters` (`insertion_proving_system.go:18`).  `big.Int` values are
integers: `fromHex` accepts a sign.  `startIndex` is a `uint32`, i.e. `< 2^32` after decoding. -/
structure InsertionParams where
  inputHash : Int
  startIndex : Nat
  preRoot : Int
  postRoot : Int
  idComms : List Int
  merkleProofs : List (List Int)
  deriving DecidableEq, Repr

/-- `prover.DeletionParameters` (`deletion_proving_system.go:18`).
`deletionIndices = none` is the nil slice (absent key or `null`), `some []` the empty non-nil
slice (`[]`); `MarshalJSON` copies the slice as is, so nil encodes as `null`. -/
structure DeletionParams where
  inputHash : Int
  deletionIndices : Option (List Nat)
  preRoot : Int
  postRoot : Int
  idComms : List Int
  merkleProofs : List (List Int)
  deriving DecidableEq, Repr

/-- All `big.Int` components are non-negative (the quantifier of property C16). -/
def InsertionParams.NonNeg (p : InsertionParams) : Prop :=
  0 ≤ p.inputHash ∧ 0 ≤ p.preRoot ∧ 0 ≤ p.postRoot ∧ (∀ x ∈ p.idComms, 0 ≤ x) ∧
  (∀ r ∈ p.merkleProofs, ∀ x ∈ r, 0 ≤ x)

def DeletionParams.NonNeg (p : DeletionParams) : Prop :=
  0 ≤ p.inputHash ∧ 0 ≤ p.preRoot ∧ 0 ≤ p.postRoot ∧ (∀ x ∈ p.idComms, 0 ≤ x) ∧
  (∀ r ∈ p.merkleProofs, ∀ x ∈ r, 0 ≤ x)

/-- A parameter set given by natural numbers. -/
def InsertionParams.ofNat (ih si pre post : Nat) (ids : List Nat) (mps : List (List Nat)) :
    InsertionParams :=
  { inputHash := Int.ofNat ih, startIndex := si, preRoot := Int.ofNat pre, postRoot := Int.ofNat post,
    idComms := ids.map Int.ofNat, merkleProofs := mps.map (fun r => r.map Int.ofNat) }

def DeletionParams.ofNat (ih : Nat) (idx : Option (List Nat)) (pre post : Nat) (ids : List Nat)
    (mps : List (List Nat)) : DeletionParams :=
  { inputHash := Int.ofNat ih, deletionIndices := idx, preRoot := Int.ofNat pre,
    postRoot := Int.ofNat post, idComms := ids.map Int.ofNat,
    merkleProofs := mps.map (fun r => r.map Int.ofNat) }

def hexE (s : Chars) : Except Err Int :=
  match fromHexChars s with
  | some i => .ok i
  | none => .error .invalidNumber

def hexListE : List Chars → Except Err (List Int)
  | [] => .ok []
  | s :: ss =>
    match hexE s with
    | .error e => .error e
    | .ok i =>
      match hexListE ss with
      | .error e => .error e
      | .ok is => .ok (i :: is)

def hexListListE : List (GoSlice Chars) → Except Err (List (List Int))
  | [] => .ok []
  | s :: ss =>
    match hexListE s.vis with
    | .error e => .error e
    | .ok r =>
      match hexListListE ss with
      | .error e => .error e
      | .ok rs => .ok (r :: rs)

/-- Body of `InsertionParameters.UnmarshalJSON` after `json.Unmarshal` (`marshal.go:81-117`). -/
def finishIns (m : InsMirror) : Except Err InsertionParams :=
  match hexE m.inputHash with
  | .error e => .error e
  | .ok ih =>
    match hexE m.preRoot with
    | .error e => .error e
    | .ok pre =>
      match hexE m.postRoot with
      | .error e => .error e
      | .ok post =>
        match hexListE m.idComms.vis with
        | .error e => .error e
        | .ok ids =>
          match hexListListE m.merkleProofs.vis with
          | .error e => .error e
          | .ok mps =>
            .ok { inputHash := ih, startIndex := m.startIndex, preRoot := pre, postRoot := post,
                  idComms := ids, merkleProofs := mps }

def sliceToOption {α : Type} (s : GoSlice α) : Option (List α) :=
  if s.isNil then none else some s.vis

/-- Body of `DeletionParameters.UnmarshalJSON` after `json.Unmarshal` (`marshal.go:148-184`). -/
def finishDel (m : DelMirror) : Except Err DeletionParams :=
  match hexE m.inputHash with
  | .error e => .error e
  | .ok ih =>
    match hexE m.preRoot with
    | .error e => .error e
    | .ok pre =>
      match hexE m.postRoot with
      | .error e => .error e
      | .ok post =>
        match hexListE m.idComms.vis with
        | .error e => .error e
        | .ok ids =>
          match hexListListE m.merkleProofs.vis with
          | .error e => .error e
          | .ok mps =>
            .ok { inputHash := ih, deletionIndices := sliceToOption m.deletionIndices,
                  preRoot := pre, postRoot := post, idComms := ids, merkleProofs := mps }

def decodeInsertionChars (cs : Chars) : Except Err InsertionParams :=
  match parseDoc cs with
  | .error e => .error e
  | .ok v =>
    match decInsTop v with
    | (_, some e) => .error e
    | (m, none) => finishIns m

def decodeDeletionChars (cs : Chars) : Except Err DeletionParams :=
  match parseDoc cs with
  | .error e => .error e
  | .ok v =>
    match decDelTop v with
    | (_, some e) => .error e
    | (m, none) => finishDel m

/-- `json.Unmarshal([]byte(s), &InsertionParameters{})`. -/
def decodeInsertion (s : String) : Except Err InsertionParams := decodeInsertionChars s.toList

/-- `json.Unmarshal([]byte(s), &DeletionParameters{})`. -/
def decodeDeletion (s : String) : Except Err DeletionParams := decodeDeletionChars s.toList

/-! ## Encoding -/

def quoteChars (s : Chars) : Chars := '"' :: (s ++ ['"'])

def joinComma : List Chars → Chars
  | [] => []
  | [x] => x
  | x :: y :: ys => x ++ ',' :: joinComma (y :: ys)

def encArr (xs : List Chars) : Chars := '[' :: (joinComma xs ++ [']'])

def encHexStr (i : Int) : Chars := quoteChars (toHexIntChars i)

def encHexArr (xs : List Int) : Chars := encArr (xs.map encHexStr)

def encHexArrArr (xss : List (List Int)) : Chars := encArr (xss.map encHexArr)

def encIdxArr : Option (List Nat) → Chars
  | none => ['n', 'u', 'l', 'l']
  | some xs => encArr (xs.map decChars)

/-- Members of a JSON object after the opening brace, up to and including the closing brace:
`"k":v,"k":v}` (keys need no escapes). -/
def encMembers : List (Chars × Chars) → Chars
  | [] => ['}']
  | [kv] => '"' :: (kv.1 ++ '"' :: ':' :: (kv.2 ++ ['}']))
  | kv :: kv' :: ms => '"' :: (kv.1 ++ '"' :: ':' :: (kv.2 ++ ',' :: encMembers (kv' :: ms)))

def encObj (ms : List (Chars × Chars)) : Chars := '{' :: encMembers ms

/-- `InsertionParameters.MarshalJSON` (`marshal.go:53`): `json.Marshal` of the mirror struct,
fields in declaration order. -/
def encodeInsertionChars (p : InsertionParams) : Chars :=
  encObj [("inputHash".toList, encHexStr p.inputHash),
          ("startIndex".toList, decChars p.startIndex),
          ("preRoot".toList, encHexStr p.preRoot),
          ("postRoot".toList, encHexStr p.postRoot),
          ("identityCommitments".toList, encHexArr p.idComms),
          ("merkleProofs".toList, encHexArrArr p.merkleProofs)]

/-- `DeletionParameters.MarshalJSON` (`marshal.go:120`). -/
def encodeDeletionChars (p : DeletionParams) : Chars :=
  encObj [("inputHash".toList, encHexStr p.inputHash),
          ("deletionIndices".toList, encIdxArr p.deletionIndices),
          ("preRoot".toList, encHexStr p.preRoot),
          ("postRoot".toList, encHexStr p.postRoot),
          ("identityCommitments".toList, encHexArr p.idComms),
          ("merkleProofs".toList, encHexArrArr p.merkleProofs)]

def encodeInsertion (p : InsertionParams) : String := String.ofList (encodeInsertionChars p)
def encodeDeletion (p : DeletionParams) : String := String.ofList (encodeDeletionChars p)

/-! ## Byte front end -/

/-- `utf8.DecodeRune` repeatedly: a malformed byte yields U+FFFD and consumes one byte. -/
def utf8LossyF : Nat → List Nat → Chars
  | 0, _ => []
  | _ + 1, [] => []
  | fuel + 1, b0 :: bs =>
    let cont (b : Nat) : Bool := decide (0x80 ≤ b) && decide (b ≤ 0xBF)
    let bad : Chars := replacementChar :: utf8LossyF fuel bs
    if b0 < 0x80 then Char.ofNat b0 :: utf8LossyF fuel bs
    else if 0xC2 ≤ b0 ∧ b0 ≤ 0xDF then
      match bs with
      | b1 :: r => if cont b1 then Char.ofNat ((b0 - 0xC0) * 64 + (b1 - 0x80)) :: utf8LossyF fuel r
                   else bad
      | _ => bad
    else if 0xE0 ≤ b0 ∧ b0 ≤ 0xEF then
      match bs with
      | b1 :: b2 :: r =>
        let lo := if b0 = 0xE0 then 0xA0 else 0x80
        let hi := if b0 = 0xED then 0x9F else 0xBF
        if lo ≤ b1 ∧ b1 ≤ hi ∧ cont b2 then
          Char.ofNat (((b0 - 0xE0) * 64 + (b1 - 0x80)) * 64 + (b2 - 0x80)) :: utf8LossyF fuel r
        else bad
      | _ => bad
    else if 0xF0 ≤ b0 ∧ b0 ≤ 0xF4 then
      match bs with
      | b1 :: b2 :: b3 :: r =>
        let lo := if b0 = 0xF0 then 0x90 else 0x80
        let hi := if b0 = 0xF4 then 0x8F else 0xBF
        if lo ≤ b1 ∧ b1 ≤ hi ∧ cont b2 ∧ cont b3 then
          Char.ofNat ((((b0 - 0xF0) * 64 + (b1 - 0x80)) * 64 + (b2 - 0x80)) * 64 + (b3 - 0x80))
            :: utf8LossyF fuel r
        else bad
      | _ => bad
    else bad

def utf8Lossy (bs : List Nat) : Chars := utf8LossyF (bs.length + 1) bs

def decodeInsertionBytes (bs : List Nat) : Except Err InsertionParams :=
  decodeInsertionChars (utf8Lossy bs)

def decodeDeletionBytes (bs : List Nat) : Except Err DeletionParams :=
  decodeDeletionChars (utf8Lossy bs)

def fromHexBytes (bs : List Nat) : Option Int := fromHexChars (utf8Lossy bs)

end Smtb.Codec
