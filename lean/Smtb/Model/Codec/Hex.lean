/-!
# Hex / numeric-string codec of `prover/marshal.go` (`toHex`, `fromHex`)

Go source (`/repo/prover/marshal.go:24-34`):

```go
func fromHex(i *big.Int, s string) error { _, ok := i.SetString(s, 0); if !ok { error "invalid number" } }
func toHex(i *big.Int) string            { return fmt.Sprintf("0x%s", i.Text(16)) }
```

`fromHexChars` follows `math/big` `Int.SetString(s, 0)` step by step
(`intconv.go: scanSign / Int.scan / setFromScanner`, `natconv.go: nat.scan` with
`base = 0`, `fracOk = false`):

* an optional single sign `+` / `-`;
* a leading `0` followed by at least one more character selects a prefix:
  `0b 0B` (base 2), `0o 0O` (base 8), `0x 0X` (base 16), anything else: "bare" octal
  prefix `0` (base 8, the character after the `0` is *not* consumed);
  a lone `"0"` and everything not starting with `0` is decimal;
* `_` is always treated as a separator (base 0); it is legal only directly after a digit
  (the `0` of a prefix counts as a digit) and not at the very end;
* digits `0-9`, `a-z` = 10.., `A-Z` = 10..; the first character that is not `_` and not a
  digit `< base` stops the scan, and since `SetString` insists that the whole input is
  consumed, every such character makes the call fail;
* at least one digit must follow a `0b/0o/0x` prefix; the result `-0` is `0`.

Everything is a structural function on `List Char`.  Go works on bytes; every byte
`≥ 0x80` is rejected by Go and every non-ASCII `Char` is rejected here, so the char level
is faithful for all inputs (see also `Json.lean: utf8Lossy`).
-/

namespace Smtb.Codec

/-- Digit value as computed by `nat.scan` (for `base ≤ 36`); `none` stands for `MaxBase+1`. -/
def digitVal (c : Char) : Option Nat :=
  let n := c.toNat
  if 48 ≤ n ∧ n ≤ 57 then some (n - 48)
  else if 97 ≤ n ∧ n ≤ 122 then some (n - 97 + 10)
  else if 65 ≤ n ∧ n ≤ 90 then some (n - 65 + 10)
  else none

/-- The `prev` variable of `nat.scan`: `'.'` (anything else), `'0'` (a digit), `'_'`. -/
inductive Prev where
  | other | digit | sep
  deriving DecidableEq, Repr

/-- Loop state of `nat.scan`. -/
structure ScanSt where
  acc : Nat
  count : Nat
  prev : Prev
  invalSep : Bool
  deriving DecidableEq, Repr

/-- One iteration of the digit loop of `nat.scan`; `none` = "character does not belong to the
number" (which `SetString` turns into failure because input is left over). -/
def scanStep (b : Nat) (st : ScanSt) (c : Char) : Option ScanSt :=
  if c = '_' then
    some { st with invalSep := st.invalSep || (st.prev != Prev.digit), prev := Prev.sep }
  else
    match digitVal c with
    | some d =>
      if d < b then
        some { acc := st.acc * b + d, count := st.count + 1, prev := Prev.digit,
               invalSep := st.invalSep }
      else none
    | none => none

def scanDigits (b : Nat) : List Char → ScanSt → Option ScanSt
  | [], st => some st
  | c :: cs, st =>
    match scanStep b st c with
    | some st' => scanDigits b cs st'
    | none => none

/-- Tail of `nat.scan`: separator errors, "no digits" (unless only the bare octal prefix `0`
was seen, which Go interprets as decimal 0). -/
def finishScan (barePrefix0 : Bool) (st : ScanSt) : Option Nat :=
  if st.invalSep || st.prev == Prev.sep then none
  else if st.count == 0 then (if barePrefix0 then some 0 else none)
  else some st.acc

def scanFrom (b : Nat) (prev : Prev) (barePrefix0 : Bool) (cs : List Char) : Option Nat :=
  match scanDigits b cs { acc := 0, count := 0, prev := prev, invalSep := false } with
  | some st => finishScan barePrefix0 st
  | none => none

/-- `nat.scan(r, 0, false)` + "whole input consumed". -/
def scanNat : List Char → Option Nat
  | [] => scanFrom 10 Prev.other false []
  | c :: cs =>
    if c = '0' then
      match cs with
      | [] => scanFrom 10 Prev.other false (c :: cs)          -- the string "0"
      | p :: rest =>
        if p = 'b' ∨ p = 'B' then scanFrom 2 Prev.digit false rest
        else if p = 'o' ∨ p = 'O' then scanFrom 8 Prev.digit false rest
        else if p = 'x' ∨ p = 'X' then scanFrom 16 Prev.digit false rest
        else scanFrom 8 Prev.digit true (p :: rest)           -- bare `0` octal prefix
    else scanFrom 10 Prev.other false (c :: cs)

/-- `big.Int.SetString(s, 0)` on the characters of `s`: `none` = `ok == false`. -/
def fromHexChars : List Char → Option Int
  | [] => none
  | c :: cs =>
    if c = '-' then (scanNat cs).map (fun n => -(Int.ofNat n))
    else if c = '+' then (scanNat cs).map Int.ofNat
    else (scanNat (c :: cs)).map Int.ofNat

/-- Model of `fromHex` (`marshal.go:24`): `none` = the error `invalid number: <s>`. -/
def fromHex (s : String) : Option Int := fromHexChars s.toList

/-! ## Rendering -/

/-- Lower-case digit character of a value `< 16` (also used for decimal rendering). -/
def hexDigit (d : Nat) : Char :=
  if d < 10 then Char.ofNat (48 + d) else Char.ofNat (87 + d)

/-- Digits of `n` in base `b`, most significant first, no leading zeros (`"0"` for 0).
`fuel` must exceed `n` (any `fuel > n` gives the same result when `b ≥ 2`). -/
def baseCharsF (b : Nat) : Nat → Nat → List Char
  | 0, _ => []
  | fuel + 1, n =>
    if n < b then [hexDigit n] else baseCharsF b fuel (n / b) ++ [hexDigit (n % b)]

def baseChars (b n : Nat) : List Char := baseCharsF b (n + 1) n

/-- `big.Int.Text(16)` for a non-negative value. -/
def hexChars (n : Nat) : List Char := baseChars 16 n

/-- `strconv.AppendUint(_, n, 10)` / `%d`. -/
def decChars (n : Nat) : List Char := baseChars 10 n

def toHexChars (n : Nat) : List Char := '0' :: 'x' :: hexChars n

/-- Model of `toHex` (`marshal.go:32`) on a non-negative `big.Int`. -/
def toHex (n : Nat) : String := String.ofList (toHexChars n)

/-- `toHex` on an arbitrary `big.Int`: `Text(16)` of a negative value is `-` followed by the
magnitude, so the result is `0x-5` for `-5` (which `fromHex` rejects). -/
def toHexIntChars (i : Int) : List Char :=
  if i < 0 then '0' :: 'x' :: '-' :: hexChars i.natAbs else toHexChars i.natAbs

def toHexInt (i : Int) : String := String.ofList (toHexIntChars i)

end Smtb.Codec
