import Smtb.Model.Bits
import Smtb.Model.Pack
import Smtb.Model.Codec.Hex
import Smtb.Model.Codec.Json
/-!
# `Proof.MarshalJSON` / `Proof.UnmarshalJSON` (`/repo/prover/marshal.go:181-253`) — core only

The model works on the 256-byte raw buffer that gnark's `groth16.Proof.WriteRawTo` produces and
`ReadFrom` consumes.  Assumed about gnark-crypto (validated by the differential test
`harness/cmd/corr10`): the raw layout is

    A.x  A.y | B.x.A1  B.x.A0  B.y.A1  B.y.A0 | C.x  C.y        (32 bytes each, big-endian)

and `ReadFrom ∘ WriteRawTo = id` on valid proofs.  `ReadFrom` additionally validates the points
(on curve, in the subgroup) and may fail; that step is outside the model: `unmarshal` returns the
buffer that the Go code hands to `ReadFrom`.

`marshal`: word `i` (bytes `32i … 32i+31`) is rendered `toHex (SetBytes word)`; words go to
`ar[0], ar[1], bs[0][0], bs[0][1], bs[1][0], bs[1][1], krs[0], krs[1]`; `json.Marshal` of
`ProofJSON` (fixed-size Go arrays) prints the compact object in field order.

`unmarshal` follows `UnmarshalJSON`:
1. `json.Unmarshal(data, &proofJson)` with the scanner / typed-decode rules of `encoding/json`
   (`Smtb/Model/Codec/Json.lean`) for a struct of **Go arrays** `[2]string`, `[2][2]string`:
   JSON array elements beyond the Go array length are skipped (without type check), missing
   elements are set to the zero value, `null` leaves the target unchanged, any other JSON kind is
   an `UnmarshalTypeError` (decoding continues, the first error is reported), keys match exactly
   or case-folded, unknown keys are skipped, a duplicate key decodes into the existing array;
2. `fromHex` on the eight strings in order (first failure wins; a missing string is `""`, which
   `fromHex` rejects);
3. CURRENT byte placement (after commit `0168fd6`): `intBytes := x.Bytes()` (the magnitude: a
   negative number is placed as its absolute value), error if `len(intBytes) > 32`, else
   right-aligned in the 32-byte slot.  `unmarshalOld` is the pre-repair placement
   `copy(proofBytes[32i:32(i+1)], x.Bytes())`: left-aligned, silently truncated to 32 bytes.
-/
namespace Smtb.ProofJson
open Smtb.Codec Smtb.Bits Smtb.Pack

/-- error classes of `Proof.UnmarshalJSON` before `ReadFrom` -/
inductive Err where
  | syntax          -- `*json.SyntaxError`
  | type            -- `*json.UnmarshalTypeError`
  | invalidNumber   -- `invalid number: <s>` from `fromHex`
  | tooLong         -- `proof element <i> does not fit in 32 bytes`
  deriving DecidableEq, Repr

def Err.name : Err → String
  | .syntax => "syntax"
  | .type => "type"
  | .invalidNumber => "invalid"
  | .tooLong => "toolong"

def Err.ofCodec : Codec.Err → Err
  | .syntax => .syntax
  | .type => .type
  | .range => .type          -- cannot occur: `ProofJSON` has no numeric field
  | .invalidNumber => .invalidNumber

/-! ## Marshal -/

/-- bytes `32i … 32i+31` of the buffer -/
def word (buf : List Nat) (i : Nat) : List Nat := (buf.drop (32 * i)).take 32

/-- `new(big.Int).SetBytes(proofBytes[i*32:(i+1)*32])` for `i = 0 … 7` -/
def wordNats (buf : List Nat) : List Nat := (List.range 8).map fun i => natOfBytesBE (word buf i)

def marshalWordChars (buf : List Nat) : List Chars := (wordNats buf).map toHexChars

/-- `proofHexNumbers` -/
def marshalWords (buf : List Nat) : List String := (wordNats buf).map toHex

def q (w : Chars) : Chars := quoteChars w

/-- `json.Marshal(ProofJSON{Ar: [w0,w1], Bs: [[w2,w3],[w4,w5]], Krs: [w6,w7]})` -/
def jsonOfWords (w : List Chars) : Chars :=
  encObj [("ar".toList, encArr [q (w.getD 0 []), q (w.getD 1 [])]),
          ("bs".toList, encArr [encArr [q (w.getD 2 []), q (w.getD 3 [])],
                                encArr [q (w.getD 4 []), q (w.getD 5 [])]]),
          ("krs".toList, encArr [q (w.getD 6 []), q (w.getD 7 [])])]

def marshalChars (buf : List Nat) : Chars := jsonOfWords (marshalWordChars buf)

/-- `Proof.MarshalJSON` on the raw buffer of the proof -/
def marshal (buf : List Nat) : String := String.ofList (marshalChars buf)

/-! ## Unmarshal -/

/-- element loop of `decodeState.array` for a Go **array** target holding `old`:
surplus JSON elements are skipped, the remainder of the Go array is zeroed -/
def decArrElems {α : Type} (dec : α → JVal → Option Codec.Err → α × Option Codec.Err) (zero : α) :
    List α → List JVal → Option Codec.Err → List α × Option Codec.Err
  | [], _, e => ([], e)
  | old, [], e => (old.map fun _ => zero, e)
  | o :: os, x :: xs, e =>
    let r := dec o x e
    let rs := decArrElems dec zero os xs r.2
    (r.1 :: rs.1, rs.2)

/-- decode a JSON value into a Go array -/
def decArr {α : Type} (dec : α → JVal → Option Codec.Err → α × Option Codec.Err) (zero : α)
    (old : List α) (v : JVal) (e : Option Codec.Err) : List α × Option Codec.Err :=
  match v with
  | .arr xs => decArrElems dec zero old xs e
  | .null => (old, e)
  | _ => (old, saveErr e .type)

/-- `[2]string` -/
def decStr2 : List Chars → JVal → Option Codec.Err → List Chars × Option Codec.Err :=
  decArr decString []

/-- `[2][2]string` -/
def decStr22 : List (List Chars) → JVal → Option Codec.Err → List (List Chars) × Option Codec.Err :=
  decArr decStr2 [[], []]

/-- `ProofJSON` (`marshal.go:181`) -/
structure Mirror where
  ar : List Chars := [[], []]
  bs : List (List Chars) := [[[], []], [[], []]]
  krs : List Chars := [[], []]

def names : List Chars := ["ar".toList, "bs".toList, "krs".toList]

def decField (m : Mirror) (i : Nat) (v : JVal) (e : Option Codec.Err) : Mirror × Option Codec.Err :=
  match i with
  | 0 => let r := decStr2 m.ar v e; ({ m with ar := r.1 }, r.2)
  | 1 => let r := decStr22 m.bs v e; ({ m with bs := r.1 }, r.2)
  | 2 => let r := decStr2 m.krs v e; ({ m with krs := r.1 }, r.2)
  | _ => (m, e)

def decTopProof : JVal → Mirror × Option Codec.Err := decTop names decField {}

/-- `proofHexNumbers := [8]string{proofJson.Ar[0], …, proofJson.Krs[1]}` -/
def mirrorWords (m : Mirror) : List Chars :=
  [m.ar.getD 0 [], m.ar.getD 1 [], (m.bs.getD 0 []).getD 0 [], (m.bs.getD 0 []).getD 1 [],
   (m.bs.getD 1 []).getD 0 [], (m.bs.getD 1 []).getD 1 [], m.krs.getD 0 [], m.krs.getD 1 []]

/-- steps 1 and 2: the eight `big.Int`s -/
def decodeInts (cs : Chars) : Except Err (List Int) :=
  match parseDoc cs with
  | .error e => .error (Err.ofCodec e)
  | .ok v =>
    match decTopProof v with
    | (_, some e) => .error (Err.ofCodec e)
    | (m, none) =>
      match hexListE (mirrorWords m) with
      | .error e => .error (Err.ofCodec e)
      | .ok is => .ok is

/-- CURRENT placement of one coordinate -/
def slot (i : Int) : Except Err (List Nat) :=
  let bs := minBytes i.natAbs
  if bs.length > 32 then .error .tooLong else .ok (List.replicate (32 - bs.length) 0 ++ bs)

def slots : List Int → Except Err (List Nat)
  | [] => .ok []
  | i :: is =>
    match slot i with
    | .error e => .error e
    | .ok s =>
      match slots is with
      | .error e => .error e
      | .ok r => .ok (s ++ r)

/-- PRE-repair placement: `copy(dst[0:32], x.Bytes())` -/
def slotOld (i : Int) : List Nat :=
  let bs := (minBytes i.natAbs).take 32
  bs ++ List.replicate (32 - bs.length) 0

def unmarshalChars (cs : Chars) : Except Err (List Nat) :=
  match decodeInts cs with
  | .error e => .error e
  | .ok is => slots is

def unmarshalOldChars (cs : Chars) : Except Err (List Nat) :=
  match decodeInts cs with
  | .error e => .error e
  | .ok is => .ok (is.flatMap slotOld)

/-- CURRENT `Proof.UnmarshalJSON` up to the buffer handed to `ReadFrom` -/
def unmarshal (s : String) : Except Err (List Nat) := unmarshalChars s.toList

/-- `Proof.UnmarshalJSON` before commit `0168fd6` -/
def unmarshalOld (s : String) : Except Err (List Nat) := unmarshalOldChars s.toList

/-- byte front end (`data []byte`) -/
def unmarshalBytes (bs : List Nat) : Except Err (List Nat) := unmarshalChars (utf8Lossy bs)
def unmarshalOldBytes (bs : List Nat) : Except Err (List Nat) := unmarshalOldChars (utf8Lossy bs)

end Smtb.ProofJson
