import Smtb.Model.Prover
/-!
# The `/prove` handler (`server/server.go:111-168`) — core only, executable

`respond sys method body` is `proveHandler.ServeHTTP` as a function of the request:

```go
if r.Method != http.MethodPost { w.WriteHeader(405); return }            // exact, case-sensitive
buf, err := io.ReadAll(r.Body)              ; if err != nil { malformedBodyError(err).send(w); return }
json.Unmarshal(buf, &params)  (by mode)     ; if err != nil { malformedBodyError(err).send(w); return }
proof, err = ps.Prove…(&params)             ; if err != nil { provingError(err).send(w); return }
responseBytes, err := json.Marshal(&proof)  ; if err != nil { unexpectedError(err).send(w); return }
w.WriteHeader(200); w.Write(responseBytes)
```

Modelling notes.

* `body : String` is the request body *as text*: the byte → text front end is `Codec.utf8Lossy`
  (the same one the codec check C16 uses); `decodeInsertion` / `decodeDeletion` are
  `json.Unmarshal` into `InsertionParameters` / `DeletionParameters`.
* A failing `io.ReadAll` (the client aborts the upload) is answered 400 `malformed_body` too; it
  is an event of the connection, not a function of the request, and is not modelled.
* The 500 `unexpected_error` branch is **unreachable**: `(*Proof).MarshalJSON` writes a Groth16
  proof into a `bytes.Buffer` and marshals eight strings; neither can fail.  `Resp` has no such
  constructor.
* `proveHandler` has a `mode` field beside `provingSystem`.  With a mode string that is neither
  `"insertion"` nor `"deletion"` both branches are skipped, `proof` stays `nil`, `err` stays
  `nil`, and the handler would answer **200 with body `null`**.  The `start` / `start-from-s3`
  commands validate the mode before they construct the server (`main.go`), so this is unreachable
  from the binary; only the two valid modes are modelled.
* The handler mode comes from `--mode`, the proving system from `--keys-file`; nothing ties them
  together.  `respondCfg handlerMode sys` is the general handler, `respond sys` the well-configured
  one (`handlerMode = sys.mode`).  See `Smtb.Properties.C07.prove_cross_mode` for the other case.
* A panic inside a handler is recovered by `net/http` (the connection is closed without a
  response, the server keeps running).  The only candidate is an index out of range in the
  assembly loops, excluded by `ValidateShape` (`C07.prove_never_panics`).

The second half is the interleaving semantics for property C13.
-/
namespace Smtb.Http
open Smtb.Codec Smtb.Prover

/-- What the client of `/prove` receives. -/
inductive Resp where
  | methodNotAllowed      -- 405, empty body
  | malformedBody         -- 400, `{"code":"malformed_body","message":…}`
  | provingError          -- 400, `{"code":"proving_error","message":…}`
  | ok (tok : Token)      -- 200, the proof as JSON
  deriving DecidableEq, Repr

def Resp.status : Resp → Nat
  | .methodNotAllowed => 405
  | .malformedBody => 400
  | .provingError => 400
  | .ok _ => 200

/-- the `code` member of the JSON error body -/
def Resp.code : Resp → Option String
  | .methodNotAllowed => none
  | .malformedBody => some "malformed_body"
  | .provingError => some "proving_error"
  | .ok _ => none

/-- `json.Unmarshal(buf, &params)` for the handler's mode -/
def decodeParams (m : Mode) (body : String) : Except Err Params :=
  match m with
  | .insertion =>
    match decodeInsertion body with
    | .ok p => .ok (.insertion p)
    | .error e => .error e
  | .deletion =>
    match decodeDeletion body with
    | .ok p => .ok (.deletion p)
    | .error e => .error e

/-- `ServeHTTP` of a handler `{mode: handlerMode, provingSystem: sys}` -/
def respondCfg (handlerMode : Mode) (sys : System) (method : String) (body : String) : Resp :=
  if method ≠ "POST" then .methodNotAllowed
  else
    match decodeParams handlerMode body with
    | .error _ => .malformedBody
    | .ok ps =>
      match prove sys ps with
      | .error _ => .provingError
      | .ok t => .ok t

/-- `ServeHTTP` of a server started with the mode its keys were set up for -/
def respond (sys : System) (method : String) (body : String) : Resp :=
  respondCfg sys.mode sys method body

/-! ## A server as a state machine over request histories (sequential) -/

structure Request where
  method : String
  body : String
  deriving DecidableEq, Repr

/-- Everything a handler invocation can read besides its request is `handler.mode` and
`handler.provingSystem`, both fixed at construction: the *mutable* server state relevant to
responses is empty. -/
abbrev ServerState := Unit

def handle (sys : System) (st : ServerState) (rq : Request) : ServerState × Resp :=
  (st, respond sys rq.method rq.body)

/-- serve a history of requests one after the other -/
def serve (sys : System) : ServerState → List Request → List Resp
  | _, [] => []
  | st, rq :: rest => (handle sys st rq).2 :: serve sys (handle sys st rq).1 rest

/-! ## Interleaving semantics (property C13)

Each in-flight request is a *thread* with a program counter over the atomic steps of the handler
and its own local variables (`buf`, `params`, the witness, `proof`, the response about to be
written).  The proving system is shared and **read-only**: no step returns a new `System`.
`stepSched c i` lets request `i` make one step; a response is emitted by the `write` step. -/

inductive Pc where
  | start      -- method check
  | readBody   -- `io.ReadAll(r.Body)`
  | decode     -- `json.Unmarshal`
  | validate   -- `ValidateShape`
  | assign     -- assembly loops + `frontend.NewWitness`
  | prove      -- `groth16.Prove`
  | marshal    -- `json.Marshal(&proof)`
  | write      -- `WriteHeader` + `Write`
  | done
  | crashed    -- handler goroutine panicked (no response); shown unreachable
  deriving DecidableEq, Repr

/-- upper bound on the number of steps still to be made -/
def Pc.remaining : Pc → Nat
  | .start => 8
  | .readBody => 7
  | .decode => 6
  | .validate => 5
  | .assign => 4
  | .prove => 3
  | .marshal => 2
  | .write => 1
  | .done => 0
  | .crashed => 0

/-- number of steps after which every request has been answered -/
def maxSteps : Nat := 8

/-- the handler's local variables -/
structure Local where
  buf : Option String := none
  params : Option Params := none
  witness : Option Witness := none
  proof : Option Token := none
  pending : Option Resp := none
  deriving Repr

structure Thread where
  req : Request
  pc : Pc
  loc : Local
  deriving Repr

def Thread.init (rq : Request) : Thread := { req := rq, pc := .start, loc := {} }

/-- the assembly loops of the `Prove…` selected by the parameters' kind -/
def assemble (d b : Nat) : Params → Option Witness
  | .insertion p => assembleInsertion d b p
  | .deletion p => assembleDeletion d b p

/-- One atomic step of one handler invocation.  Reads `sys` (never writes it) and its own thread;
returns the new thread and the response written to the client, if any. -/
def Thread.step (sys : System) (t : Thread) : Thread × Option Resp :=
  match t.pc with
  | .start =>
    if t.req.method ≠ "POST" then
      ({ t with pc := .write, loc := { t.loc with pending := some .methodNotAllowed } }, none)
    else ({ t with pc := .readBody }, none)
  | .readBody => ({ t with pc := .decode, loc := { t.loc with buf := some t.req.body } }, none)
  | .decode =>
    match t.loc.buf with
    | none => ({ t with pc := .crashed }, none)
    | some buf =>
      match decodeParams sys.mode buf with
      | .error _ => ({ t with pc := .write, loc := { t.loc with pending := some .malformedBody } }, none)
      | .ok ps => ({ t with pc := .validate, loc := { t.loc with params := some ps } }, none)
  | .validate =>
    match t.loc.params with
    | none => ({ t with pc := .crashed }, none)
    | some ps =>
      if ps.shapeOk sys.depth sys.batch then ({ t with pc := .assign }, none)
      else ({ t with pc := .write, loc := { t.loc with pending := some .provingError } }, none)
  | .assign =>
    match t.loc.params with
    | none => ({ t with pc := .crashed }, none)
    | some ps =>
      match assemble sys.depth sys.batch ps with
      | none => ({ t with pc := .crashed }, none)
      | some w => ({ t with pc := .prove, loc := { t.loc with witness := some w } }, none)
  | .prove =>
    match t.loc.witness with
    | none => ({ t with pc := .crashed }, none)
    | some w =>
      match idealProve sys w with
      | .error _ => ({ t with pc := .write, loc := { t.loc with pending := some .provingError } }, none)
      | .ok tok => ({ t with pc := .marshal, loc := { t.loc with proof := some tok } }, none)
  | .marshal =>
    match t.loc.proof with
    | none => ({ t with pc := .crashed }, none)
    | some tok => ({ t with pc := .write, loc := { t.loc with pending := some (.ok tok) } }, none)
  | .write =>
    match t.loc.pending with
    | none => ({ t with pc := .crashed }, none)
    | some resp => ({ t with pc := .done }, some resp)
  | .done => (t, none)
  | .crashed => (t, none)

/-- A configuration: the shared read-only proving system, the in-flight requests, and the
responses written so far (in order of emission, tagged with the index of their request — each
request has its own connection, so a response cannot reach another client). -/
structure Config where
  sys : System
  threads : List Thread
  out : List (Nat × Resp)

def Config.init (sys : System) (reqs : List Request) : Config :=
  { sys := sys, threads := reqs.map Thread.init, out := [] }

/-- the scheduler picks request `i` (an index without a request is a no-op) -/
def stepSched (c : Config) (i : Nat) : Config :=
  match c.threads[i]? with
  | none => c
  | some t =>
    { c with
      threads := c.threads.set i (t.step c.sys).1
      out := c.out ++ (match (t.step c.sys).2 with
                       | none => []
                       | some resp => [(i, resp)]) }

/-- run a whole schedule -/
def run (c : Config) (sched : List Nat) : Config := sched.foldl stepSched c

/-- the responses received by the client of request `i`, in order -/
def Config.received (c : Config) (i : Nat) : List Resp :=
  (c.out.filter (fun e => e.1 == i)).map (·.2)

end Smtb.Http
