import Smtb.Model.Bits
import Smtb.Model.Keccak
import Smtb.Model.Tree
import Smtb.Model.Poseidon
/-!
# Public-input packing, the off-chain input-hash helpers and `gen-test-params` (core only, executable)

* `packInsertion` / `packDeletion` — the byte string the verifier contract hashes
  (`abi.encodePacked(uint32 startIndex, uint256 preRoot, uint256 postRoot, uint256[] ids)` resp.
  `abi.encodePacked(uint32[] indices…, uint256 preRoot, uint256 postRoot)`): 4-byte big-endian
  indices, 32-byte big-endian roots and commitments.  **These two definitions are the
  specification.**
* `helperPackInsertion` / `helperPackDeletion` — the byte string that the CURRENT
  `ComputeInputHashInsertion` (`/repo/prover/insertion_proving_system.go:47-68`) and
  `ComputeInputHashDeletion` (`/repo/prover/deletion_proving_system.go:50-64`) feed to Keccak,
  transcribed step by step from the Go code:
  - `binary.Write(buf, binary.BigEndian, uint32 / []uint32)` = `u32be` per element;
  - `x.FillBytes(make([]byte, 32))` = `fillBytes32`: the minimal big-endian magnitude
    right-aligned in a zeroed 32-byte buffer; **Go panics** (`math/big: buffer too small to fit
    value`) when the magnitude needs more than 32 bytes, i.e. for values `≥ 2^256`; the model
    returns `none` for that case, so the result type is `Option`;
  - a commitment `v`: `v.Bytes()` (`minBytes`), left-padded with zeros to 32 bytes when shorter,
    appended **unpadded** (33 bytes or more) when longer (`commitBytes`).
  `big.Int.Bytes()` and `FillBytes` work on the absolute value; the model is on `Nat`, a negative
  `big.Int` behaves like its magnitude (`Driver/C08Cmd.lean` applies `Int.natAbs`).
* `helperPackInsertionOld` / `helperPackDeletionOld` — the helpers before commit `ee23ff1`
  (roots appended as `Bytes()`, minimal form): kept as regression model of the repaired defect.
* `genInsertion` / `genDeletion` — the action of the `gen-test-params` command
  (`/repo/main.go:212-273`) on the tree model `Smtb.Tree` (generic in the hash; instantiated with
  the reference Poseidon over BN254).  Go's loop variables are machine integers
  (`batchSize : uint32`, `int(batchSize*2)` wraps at `2^32`); the model is on `Nat`, which agrees
  for `2 * batchSize < 2^32` (guaranteed by `2 * b ≤ 2 ^ d` for every tree depth `d ≤ 32`).
-/
namespace Smtb.Pack
open Smtb.Bits

/-! ## Specification: the on-chain packing -/

def packInsertion (start pre post : Nat) (ids : List Nat) : List Nat :=
  bytesBE 4 start ++ bytesBE 32 pre ++ bytesBE 32 post ++ ids.flatMap (bytesBE 32)

def packDeletion (idxs : List Nat) (pre post : Nat) : List Nat :=
  idxs.flatMap (bytesBE 4) ++ bytesBE 32 pre ++ bytesBE 32 post

/-! ## Go primitives -/

/-- `big.Int.Bytes()` of a non-negative value: minimal big-endian byte string, `[]` for 0.
`fuel` must be at least the number of bytes (any `fuel ≥ n` will do). -/
def minBytesF : Nat → Nat → List Nat
  | 0, _ => []
  | fuel + 1, n => if n = 0 then [] else minBytesF fuel (n / 256) ++ [n % 256]

def minBytes (n : Nat) : List Nat := minBytesF n n

/-- `binary.Write(buf, binary.BigEndian, v)` for `v : uint32` (`byte(v>>24), byte(v>>16), …`). -/
def u32be (v : Nat) : List Nat := [v / 2 ^ 24 % 256, v / 2 ^ 16 % 256, v / 2 ^ 8 % 256, v % 256]

/-- `x.FillBytes(make([]byte, 32))`; `none` = the Go panic for a value of more than 32 bytes. -/
def fillBytes32 (x : Nat) : Option (List Nat) :=
  let bs := minBytes x
  if bs.length ≤ 32 then some (List.replicate (32 - bs.length) 0 ++ bs) else none

/-- loop body of `ComputeInputHashInsertion` for one commitment:
`idBytes := v.Bytes(); if len(idBytes) < 32 { idBytes = append(make([]byte, 32-len), idBytes...) }` -/
def commitBytes (v : Nat) : List Nat :=
  let bs := minBytes v
  if bs.length < 32 then List.replicate (32 - bs.length) 0 ++ bs else bs

/-! ## The helpers -/

/-- CURRENT `ComputeInputHashInsertion`: the `data` slice handed to `keccak256.Hash`. -/
def helperPackInsertion (start pre post : Nat) (ids : List Nat) : Option (List Nat) :=
  match fillBytes32 pre, fillBytes32 post with
  | some a, some b => some (u32be start ++ a ++ b ++ ids.flatMap commitBytes)
  | _, _ => none

/-- CURRENT `ComputeInputHashDeletion`. -/
def helperPackDeletion (idxs : List Nat) (pre post : Nat) : Option (List Nat) :=
  match fillBytes32 pre, fillBytes32 post with
  | some a, some b => some (idxs.flatMap u32be ++ a ++ b)
  | _, _ => none

/-- `ComputeInputHashInsertion` before commit `ee23ff1`: roots as `Bytes()`. -/
def helperPackInsertionOld (start pre post : Nat) (ids : List Nat) : List Nat :=
  u32be start ++ minBytes pre ++ minBytes post ++ ids.flatMap commitBytes

/-- `ComputeInputHashDeletion` before commit `ee23ff1`. -/
def helperPackDeletionOld (idxs : List Nat) (pre post : Nat) : List Nat :=
  idxs.flatMap u32be ++ minBytes pre ++ minBytes post

/-- `p.InputHash.SetBytes(keccak256.Hash(data))` -/
def hashOf (data : List Nat) : Nat := natOfBytesBE (KeccakRef.keccak256 data)

/-- value left in `p.InputHash` by the CURRENT helper (`none`: the helper panics) -/
def inputHashInsertion (start pre post : Nat) (ids : List Nat) : Option Nat :=
  (helperPackInsertion start pre post ids).map hashOf

def inputHashDeletion (idxs : List Nat) (pre post : Nat) : Option Nat :=
  (helperPackDeletion idxs pre post).map hashOf

def inputHashInsertionOld (start pre post : Nat) (ids : List Nat) : Nat :=
  hashOf (helperPackInsertionOld start pre post ids)

def inputHashDeletionOld (idxs : List Nat) (pre post : Nat) : Nat :=
  hashOf (helperPackDeletionOld idxs pre post)

/-- the hash the contract computes (and the circuit enforces) for in-range values -/
def specHashInsertion (start pre post : Nat) (ids : List Nat) : Nat :=
  hashOf (packInsertion start pre post ids)

def specHashDeletion (idxs : List Nat) (pre post : Nat) : Nat :=
  hashOf (packDeletion idxs pre post)

/-! ## `gen-test-params` -/

section Gen
variable {F : Type}

/-- a sequence of `tree.Update(index, value)` calls: final tree and the returned proofs -/
def runUpdates (H : F → F → F) (zero : F) : Tree.Tree F → List (Nat × F) → Tree.Tree F × List (List F)
  | t, [] => (t, [])
  | t, u :: us =>
    let r := t.update H zero u.1 u.2
    let rs := runUpdates H zero r.1 us
    (rs.1, r.2 :: rs.2)

/-- `prover.InsertionParameters` without the input hash -/
structure InsBatch (F : Type) where
  startIndex : Nat
  preRoot : F
  postRoot : F
  idComms : List F
  merkleProofs : List (List F)

/-- `prover.DeletionParameters` without the input hash -/
structure DelBatch (F : Type) where
  deletionIndices : List Nat
  preRoot : F
  postRoot : F
  idComms : List F
  merkleProofs : List (List F)

/-- the updates of the insertion branch: `tree.Update(i, i+1)` for `i = 0 … b-1`
(`ofNat` is `new(big.Int).SetUint64`) -/
def insUpdates (ofNat : Nat → F) (b : Nat) : List (Nat × F) :=
  (List.range b).map fun i => (i, ofNat (i + 1))

/-- insertion branch of the action (`main.go:231-243`) -/
def genInsertionG (H : F → F → F) (zero : F) (ofNat : Nat → F) (d b : Nat) : InsBatch F :=
  let tree := Tree.newTree H zero d
  let r := runUpdates H zero tree (insUpdates ofNat b)
  { startIndex := 0
    preRoot := tree.rootValue zero
    postRoot := r.1.rootValue zero
    idComms := (insUpdates ofNat b).map Prod.snd
    merkleProofs := r.2 }

/-- the fill loop of the deletion branch: `tree.Update(i, i+1)` for `i = 0 … 2b-1` -/
def fillUpdates (ofNat : Nat → F) (b : Nat) : List (Nat × F) :=
  (List.range (2 * b)).map fun i => (i, ofNat (i + 1))

/-- the deletion loop: `tree.Update(2*i, 0)` for `i = 0 … b-1` -/
def delUpdates (zero : F) (b : Nat) : List (Nat × F) :=
  (List.range b).map fun i => (2 * i, zero)

/-- deletion branch of the action (`main.go:244-262`) -/
def genDeletionG (H : F → F → F) (zero : F) (ofNat : Nat → F) (d b : Nat) : DelBatch F :=
  let tree := Tree.newTree H zero d
  let filled := (runUpdates H zero tree (fillUpdates ofNat b)).1
  let r := runUpdates H zero filled (delUpdates zero b)
  { deletionIndices := (List.range b).map fun i => 2 * i
    preRoot := filled.rootValue zero
    postRoot := r.1.rootValue zero
    idComms := (List.range b).map fun i => ofNat (2 * i + 1)
    merkleProofs := r.2 }

end Gen

/-- the hash of `poseidon_tree`: Poseidon over BN254 (reference implementation) -/
def H254 : Nat → Nat → Nat := Poseidon.hash2 Poseidon.bn254r

/-- `gen-test-params --mode insertion --tree-depth d --batch-size b`: parameters … -/
def genInsertion (d b : Nat) : InsBatch Nat := genInsertionG H254 0 id d b

/-- … and the `InputHash` that `params.ComputeInputHashInsertion()` stores -/
def genInsertionHash (d b : Nat) : Option Nat :=
  let p := genInsertion d b
  inputHashInsertion p.startIndex p.preRoot p.postRoot p.idComms

def genDeletion (d b : Nat) : DelBatch Nat := genDeletionG H254 0 id d b

def genDeletionHash (d b : Nat) : Option Nat :=
  let p := genDeletion d b
  inputHashDeletion p.deletionIndices p.preRoot p.postRoot

end Smtb.Pack
