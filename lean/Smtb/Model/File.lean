/-!
# C11 / C15 — framing of the proving-system file (core Lean only)

Go source modelled: `prover/marshal.go`, `ProvingSystem.WriteTo` (compressed keys, l.260),
`ProvingSystem.WriteRawTo` (uncompressed keys, l.299), `ProvingSystem.UnsafeReadFrom` (l.338) and
`ReadSystemFromFile` (l.385).

File layout, identical in both formats except for the point encoding inside the two keys:

    u32 BE tree depth | u32 BE batch size | proving key | verifying key | constraint system

* `WriteTo`    : `ProvingKey.WriteTo`,    `VerifyingKey.WriteTo`,    `ConstraintSystem.WriteTo`
* `WriteRawTo` : `ProvingKey.WriteRawTo`, `VerifyingKey.WriteRawTo`, `ConstraintSystem.WriteTo`
  (the constraint system is CBOR and has no raw variant — same call in both writers)
* `UnsafeReadFrom` : `io.ReadFull` 4 bytes twice, then `ProvingKey.UnsafeReadFrom`,
  `VerifyingKey.UnsafeReadFrom`, `ConstraintSystem.ReadFrom`; the first error aborts; nothing checks
  that the reader is exhausted afterwards (trailing bytes are ignored).

gnark's three section formats are PARAMETERS of the model (`Codecs`); what is assumed about them is
stated as the hypothesis structures `Codecs.H1` (self-delimiting round trip, for the compressed AND
the raw encoder against the ONE decoder — gnark's point decoder auto-detects compressed/uncompressed
from the top bits of the first byte) and `Codecs.H2` (a truncated section is rejected).
-/
namespace Smtb.File

/-- a byte; the model only ever produces values `< 256` in the header (see `u32BE_lt`) -/
abbrev Byte := Nat

inductive Err where
  /-- `io.EOF`: nothing could be read -/
  | EOF
  /-- `io.ErrUnexpectedEOF`: some but not all bytes could be read -/
  | unexpectedEOF
  /-- any other decoding error of a section decoder -/
  | malformed
deriving DecidableEq, Repr

/-- `binary.BigEndian.PutUint32` of `n % 2^32` -/
def u32BE (n : Nat) : List Byte :=
  let m := n % 2 ^ 32
  [m / 2 ^ 24, m / 2 ^ 16 % 256, m / 2 ^ 8 % 256, m % 256]

/-- `binary.BigEndian.Uint32` (0 on a slice that is not 4 bytes long; never used that way) -/
def readU32BE : List Byte → Nat
  | [a, b, c, d] => ((a * 256 + b) * 256 + c) * 256 + d
  | _ => 0

/-- `io.ReadFull(r, buf[:n])` on a reader holding `bytes`: the `n` bytes read and the rest;
`EOF` if no byte could be read (and `n > 0`), `unexpectedEOF` if fewer than `n`. -/
def readFull (n : Nat) (bytes : List Byte) : Except Err (List Byte × List Byte) :=
  if n = 0 then .ok ([], bytes)
  else if bytes.length = 0 then .error .EOF
  else if bytes.length < n then .error .unexpectedEOF
  else .ok (bytes.take n, bytes.drop n)

/-- a section format: encoder, and a decoder that consumes a prefix and returns the rest -/
structure Codec (α : Type) where
  enc : α → List Byte
  dec : List Byte → Except Err (α × List Byte)

/-- the three gnark section formats; the keys additionally have a raw (uncompressed) encoder that
is read back by the same decoder -/
structure Codecs (PK VK CS : Type) where
  pk : Codec PK
  pkRaw : PK → List Byte
  vk : Codec VK
  vkRaw : VK → List Byte
  cs : Codec CS

/-- (H1) for one encoder/decoder pair: self-delimiting round trip -/
def RoundTrip {α : Type} (enc : α → List Byte) (dec : List Byte → Except Err (α × List Byte)) :
    Prop :=
  ∀ x rest, dec (enc x ++ rest) = .ok (x, rest)

/-- (H2) for one encoder/decoder pair: every strict prefix of an encoding is rejected -/
def RejectsTruncation {α : Type} (enc : α → List Byte)
    (dec : List Byte → Except Err (α × List Byte)) : Prop :=
  ∀ x pre, pre <+: enc x → pre ≠ enc x → ∃ e, dec pre = .error e

structure Codecs.H1 {PK VK CS : Type} (c : Codecs PK VK CS) : Prop where
  pk : RoundTrip c.pk.enc c.pk.dec
  pkRaw : RoundTrip c.pkRaw c.pk.dec
  vk : RoundTrip c.vk.enc c.vk.dec
  vkRaw : RoundTrip c.vkRaw c.vk.dec
  cs : RoundTrip c.cs.enc c.cs.dec

structure Codecs.H2 {PK VK CS : Type} (c : Codecs PK VK CS) : Prop where
  pk : RejectsTruncation c.pk.enc c.pk.dec
  pkRaw : RejectsTruncation c.pkRaw c.pk.dec
  vk : RejectsTruncation c.vk.enc c.vk.dec
  vkRaw : RejectsTruncation c.vkRaw c.vk.dec
  cs : RejectsTruncation c.cs.enc c.cs.dec

/-- `prover.ProvingSystem`; `depth`, `batch` are `uint32` in Go (theorems assume `< 2^32`) -/
structure System (PK VK CS : Type) where
  depth : Nat
  batch : Nat
  pk : PK
  vk : VK
  cs : CS
deriving DecidableEq, Repr

inductive Format where
  | compressed  -- `WriteTo`
  | raw         -- `WriteRawTo`
deriving DecidableEq, Repr

section
variable {PK VK CS : Type} (c : Codecs PK VK CS)

def encPK : Format → PK → List Byte
  | .compressed => c.pk.enc
  | .raw => c.pkRaw

def encVK : Format → VK → List Byte
  | .compressed => c.vk.enc
  | .raw => c.vkRaw

/-- `WriteTo` (`fmt = compressed`) / `WriteRawTo` (`fmt = raw`) on a writer that never fails -/
def write (fmt : Format) (ps : System PK VK CS) : List Byte :=
  u32BE ps.depth ++ u32BE ps.batch ++ encPK c fmt ps.pk ++ encVK c fmt ps.vk ++ c.cs.enc ps.cs

/-- `UnsafeReadFrom`, step by step.  Trailing bytes after the constraint system are ignored. -/
def read (bytes : List Byte) : Except Err (System PK VK CS) := do
  let (w1, r1) ← readFull 4 bytes        -- io.ReadFull(r, intBuf[:])
  let depth := readU32BE w1              -- ps.TreeDepth = binary.BigEndian.Uint32(intBuf[:])
  let (w2, r2) ← readFull 4 r1
  let batch := readU32BE w2              -- ps.BatchSize
  let (pk, r3) ← c.pk.dec r2             -- ps.ProvingKey.UnsafeReadFrom(r)
  let (vk, r4) ← c.vk.dec r3             -- ps.VerifyingKey.UnsafeReadFrom(r)
  let (cs, _) ← c.cs.dec r4              -- ps.ConstraintSystem.ReadFrom(r)
  pure ⟨depth, batch, pk, vk, cs⟩

/-- the `convert-to-raw` command of main.go: `ReadSystemFromFile(input)` then `WriteRawTo(output)` -/
def convertToRaw (bytes : List Byte) : Except Err (List Byte) := do
  let ps ← read c bytes
  pure (write c .raw ps)

/-- the stage of `UnsafeReadFrom` in which an error arises -/
inductive Stage where
  | header1 | header2 | pk | vk | cs
deriving DecidableEq, Repr

/-- `read` instrumented with the stage that failed (`read_eq_readStaged`: same result otherwise) -/
def readStaged (bytes : List Byte) : Except (Stage × Err) (System PK VK CS) := do
  let (w1, r1) ← (readFull 4 bytes).mapError (Stage.header1, ·)
  let (w2, r2) ← (readFull 4 r1).mapError (Stage.header2, ·)
  let (pk, r3) ← (c.pk.dec r2).mapError (Stage.pk, ·)
  let (vk, r4) ← (c.vk.dec r3).mapError (Stage.vk, ·)
  let (cs, _) ← (c.cs.dec r4).mapError (Stage.cs, ·)
  pure ⟨readU32BE w1, readU32BE w2, pk, vk, cs⟩

end

/-- Length-level abstraction of reading a truncated file: a file whose three sections have lengths
`lpk lvk lcs`, cut after `k` bytes (`k <` total), fails in this stage
(`readStaged_take` in `Smtb/Properties/C15.lean`). -/
def cutStage (lpk lvk _lcs k : Nat) : Stage :=
  if k < 4 then .header1
  else if k < 8 then .header2
  else if k < 8 + lpk then .pk
  else if k < 8 + lpk + lvk then .vk
  else .cs

def Stage.name : Stage → String
  | .header1 => "header1" | .header2 => "header2" | .pk => "pk" | .vk => "vk" | .cs => "cs"

/-! ### a toy instance (non-vacuity of H1/H2): tagged, length-prefixed byte strings

`[tag, len] ++ payload` with tag 0 for the "compressed" and 1 for the "raw" writer; the decoder
accepts both tags (auto-detection) and needs `len` payload bytes. -/
namespace Toy

def enc (tag : Nat) (x : List Byte) : List Byte := tag :: x.length :: x

def dec : List Byte → Except Err (List Byte × List Byte)
  | [] => .error .EOF
  | [_] => .error .unexpectedEOF
  | tag :: n :: rest =>
    if tag ≠ 0 ∧ tag ≠ 1 then .error .malformed
    else if rest.length < n then .error .unexpectedEOF
    else .ok (rest.take n, rest.drop n)

def codecs : Codecs (List Byte) (List Byte) (List Byte) where
  pk := ⟨enc 0, dec⟩
  pkRaw := enc 1
  vk := ⟨enc 0, dec⟩
  vkRaw := enc 1
  cs := ⟨enc 0, dec⟩

/-- a concrete toy proving system: depth 30, batch 100, sections of 3, 2 and 1 payload bytes -/
def system : System (List Byte) (List Byte) (List Byte) :=
  ⟨30, 100, [1, 2, 3], [4, 5], [6]⟩

end Toy

end Smtb.File
