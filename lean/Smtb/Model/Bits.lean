import Smtb.Circuit.Api
import Smtb.Model.Merkle
/-!
# Byte / bit encodings used by the public-input hash (core only, executable)

Specification-level vocabulary for `ToReducedBigEndian`, `FromBinaryBigEndian` and
`ReducedModRCheck` (`prover/circuit_utils.go:218-291`):

* a number is written as a big-endian byte string of fixed width (`bytesBE`), which is what the
  Solidity side (`abi.encodePacked` of `uint32` / `uint256`) hashes;
* the circuit represents a byte string as a bit string with the *byte order preserved* and the
  bits of each byte *least significant first* (`bitsOfBytes`);
* `reducedOk p bs` is the decision procedure "`ReducedModRCheck` accepts the little-endian bit
  string `bs`".
-/
namespace Smtb.Bits

/-- value of a little-endian bit list -/
def natOfBitsLE : List Bool → Nat
  | [] => 0
  | b :: bs => (if b then 1 else 0) + 2 * natOfBitsLE bs

/-- the `width` low-order bytes of `x` (i.e. of `x % 256^width`), most significant byte first -/
def bytesBE : Nat → Nat → List Nat
  | 0, _ => []
  | w+1, x => (x / 256 ^ w % 256) :: bytesBE w x

/-- the number denoted by a big-endian byte string -/
def natOfBytesBE (bytes : List Nat) : Nat := bytes.foldl (fun acc b => acc * 256 + b) 0

/-- the 8 bits of a byte, least significant first -/
def bitsOfByte (b : Nat) : List Bool := Merkle.bitsLE 8 b

/-- bit string of a byte string: byte order preserved, least significant bit first in each byte -/
def bitsOfBytes (bytes : List Nat) : List Bool := bytes.flatMap bitsOfByte

/-- inverse grouping: consecutive groups of 8 bits (least significant first) to bytes; a trailing
group of fewer than 8 bits is dropped -/
def bytesOfBits (bs : List Bool) : List Nat := go (bs.length / 8) bs
where
  go : Nat → List Bool → List Nat
    | 0, _ => []
    | n+1, bs => natOfBitsLE (bs.take 8) :: go n (bs.drop 8)

/-- decision specification of `ReducedModRCheck` on a little-endian bit string: shorter than the
modulus (nothing is checked) or the denoted number is below the modulus -/
def reducedOk (p : Nat) (bs : List Bool) : Bool := bs.length < bitLen p || natOfBitsLE bs < p

end Smtb.Bits
