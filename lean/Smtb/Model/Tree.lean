/-!
# Model of `poseidon_tree/poseidon_tree.go` (core only, executable)

A line-by-line functional transcription of the off-chain Poseidon Merkle tree used by
`gnark-mbu gen-test-params`.  The field is an abstract type `F`, the two-to-one hash is an abstract
`H : F → F → F` (Go: `poseidon.Hash([l, r])`), and `zero : F` is Go's zero-valued `big.Int`.

Modelling conventions (all of them are recorded in the final report as well):

* `PoseidonEmptyNode.emptyTreeValues` is a slice *shared* by every empty node of a tree: it is
  allocated once in `NewTree`, every `emptyChild` copies the slice header, and nobody ever writes
  to it afterwards.  The model therefore hoists it out of the node into the `Tree` record and
  passes it as the parameter `ev : List F` to the node methods.
* Slice reads `s[i]` are `List.getD s i zero`; slice writes `s[i] = v` are `List.set s i v`.  Go
  would panic on an out-of-range access where the model reads `zero` / ignores the write;
  `Smtb.Proofs.Tree` shows that no access of a reachable tree is out of range.
* A depth-0 `PoseidonFullNode` has `nil` children.  `Node` has no `nil`, so the placeholder
  `Node.nil = .empty 0` is used; these children are never inspected (neither in Go nor here).
* `index : Nat`.  Go's `index` is a machine `int`; for `0 ≤ index` and `depth ≤ 63` the expression
  `index & (1 << (depth-1))` coincides with the `Nat` expression below.  Bits of `index` at
  positions `≥ depth` are never looked at, exactly as in Go.
* `poseidon.Hash` returns `(nil, err)` for inputs outside the field and the Go code discards `err`
  and dereferences the result; the abstract `H` is total, i.e. inputs are assumed to be reduced.
-/
namespace Smtb.Tree

variable {F : Type}

/-- Go: `PoseidonNode` with its two implementations `PoseidonEmptyNode{dep, emptyTreeValues}`
(table hoisted, see above) and `PoseidonFullNode{dep, val, left, right}`. -/
inductive Node (F : Type) where
  | empty (dep : Nat)
  | full (dep : Nat) (val : F) (left right : Node F)

/-- stand-in for the `nil` children of a depth-0 full node -/
def Node.nil : Node F := .empty 0

/-- Go: `func indexIsLeft(index int, depth int) bool { return index&(1<<(depth-1)) == 0 }` -/
def indexIsLeft (index depth : Nat) : Bool :=
  index &&& (1 <<< (depth - 1)) == 0

/-- Go: `depth()` -/
def Node.depth : Node F → Nat
  | .empty dep => dep
  | .full dep _ _ _ => dep

/-- Go: `value()`; the empty node returns `emptyTreeValues[node.depth()]` -/
def Node.value (ev : List F) (zero : F) : Node F → F
  | .empty dep => ev.getD dep zero
  | .full _ val _ _ => val

/-- Go: `initHash()` applied to the partially built `result` with fields `dep`, `left`, `right` -/
def initHash (H : F → F → F) (ev : List F) (zero : F) (dep : Nat) (left right : Node F) : Node F :=
  let leftVal := left.value ev zero
  let rightVal := right.value ev zero
  .full dep (H leftVal rightVal) left right

/-- Go: `(*PoseidonEmptyNode).withValue` for an empty node of depth `dep`.  The Go method recurses
through a freshly built `emptyChild` of depth `dep - 1`, so the recursion is on the depth. -/
def emptyWithValue (H : F → F → F) (ev : List F) (zero : F) (index : Nat) (val : F) : Nat → Node F
  | 0 => .full 0 val .nil .nil
  | dep + 1 =>
    let emptyChild : Node F := .empty dep
    let initializedChild := emptyWithValue H ev zero index val dep
    if indexIsLeft index (dep + 1) then
      initHash H ev zero (dep + 1) initializedChild emptyChild
    else
      initHash H ev zero (dep + 1) emptyChild initializedChild

/-- Go: `withValue(index, val)` for both node kinds -/
def Node.withValue (H : F → F → F) (ev : List F) (zero : F) (index : Nat) (val : F) :
    Node F → Node F
  | .full dep _ left right =>
    if dep = 0 then
      .full dep val left right
    else if indexIsLeft index dep then
      initHash H ev zero dep (left.withValue H ev zero index val) right
    else
      initHash H ev zero dep left (right.withValue H ev zero index val)
  | .empty dep => emptyWithValue H ev zero index val dep

/-- Go: `writeProof(index, out)`; `out` is threaded through and returned.
Full node: `out[depth-1] = sibling.value()` and descend.
Empty node: `for i := 0; i < depth; i++ { out[i] = emptyTreeValues[i] }`. -/
def Node.writeProof (ev : List F) (zero : F) (index : Nat) : Node F → List F → List F
  | .full dep _ left right, out =>
    if dep = 0 then
      out
    else if indexIsLeft index dep then
      left.writeProof ev zero index (out.set (dep - 1) (right.value ev zero))
    else
      right.writeProof ev zero index (out.set (dep - 1) (left.value ev zero))
  | .empty dep, out =>
    (List.range dep).foldl (fun out i => out.set i (ev.getD i zero)) out

/-- Go: `PoseidonTree{root}` plus the hoisted shared `emptyTreeValues` slice -/
structure Tree (F : Type) where
  emptyTreeValues : List F
  root : Node F

/-- Go: `Root()` -/
def Tree.rootValue (zero : F) (t : Tree F) : F :=
  t.root.value t.emptyTreeValues zero

/-- Go: `Update(index, value)`: replace the root by `root.withValue`, allocate
`proof := make([]big.Int, root.depth())` and let the NEW root write the proof into it.
Returns the mutated tree and the proof (leaf level first). -/
def Tree.update (H : F → F → F) (zero : F) (t : Tree F) (index : Nat) (value : F) :
    Tree F × List F :=
  let root := t.root.withValue H t.emptyTreeValues zero index value
  let proof := List.replicate root.depth zero
  ({ t with root := root }, root.writeProof t.emptyTreeValues zero index proof)

/-- body of the `NewTree` loop: `initHashes[i] = H(initHashes[i-1], initHashes[i-1])` -/
def initHashesStep (H : F → F → F) (zero : F) (initHashes : List F) (i : Nat) : List F :=
  initHashes.set i (H (initHashes.getD (i - 1) zero) (initHashes.getD (i - 1) zero))

/-- Go: `initHashes := make([]big.Int, depth+1); for i := 1; i <= depth; i++ { … }` -/
def initHashes (H : F → F → F) (zero : F) (depth : Nat) : List F :=
  (List.range' 1 depth).foldl (initHashesStep H zero) (List.replicate (depth + 1) zero)

/-- Go: `NewTree(depth)` -/
def newTree (H : F → F → F) (zero : F) (depth : Nat) : Tree F :=
  { emptyTreeValues := initHashes H zero depth, root := .empty depth }

end Smtb.Tree
