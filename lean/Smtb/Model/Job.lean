/-!
# Graceful shutdown protocol of the prover service (C14) — transition-system model (core only)

Modelled Go code (semaphore-mtb):

* `server/job.go`   — `SpawnJob`, `CombineJobs`, `RunningJob.RequestStop`, `RunningJob.AwaitStop`
* `server/server.go`— `spawnServerJob` (start = `ListenAndServe`, shutdown = `Shutdown`) and `Run`
  (`CombineJobs(metricsJob, proverJob)`)
* `main.go`         — `instance := server.Run(..); <-sigint; instance.RequestStop(); instance.AwaitStop(); return nil`

`SpawnJob(start, shutdown)` starts two goroutines:

```
stopper:  <-stop; shutdown(); [fixed only: <-startReturned;] close(closed)
starter:  start(); [fixed only: close(startReturned)]
```

The parameter `fixed : Bool` selects the repaired protocol (`fixed = true`, commit 274a536: the
stopper waits until `start` has returned before it closes `closed`) or the original one
(`fixed = false`: `closed` is closed right after `shutdown()` returns).

## `net/http` behaviour that is ASSUMED (not verified here)

1. `(*http.Server).Shutdown` first sets the `inShutdown` flag and closes every *registered*
   listener (one atomic step of the model: `shutdownBegin`), and it returns only when no accepted
   request is unfinished (`active = 0`; step `shutdownReturn`).
2. `ListenAndServe` first looks at `inShutdown`: if set it returns `ErrServerClosed` without
   binding (`checkShut`), otherwise (`checkOk`) it binds the address (`bind`, listener open, not yet
   registered) and then tries to register the listener: if `inShutdown` is set by then, it closes
   its listener and returns `ErrServerClosed` (`registerShut`), otherwise the listener is registered
   and the accept loop runs (`registerOk`, state `serving`).
3. The accept loop returns (`serveReturn`) only after the server went into shutdown (which closed
   the registered listener).
4. After `Shutdown` has begun no new connection is accepted (`accept` needs `serving ∧ ¬inShutdown`).
5. An accepted request finishes in finitely many steps (one `complete` step per request) and its
   handler is never killed by `Shutdown` (there is no transition that lowers `active` except
   `complete`).
6. Binding a free address succeeds (the `panic` branch of `spawnServerJob.start` is reachable only
   when the address is in use; `restart` below is the place where this matters).
7. `start`'s last action (the return of `ListenAndServe`) happens before `close(startReturned)`;
   the model identifies the two (`starter = returned`).

All other ingredients (channels, goroutine program counters, `CombineJobs`, `main`) are modelled
step by step.
-/
namespace Smtb.Job

/-- the two server jobs, in the order `CombineJobs(metricsJob, proverJob)` receives them -/
inductive Jid | metrics | prover
  deriving DecidableEq, Repr

/-- program counter of the stopper goroutine of `SpawnJob` -/
inductive StopperPc
  | waitingStop   -- blocked in `<-stop`
  | inShutdown    -- inside `shutdown()` (= `http.Server.Shutdown`), waiting for `active = 0`
  | waitingStart  -- `shutdown()` returned; (fixed: blocked in `<-startReturned`;) about to `close(closed)`
  | done
  deriving DecidableEq, Repr

/-- program counter of the starter goroutine (`ListenAndServe` in its real steps) -/
inductive StarterPc
  | notStarted
  | checkedNotShuttingDown  -- saw `inShutdown = false`, about to bind
  | bound                   -- listener open, not yet registered with the server
  | serving                 -- listener registered, accept loop
  | returned                -- `ListenAndServe` returned (and `startReturned` is closed)
  deriving DecidableEq, Repr

/-- abstraction of one `http.Server` -/
structure HttpServer where
  inShutdown : Bool
  listenerOpen : Bool
  /-- accepted, unfinished requests -/
  active : Nat
  deriving DecidableEq, Repr

/-- one server job as `spawnServerJob` builds it -/
structure JobState where
  /-- `stop` channel closed? -/
  stop : Bool
  stopper : StopperPc
  starter : StarterPc
  /-- `closed` channel closed? -/
  closed : Bool
  srv : HttpServer
  deriving DecidableEq, Repr

/-- labels of the transitions local to one server job -/
inductive JobLabel
  | shutdownBegin   -- stopper: `<-stop` succeeded, `Shutdown` sets inShutdown and closes registered listeners
  | shutdownReturn  -- stopper: `Shutdown` returns (needs `active = 0`)
  | closeClosed     -- stopper: (fixed: `<-startReturned`;) `close(closed)`
  | checkOk         -- starter: `ListenAndServe` sees `inShutdown = false`
  | checkShut       -- starter: `ListenAndServe` sees `inShutdown = true`, returns ErrServerClosed
  | bind            -- starter: `net.Listen`
  | registerOk      -- starter: `trackListener` succeeds
  | registerShut    -- starter: `trackListener` fails (inShutdown), listener closed, return
  | serveReturn     -- starter: accept loop ends after shutdown
  | accept          -- client: a request is accepted
  | complete        -- client: an accepted request receives its full response
  deriving DecidableEq, Repr

def JobState.init : JobState :=
  { stop := false, stopper := .waitingStop, starter := .notStarted, closed := false,
    srv := { inShutdown := false, listenerOpen := false, active := 0 } }

/-- transitions local to one server job -/
def jobStep (fixed : Bool) (js : JobState) : JobLabel → Option JobState
  | .shutdownBegin =>
    if js.stop = true ∧ js.stopper = .waitingStop then
      some { js with
        stopper := .inShutdown
        srv := { js.srv with
          inShutdown := true
          listenerOpen := if js.starter = .serving then false else js.srv.listenerOpen } }
    else none
  | .shutdownReturn =>
    if js.stopper = .inShutdown ∧ js.srv.active = 0 then
      some { js with stopper := .waitingStart }
    else none
  | .closeClosed =>
    if js.stopper = .waitingStart ∧ (fixed = true → js.starter = .returned) then
      some { js with stopper := .done, closed := true }
    else none
  | .checkOk =>
    if js.starter = .notStarted ∧ js.srv.inShutdown = false then
      some { js with starter := .checkedNotShuttingDown }
    else none
  | .checkShut =>
    if js.starter = .notStarted ∧ js.srv.inShutdown = true then
      some { js with starter := .returned }
    else none
  | .bind =>
    if js.starter = .checkedNotShuttingDown then
      some { js with starter := .bound, srv := { js.srv with listenerOpen := true } }
    else none
  | .registerOk =>
    if js.starter = .bound ∧ js.srv.inShutdown = false then
      some { js with starter := .serving }
    else none
  | .registerShut =>
    if js.starter = .bound ∧ js.srv.inShutdown = true then
      some { js with starter := .returned, srv := { js.srv with listenerOpen := false } }
    else none
  | .serveReturn =>
    if js.starter = .serving ∧ js.srv.inShutdown = true then
      some { js with starter := .returned }
    else none
  | .accept =>
    if js.starter = .serving ∧ js.srv.inShutdown = false then
      some { js with srv := { js.srv with active := js.srv.active + 1 } }
    else none
  | .complete =>
    if 0 < js.srv.active then
      some { js with srv := { js.srv with active := js.srv.active - 1 } }
    else none

/-- program counter of the stopper goroutine of the combined job; its `shutdown` is
`RequestStop` metrics, `RequestStop` prover, `AwaitStop` metrics, `AwaitStop` prover -/
inductive CombPc
  | waitingStop   -- blocked in `<-stop`
  | reqStop1      -- metrics stop requested, about to request the prover's
  | await0        -- blocked in `AwaitStop` of the metrics job
  | await1        -- blocked in `AwaitStop` of the prover job
  | waitingStart  -- shutdown returned; (fixed: `<-startReturned`;) about to `close(closed)`
  | done
  deriving DecidableEq, Repr

/-- starter goroutine of the combined job (`start = func() {}`) -/
inductive CombStarterPc | notStarted | returned
  deriving DecidableEq, Repr

/-- `main`: `<-sigint` / `RequestStop()` / `AwaitStop()` / `return nil` (exit status 0) -/
inductive MainPc | running | requestedStop | awaiting | exited
  deriving DecidableEq, Repr

structure State where
  m : JobState
  p : JobState
  /-- combined job: `stop` closed? -/
  cstop : Bool
  cpc : CombPc
  cstarter : CombStarterPc
  /-- combined job: `closed` closed? -/
  cclosed : Bool
  main : MainPc
  deriving DecidableEq, Repr

inductive Label
  | job (j : Jid) (l : JobLabel)
  | cRequestStop (j : Jid)   -- combined stopper: `jobs[j].RequestStop()` (the first one includes `<-stop`)
  | cAwait (j : Jid)         -- combined stopper: `jobs[j].AwaitStop()` returns
  | cStart                   -- combined starter: `start()` returns
  | cClose                   -- combined stopper: (fixed: `<-startReturned`;) `close(closed)`
  | mainRequestStop          -- SIGINT arrives, `instance.RequestStop()`
  | mainAwait                -- `instance.AwaitStop()` is called
  | mainExit                 -- `AwaitStop` returns, `return nil`: exit status 0
  | restart                  -- a new `Run` on the same two addresses (needs them free and the old
                             -- generation unable to touch them any more)
  deriving DecidableEq, Repr

def State.job (s : State) : Jid → JobState
  | .metrics => s.m
  | .prover => s.p

def State.setJob (s : State) (j : Jid) (js : JobState) : State :=
  match j with
  | .metrics => { s with m := js }
  | .prover => { s with p := js }

def init : State :=
  { m := .init, p := .init, cstop := false, cpc := .waitingStop, cstarter := .notStarted,
    cclosed := false, main := .running }

/-- job `js` neither holds its address nor can it ever bind it again, and has no request left -/
def JobState.released (js : JobState) : Prop :=
  js.srv.listenerOpen = false ∧ js.starter = .returned ∧ js.srv.active = 0

instance (js : JobState) : Decidable js.released := by unfold JobState.released; infer_instance

/-- the labelled transition relation as a partial function (deterministic per label) -/
def step (fixed : Bool) (s : State) : Label → Option State
  | .job j l => (jobStep fixed (s.job j) l).map (s.setJob j)
  | .cRequestStop .metrics =>
    if s.cstop = true ∧ s.cpc = .waitingStop then
      some { s with m := { s.m with stop := true }, cpc := .reqStop1 }
    else none
  | .cRequestStop .prover =>
    if s.cpc = .reqStop1 then
      some { s with p := { s.p with stop := true }, cpc := .await0 }
    else none
  | .cAwait .metrics =>
    if s.cpc = .await0 ∧ s.m.closed = true then some { s with cpc := .await1 } else none
  | .cAwait .prover =>
    if s.cpc = .await1 ∧ s.p.closed = true then some { s with cpc := .waitingStart } else none
  | .cStart =>
    if s.cstarter = .notStarted then some { s with cstarter := .returned } else none
  | .cClose =>
    if s.cpc = .waitingStart ∧ (fixed = true → s.cstarter = .returned) then
      some { s with cpc := .done, cclosed := true }
    else none
  | .mainRequestStop =>
    if s.main = .running then some { s with main := .requestedStop, cstop := true } else none
  | .mainAwait =>
    if s.main = .requestedStop then some { s with main := .awaiting } else none
  | .mainExit =>
    if s.main = .awaiting ∧ s.cclosed = true then some { s with main := .exited } else none
  | .restart =>
    if s.main = .exited ∧ s.m.released ∧ s.p.released then some init else none

def enabled (fixed : Bool) (s : State) (l : Label) : Bool := (step fixed s l).isSome

/-- run a label sequence -/
def run (fixed : Bool) : State → List Label → Option State
  | s, [] => some s
  | s, l :: ls =>
    match step fixed s l with
    | some s' => run fixed s' ls
    | none => none

/-- the acceptor: `labels` is a run of the protocol from the initial state -/
def accepts (fixed : Bool) (labels : List Label) : Bool := (run fixed init labels).isSome

/-- index and label of the first transition of `labels` that is not enabled -/
def firstReject (fixed : Bool) : State → List Label → Nat → Option (Nat × Label)
  | _, [], _ => none
  | s, l :: ls, i =>
    match step fixed s l with
    | some s' => firstReject fixed s' ls (i + 1)
    | none => some (i, l)

/-! ## Acceptance of *observable* traces

The conformance harness runs the real `server.SpawnJob` / `server.CombineJobs`; their channel
operations cannot be instrumented, so a real event log contains every label except the following
silent ones.  No silent step disables any other step (each only closes a channel or advances the
program counter of its own goroutine), therefore taking all enabled silent steps as early as
possible loses no behaviour. -/

def Label.isTau : Label → Bool
  | .job _ .closeClosed | .cRequestStop _ | .cAwait _ | .cStart | .cClose => true
  | _ => false

/-- the silent labels in an order in which one pass reaches the fixpoint -/
def tauLabels : List Label :=
  [.cStart, .cRequestStop .metrics, .cRequestStop .prover,
   .job .metrics .closeClosed, .job .prover .closeClosed,
   .cAwait .metrics, .cAwait .prover, .cClose]

/-- take every label of `ls` (in order) that is enabled; returns the final state and the labels taken -/
def tauClose (fixed : Bool) : List Label → State → State × List Label
  | [], s => (s, [])
  | l :: ls, s =>
    match step fixed s l with
    | some s' => let r := tauClose fixed ls s'; (r.1, l :: r.2)
    | none => tauClose fixed ls s

/-- one label of a (possibly only observable) trace: directly if enabled, otherwise after
saturating with silent steps; returns the explicit labels taken -/
def weakStep (fixed : Bool) (s : State) (l : Label) : Option (State × List Label) :=
  match step fixed s l with
  | some s' => some (s', [l])
  | none =>
    let r := tauClose fixed (tauLabels ++ tauLabels) s
    match step fixed r.1 l with
    | some s' => some (s', r.2 ++ [l])
    | none => none

/-- complete a trace in which silent labels may be missing to an explicit run -/
def elaborate (fixed : Bool) : State → List Label → Option (List Label)
  | _, [] => some []
  | s, l :: ls =>
    match weakStep fixed s l with
    | some (s', pre) => (elaborate fixed s' ls).map (pre ++ ·)
    | none => none

/-- acceptor for traces in which silent labels may be missing -/
def acceptsWeak (fixed : Bool) (labels : List Label) : Bool := (elaborate fixed init labels).isSome

def firstRejectWeak (fixed : Bool) : State → List Label → Nat → Option (Nat × Label)
  | _, [], _ => none
  | s, l :: ls, i =>
    match weakStep fixed s l with
    | some (s', _) => firstRejectWeak fixed s' ls (i + 1)
    | none => some (i, l)

/-! ## Measure for termination -/

def StopperPc.rank : StopperPc → Nat
  | .waitingStop => 3 | .inShutdown => 2 | .waitingStart => 1 | .done => 0

def StarterPc.rank : StarterPc → Nat
  | .notStarted => 4 | .checkedNotShuttingDown => 3 | .bound => 2 | .serving => 1 | .returned => 0

def CombPc.rank : CombPc → Nat
  | .waitingStop => 5 | .reqStop1 => 4 | .await0 => 3 | .await1 => 2 | .waitingStart => 1 | .done => 0

def CombStarterPc.rank : CombStarterPc → Nat
  | .notStarted => 1 | .returned => 0

def MainPc.rank : MainPc → Nat
  | .running => 3 | .requestedStop => 2 | .awaiting => 1 | .exited => 0

/-- remaining goroutine steps of a job plus its unfinished requests -/
def JobState.measure (js : JobState) : Nat := js.stopper.rank + js.starter.rank + js.srv.active

/-- remaining steps of all goroutines plus all unfinished requests -/
def State.measure (s : State) : Nat :=
  s.main.rank + s.cpc.rank + s.cstarter.rank + s.m.measure + s.p.measure

/-- labels other than a client's new request and a restart -/
def Label.quiet : Label → Bool
  | .job _ .accept | .restart => false
  | _ => true

end Smtb.Job
