-- This module serves as the root of the `Smtb` library.
-- Import modules here that should be built as part of the library.
import Smtb.Basic
