-- umbrella: every module of the development (kept in sync by bin/check's audit)
import Smtb.Circuit.Api
import Smtb.Circuit.Trace
import Smtb.Circuit.Main
import Smtb.Model.Merkle
import Smtb.Model.Batch
import Smtb.Model.Poseidon
import Smtb.Model.Tree
import Smtb.Proofs.Sat
import Smtb.Proofs.Merkle
import Smtb.Proofs.Tree
import Smtb.Properties.C01
import Smtb.Properties.C02
import Smtb.Properties.C18
