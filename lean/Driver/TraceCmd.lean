import Smtb.Circuit.Trace
import Smtb.Circuit.Main
/-! `driver trace …` : print the API-call trace of a gadget / circuit model -/
namespace Driver
open Smtb Smtb.Circuit

def inputs (n : Nat) : TraceM (List TV) := TraceM.freshN n
def input1 : TraceM TV := TraceM.fresh

def chunks {α} (l : List α) (size count : Nat) : List (List α) :=
  (List.range count).map fun i => (l.drop (i * size)).take size

def ret (vs : List TV) : TraceM Unit := TraceM.emit ("ret" ++ TraceM.tvList vs)

def traceProg (name : String) (a : List Nat) : Option (TraceM Unit) :=
  let h2 : TV → TV → TraceM TV := Poseidon.poseidon2
  match name, a with
  | "ProofRound", [] => some do
      let d ← input1; let h ← input1; let s ← input1
      let r ← proofRound h2 d h s; ret [r]
  | "VerifyProof", [d] => some do
      let prf ← inputs (d+1); let path ← inputs d
      let r ← verifyProof h2 (prf.headD (.c 0)) prf.tail path; ret [r]
  | "InsertionRound", [d] => some do
      let idx ← input1; let item ← input1; let prev ← input1; let prf ← inputs d
      let r ← insertionRound h2 d idx item prev prf; ret [r]
  | "InsertionProof", [d, b] => some do
      let start ← input1; let pre ← input1; let ids ← inputs b; let prfs ← inputs (b*d)
      let r ← insertionProof h2 d start pre ids (chunks prfs d b); ret [r]
  | "DeletionRound", [d] => some do
      let root ← input1; let idx ← input1; let item ← input1; let prf ← inputs d
      let r ← deletionRound h2 d root idx item prf; ret [r]
  | "DeletionProof", [d, b] => some do
      let idxs ← inputs b; let pre ← input1; let ids ← inputs b; let prfs ← inputs (b*d)
      let r ← deletionProof h2 d idxs pre ids (chunks prfs d b); ret [r]
  | "ReducedModRCheck", [p, n] => some do
      let inp ← inputs n
      reducedModRCheck p inp; ret []
  | "ToReducedBigEndian", [p, n] => some do
      let v ← input1
      let r ← toReducedBigEndian p v n; ret r
  | "FromBinaryBigEndian", [n] => some do
      let inp ← inputs n
      let r ← fromBinaryBigEndian inp; ret [r]
  | "Poseidon1", [] => some do
      let a ← input1
      let r ← Poseidon.poseidon1 a; ret [r]
  | "Poseidon2", [] => some do
      let a ← input1; let b ← input1
      let r ← Poseidon.poseidon2 a b; ret [r]
  | "Keccak", [dom, n] => some do
      let inp ← inputs n
      let r ← Keccak.keccakGadget dom inp; ret r
  | "Insertion", [p, d, b] => some do
      let ih ← input1; let start ← input1; let pre ← input1; let post ← input1
      let ids ← inputs b; let prfs ← inputs (b*d)
      insertionCircuit p d ih start pre post ids (chunks prfs d b); ret []
  | "Deletion", [p, d, b] => some do
      if !deletionDepthOk d then
        -- `Define` returns the error before touching the API; the harness allocates inputs first
        let _ ← inputs (4 + 2*b + b*d)
        TraceM.emit "error max depth supported is 31"; ret []
      else
      let ih ← input1; let idxs ← inputs b; let pre ← input1; let post ← input1
      let ids ← inputs b; let prfs ← inputs (b*d)
      deletionCircuit p d ih idxs pre post ids (chunks prfs d b); ret []
  | _, _ => none

def traceCmd (args : List String) : IO UInt32 := do
  -- args: [--opaque=a,b] name n1 n2 …
  let (opq, rest) := match args with
    | o :: r => if o.startsWith "--opaque=" then ((o.drop 9).toString.splitOn ",", r) else ([], args)
    | [] => ([], [])
  match rest with
  | name :: nums =>
    match nums.mapM String.toNat? with
    | none => IO.eprintln "bad number"; pure 2
    | some ns =>
      match traceProg name ns with
      | none => IO.eprintln s!"unknown trace target {name} {ns}"; pure 2
      | some prog =>
        let ((), st) := prog.run { opaqueNames := opq }
        (← IO.getStdout).putStr st.out
        pure 0
  | [] => IO.eprintln "usage: trace [--opaque=…] name params"; pure 2

end Driver
