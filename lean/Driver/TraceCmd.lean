import Smtb.Circuit.Trace
import Smtb.Circuit.Main
import Smtb.Circuit.TraceHarness
import Smtb.Circuit.TraceHarness2
/-! `driver trace …` : print the API-call trace of a gadget / circuit model -/
namespace Driver
open Smtb Smtb.Circuit

def inputs (n : Nat) : TraceM (List TV) := TraceM.freshN n
def input1 : TraceM TV := TraceM.fresh

def chunks {α} (l : List α) (size count : Nat) : List (List α) :=
  (List.range count).map fun i => (l.drop (i * size)).take size

def ret (vs : List TV) : TraceM Unit := TraceM.emit ("ret" ++ TraceM.tvList vs)

/-- the programs whose traces are printed.  The gadget and circuit targets are the definitions of
`Smtb/Circuit/TraceHarness.lean`, i.e. exactly the programs `Smtb/Proofs/TraceSound.lean` proves
sound and complete with respect to the Sat semantics (the result is discarded here). -/
def traceProg (name : String) (a : List Nat) : Option (TraceM Unit) :=
  open Smtb.TraceHarness in
  match name, a with
  | "ProofRound", [] => some (do let _ ← traceProofRound)
  | "VerifyProof", [d] => some (do let _ ← traceVerifyProof d)
  | "InsertionRound", [d] => some (do let _ ← traceInsertionRound d)
  | "InsertionProof", [d, b] => some (do let _ ← traceInsertionProof d b)
  | "DeletionRound", [d] => some (do let _ ← traceDeletionRound d)
  | "DeletionProof", [d, b] => some (do let _ ← traceDeletionProof d b)
  | "ReducedModRCheck", [p, n] => some (traceReducedModRCheck p n)
  | "ToReducedBigEndian", [p, n] => some (do let _ ← traceToReducedBigEndian p n)
  | "FromBinaryBigEndian", [n] => some (do let _ ← traceFromBinaryBigEndian n)
  | "Insertion", [p, d, b] => some (traceInsertion p d b)
  | "Deletion", [p, d, b] => some (traceDeletion p d b)
  | "Poseidon1", [] => some (do let _ ← tracePoseidon1)
  | "Poseidon2", [] => some (do let _ ← tracePoseidon2)
  | "Keccak", [dom, n] => some (do let _ ← traceKeccak dom n)
  | _, _ => none

def traceCmd (args : List String) : IO UInt32 := do
  -- args: [--opaque=a,b] name n1 n2 …
  let (opq, rest) := match args with
    | o :: r => if o.startsWith "--opaque=" then ((o.drop 9).toString.splitOn ",", r) else ([], args)
    | [] => ([], [])
  match rest with
  | name :: nums =>
    match nums.mapM String.toNat? with
    | none => IO.eprintln "bad number"; pure 2
    | some ns =>
      match traceProg name ns with
      | none => IO.eprintln s!"unknown trace target {name} {ns}"; pure 2
      | some prog =>
        let ((), st) := prog.run { opaqueNames := opq }
        (← IO.getStdout).putStr st.out
        pure 0
  | [] => IO.eprintln "usage: trace [--opaque=…] name params"; pure 2

end Driver
