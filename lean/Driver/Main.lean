import Driver.TraceCmd
import Driver.MerkleCmd

def main (args : List String) : IO UInt32 :=
  match args with
  | "trace" :: rest => Driver.traceCmd rest
  | ["corr", "merkle"] => Driver.lineLoop Driver.merkleLine
  | _ => do IO.eprintln "usage: driver <trace|corr> …"; pure 2
