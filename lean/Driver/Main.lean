import Driver.TraceCmd
import Driver.MerkleCmd
import Driver.GadgetCmd

def main (args : List String) : IO UInt32 :=
  match args with
  | "trace" :: rest => Driver.traceCmd rest
  | ["corr", "merkle"] => Driver.lineLoop Driver.merkleLine
  | ["corr", "poseidon"] => Driver.lineLoop Driver.poseidonLine
  | ["corr", "bits"] => Driver.lineLoop Driver.bitsLine
  | ["corr", "tree"] => Driver.lineLoop Driver.treeLine
  | _ => do IO.eprintln "usage: driver <trace|corr> …"; pure 2
