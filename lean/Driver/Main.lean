import Driver.TraceCmd
import Driver.MerkleCmd
import Driver.GadgetCmd
import Driver.MetricsCmd
import Driver.FileCmd
import Driver.JobCmd
import Driver.C16Cmd
import Driver.C04Cmd
import Driver.C08Cmd
import Driver.C10Cmd
import Driver.GateCmd
import Driver.ServiceCmd

def main (args : List String) : IO UInt32 :=
  match args with
  | "trace" :: rest => Driver.traceCmd rest
  | ["corr", "merkle"] => Driver.lineLoop Driver.merkleLine
  | ["corr", "poseidon"] => Driver.lineLoop Driver.poseidonLine
  | ["corr", "bits"] => Driver.lineLoop Driver.bitsLine
  | ["corr", "tree"] => Driver.lineLoop Driver.treeLine
  | ["corr", "metrics"] => Driver.lineLoop Driver.metricsLine
  | ["corr", "file"] => Driver.lineLoop Driver.fileLine
  | ["corr", "job"] => Driver.lineLoop Driver.jobLine
  | ["corr", "c16"] => Driver.c16Cmd
  | ["corr", "c04"] => Driver.c04Cmd
  | ["corr", "c08"] => Driver.lineLoop Driver.c08Line
  | ["corr", "c10"] => Driver.lineLoop Driver.c10Line
  | ["corr", "gates"] => Driver.lineLoop Driver.gateLine
  | ["corr", "prove"] => Driver.lineLoop Driver.proveLine
  | ["corr", "req"] => Driver.lineLoop Driver.reqLine
  | _ => do IO.eprintln "usage: driver <trace|corr> …"; pure 2
