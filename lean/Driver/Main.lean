import Driver.TraceCmd

def main (args : List String) : IO UInt32 :=
  match args with
  | "trace" :: rest => Driver.traceCmd rest
  | _ => do IO.eprintln "usage: driver <trace|…> …"; pure 2
