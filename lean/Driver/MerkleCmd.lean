import Driver.Util
import Smtb.Model.Batch
import Smtb.Model.Poseidon
import Smtb.Model.Tree
/-! `driver corr merkle` (C01/C02) -/
namespace Driver
open Smtb

def insAccept (p d start pre post : Nat) (ids : List Nat) (proofs : List (List Nat)) : Bool :=
  Batch.insertionSpec (Poseidon.hash2 p) 0 id (fun s j => (s + j) % p) d (start % p) 0 (pre % p)
    (ids.map (· % p)) (proofs.map (·.map (· % p))) == some (post % p)

def delAccept (p d pre post : Nat) (idxs ids : List Nat) (proofs : List (List Nat)) : Bool :=
  Batch.deletionSpec (Poseidon.hash2 p) 0 id d (pre % p) (idxs.map (· % p))
    (ids.map (· % p)) (proofs.map (·.map (· % p))) == some (post % p)

def verdict (b : Bool) : String := if b then "accept" else "reject"

/-- the proved batch specifications, over `Nat` modulo `p`, with the reference Poseidon.
`insfull`/`delfull`: full circuits whose public input the harness supplies correctly; what remains
is the 32-bit encoding of the indices and the batch specification. -/
def merkleLine (line : String) : String :=
  match splitTab line with
  | [kind, p, d, start, pre, post, ids, proofs] =>
    if kind == "ins" || kind == "insfull" then
      match p.toNat?, d.toNat?, start.toNat?, pre.toNat?, post.toNat?, parseCsv ids, parseCsv2 proofs with
      | some p, some d, some start, some pre, some post, some ids, some proofs =>
        verdict ((kind == "ins" || start < 2^32) && insAccept p d start pre post ids proofs)
      | _, _, _, _, _, _, _ => "bad-line"
    else if kind == "del" || kind == "delfull" then
      -- fields: p d pre post idxs ids proofs
      match p.toNat?, d.toNat?, start.toNat?, pre.toNat?, parseCsv post, parseCsv ids, parseCsv2 proofs with
      | some p, some d, some pre', some post', some idxs, some ids, some proofs =>
        verdict ((kind == "del" || idxs.all (· < 2^32)) && delAccept p d pre' post' idxs ids proofs)
      | _, _, _, _, _, _, _ => "bad-line"
    else "bad-line"
  | _ => "bad-line"

end Driver
