import Smtb.Model.Codec.Hex
import Smtb.Model.Codec.Json
/-!
`driver c16` : line protocol for the differential test of the parameter-JSON codec
(`/verif/harness/cmd/corr16`).  One case per stdin line, TAB-separated:

* `fromhex <hexutf8>`  → `ok <decimal>` | `err`
* `tohex <decimal>`    → the string (`toHexInt`, so negative values print `0x-…` like Go)
* `decins <hexutf8>`   → `ok <canonical>` | `err <class>`     (`decdel` likewise)
* `encins <canonical>` → hexutf8 of the JSON text               (`encdel` likewise)

`<hexutf8>` = the bytes in lower-case hex (decoders get arbitrary bytes: `utf8Lossy` front end).
Canonical parameter set:
`ih=<dec>;si=<dec>;pre=<dec>;post=<dec>;ids=<dec,…>;mp=<dec,dec|dec|…>`
(deletion: `idx=<dec,…>` in place of `si`, with `idx=nil` for the nil slice and `idx=empty` for the
empty non-nil slice).  In `mp` the proofs are separated by `|` and an empty proof is written `-`,
so that `[]` (empty string), `[[]]` (`-`) and `[[],[]]` (`-|-`) differ.  `<dec>` may be negative.
-/
namespace Driver
open Smtb.Codec

namespace C16

def nibble (c : Char) : Option Nat :=
  let n := c.toNat
  if 48 ≤ n ∧ n ≤ 57 then some (n - 48)
  else if 97 ≤ n ∧ n ≤ 102 then some (n - 87)
  else none

def unhex : List Char → Option (List Nat)
  | [] => some []
  | [_] => none
  | a :: b :: r =>
    match nibble a, nibble b, unhex r with
    | some a, some b, some r => some ((a * 16 + b) :: r)
    | _, _, _ => none

def hexNib (n : Nat) : Char := hexDigit n

/-- UTF-8 bytes of an ASCII char list, in hex (encoder output is ASCII). -/
def hexOfString (s : String) : String :=
  String.ofList (s.toUTF8.toList.flatMap fun b => [hexNib (b.toNat / 16), hexNib (b.toNat % 16)])

def joinWith (sep : String) : List String → String
  | [] => ""
  | [x] => x
  | x :: xs => x ++ sep ++ joinWith sep xs

def canonInts (xs : List Int) : String := joinWith "," (xs.map toString)
def canonNats (xs : List Nat) : String := joinWith "," (xs.map toString)

/-- proofs separated by `|`; an empty proof is written `-` so that `[]` and `[[]]` differ. -/
def canonRows (xss : List (List Int)) : String :=
  joinWith "|" (xss.map fun r => if r.isEmpty then "-" else canonInts r)

def canonIns (p : InsertionParams) : String :=
  s!"ih={p.inputHash};si={p.startIndex};pre={p.preRoot};post={p.postRoot};ids={canonInts p.idComms};mp={canonRows p.merkleProofs}"

def canonIdx : Option (List Nat) → String
  | none => "nil"
  | some xs => if xs.isEmpty then "empty" else canonNats xs

def canonDel (p : DeletionParams) : String :=
  s!"ih={p.inputHash};idx={canonIdx p.deletionIndices};pre={p.preRoot};post={p.postRoot};ids={canonInts p.idComms};mp={canonRows p.merkleProofs}"

def splitNonEmpty (s : String) (sep : String) : List String :=
  if s.isEmpty then [] else s.splitOn sep

def parseInts (s : String) : Option (List Int) :=
  (splitNonEmpty s ",").mapM String.toInt?

def parseNats (s : String) : Option (List Nat) :=
  (splitNonEmpty s ",").mapM String.toNat?

def parseRows (s : String) : Option (List (List Int)) :=
  (splitNonEmpty s "|").mapM fun r => if r == "-" then some [] else parseInts r

def field (kv : String) (key : String) : Option String :=
  if kv.startsWith (key ++ "=") then some (kv.drop (key.length + 1)).toString else none

def parseCanonIns (s : String) : Option InsertionParams :=
  match s.splitOn ";" with
  | [a, b, c, d, e, f] => do
    let ih ← (← field a "ih").toInt?
    let si ← (← field b "si").toNat?
    let pre ← (← field c "pre").toInt?
    let post ← (← field d "post").toInt?
    let ids ← parseInts (← field e "ids")
    let mp ← parseRows (← field f "mp")
    pure { inputHash := ih, startIndex := si, preRoot := pre, postRoot := post,
           idComms := ids, merkleProofs := mp }
  | _ => none

def parseIdx (s : String) : Option (Option (List Nat)) :=
  if s == "nil" then some none
  else if s == "empty" then some (some [])
  else (parseNats s).map some

def parseCanonDel (s : String) : Option DeletionParams :=
  match s.splitOn ";" with
  | [a, b, c, d, e, f] => do
    let ih ← (← field a "ih").toInt?
    let idx ← parseIdx (← field b "idx")
    let pre ← (← field c "pre").toInt?
    let post ← (← field d "post").toInt?
    let ids ← parseInts (← field e "ids")
    let mp ← parseRows (← field f "mp")
    pure { inputHash := ih, deletionIndices := idx, preRoot := pre, postRoot := post,
           idComms := ids, merkleProofs := mp }
  | _ => none

def runLine (line : String) : String :=
  match line.splitOn "\t" with
  | ["fromhex", h] =>
    match unhex h.toList with
    | none => "bad-input"
    | some bs =>
      match fromHexBytes bs with
      | some i => s!"ok {i}"
      | none => "err"
  | ["tohex", d] =>
    match d.toInt? with
    | some i => toHexInt i
    | none => "bad-input"
  | ["decins", h] =>
    match unhex h.toList with
    | none => "bad-input"
    | some bs =>
      match decodeInsertionBytes bs with
      | .ok p => "ok " ++ canonIns p
      | .error e => "err " ++ e.name
  | ["decdel", h] =>
    match unhex h.toList with
    | none => "bad-input"
    | some bs =>
      match decodeDeletionBytes bs with
      | .ok p => "ok " ++ canonDel p
      | .error e => "err " ++ e.name
  | ["encins", c] =>
    match parseCanonIns c with
    | some p => hexOfString (encodeInsertion p)
    | none => "bad-input"
  | ["encdel", c] =>
    match parseCanonDel c with
    | some p => hexOfString (encodeDeletion p)
    | none => "bad-input"
  | _ => "bad-input"

partial def loop (inp out : IO.FS.Stream) : IO Unit := do
  let line ← inp.getLine
  if line.isEmpty then return
  let l := if line.endsWith "\n" then (line.dropEnd 1).toString else line
  out.putStrLn (runLine l)
  loop inp out

end C16

def c16Cmd : IO UInt32 := do
  let inp ← IO.getStdin
  let out ← IO.getStdout
  C16.loop inp out
  out.flush
  pure 0

end Driver
