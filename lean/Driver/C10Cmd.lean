import Smtb.Model.ProofJson
import Driver.C16Cmd
import Driver.Util
/-!
`driver corr c10` : line protocol for the differential test of `Proof.MarshalJSON` /
`Proof.UnmarshalJSON` (`/verif/harness/cmd/corr10`).  One case per stdin line, TAB-separated:

* `marshal <512 hex chars>`  → hex of the UTF-8 JSON text (`ProofJson.marshal` on the 256 bytes)
* `unmarshal <hex of JSON>`  → 512 hex chars (the buffer handed to `ReadFrom`) | `err <class>`
* `old <hex of JSON>`        → likewise for the model of the PRE-repair `UnmarshalJSON`
-/
namespace Driver
open Smtb.ProofJson

namespace C10

def hexOfBytes (bs : List Nat) : String :=
  String.ofList (bs.flatMap fun b => [C16.hexNib (b / 16), C16.hexNib (b % 16)])

def showResult : Except Err (List Nat) → String
  | .ok buf => hexOfBytes buf
  | .error e => "err " ++ e.name

end C10

def c10Line (line : String) : String :=
  match splitTab line with
  | ["marshal", h] =>
    match C16.unhex h.toList with
    | some buf => C16.hexOfString (marshal buf)
    | none => "bad-input"
  | ["unmarshal", h] =>
    match C16.unhex h.toList with
    | some bs => C10.showResult (unmarshalBytes bs)
    | none => "bad-input"
  | ["old", h] =>
    match C16.unhex h.toList with
    | some bs => C10.showResult (unmarshalOldBytes bs)
    | none => "bad-input"
  | _ => "bad-input"

end Driver
