import Smtb.Model.Pack
import Driver.C16Cmd
import Driver.Util
/-!
`driver corr c08` : line protocol for the differential test of the input-hash helpers and of
`gen-test-params` (`/verif/harness/cmd/corr08`).  One case per stdin line, TAB-separated; the
canonical parameter text is the one of `Driver/C16Cmd.lean`
(`ih=…;si=…;pre=…;post=…;ids=…;mp=…`, deletion: `idx=…` in place of `si=…`).

* `hashins <canon>`   → decimal `InputHash` per the model of the CURRENT `ComputeInputHashInsertion`
                        (`panic` when the model says `FillBytes` panics); the `ih=` and `mp=` fields
                        of the input are ignored; a negative value counts as its magnitude
* `hashdel <canon>`   → likewise for `ComputeInputHashDeletion`
* `canon-ins <canon>` → decimal Keccak-256 of the SPECIFICATION packing `packInsertion`
* `canon-del <canon>` → likewise `packDeletion`
* `old-ins <canon>`, `old-del <canon>` → the model of the PRE-repair helpers
* `gentest <insertion|deletion> <d> <b>` → canonical text of the parameters produced by the model
                        of `gen-test-params`
-/
namespace Driver
open Smtb.Pack Smtb.Codec

namespace C08

def optNat : Option Nat → String
  | some n => toString n
  | none => "panic"

def nats (xs : List Int) : List Nat := xs.map Int.natAbs

def insOfBatch (p : InsBatch Nat) (ih : Nat) : InsertionParams :=
  InsertionParams.ofNat ih p.startIndex p.preRoot p.postRoot p.idComms p.merkleProofs

def delOfBatch (p : DelBatch Nat) (ih : Nat) : DeletionParams :=
  DeletionParams.ofNat ih (some p.deletionIndices) p.preRoot p.postRoot p.idComms p.merkleProofs

def gentest (mode : String) (d b : Nat) : String :=
  if mode == "insertion" then
    match genInsertionHash d b with
    | some ih => C16.canonIns (insOfBatch (genInsertion d b) ih)
    | none => "panic"
  else if mode == "deletion" then
    match genDeletionHash d b with
    | some ih => C16.canonDel (delOfBatch (genDeletion d b) ih)
    | none => "panic"
  else "bad-input"

end C08

def c08Line (line : String) : String :=
  match splitTab line with
  | ["hashins", c] =>
    match C16.parseCanonIns c with
    | some p => C08.optNat (inputHashInsertion p.startIndex p.preRoot.natAbs p.postRoot.natAbs (C08.nats p.idComms))
    | none => "bad-input"
  | ["hashdel", c] =>
    match C16.parseCanonDel c with
    | some p => C08.optNat (inputHashDeletion (p.deletionIndices.getD []) p.preRoot.natAbs p.postRoot.natAbs)
    | none => "bad-input"
  | ["canon-ins", c] =>
    match C16.parseCanonIns c with
    | some p => toString (specHashInsertion p.startIndex p.preRoot.natAbs p.postRoot.natAbs (C08.nats p.idComms))
    | none => "bad-input"
  | ["canon-del", c] =>
    match C16.parseCanonDel c with
    | some p => toString (specHashDeletion (p.deletionIndices.getD []) p.preRoot.natAbs p.postRoot.natAbs)
    | none => "bad-input"
  | ["old-ins", c] =>
    match C16.parseCanonIns c with
    | some p => toString (inputHashInsertionOld p.startIndex p.preRoot.natAbs p.postRoot.natAbs (C08.nats p.idComms))
    | none => "bad-input"
  | ["old-del", c] =>
    match C16.parseCanonDel c with
    | some p => toString (inputHashDeletionOld (p.deletionIndices.getD []) p.preRoot.natAbs p.postRoot.natAbs)
    | none => "bad-input"
  | ["gentest", mode, d, b] =>
    match d.toNat?, b.toNat? with
    | some d, some b => C08.gentest mode d b
    | _, _ => "bad-input"
  | _ => "bad-input"

end Driver
