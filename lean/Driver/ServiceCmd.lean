import Driver.Util
import Driver.C16Cmd
import Smtb.Model.Http
/-!
Line protocols for the differential tests of the prover glue and the `/prove` handler
(`driver corr prove`, `driver corr req`).  One case per line, TAB-separated.

`proveLine`:
* `prove <insertion|deletion> <d> <b> <canonical params>` → `proof` | `error`
  (model `proveInsertion` / `proveDeletion` on a system of that mode and those dimensions;
  canonical parameter sets as in `Driver/C16Cmd.lean`);
* `verify <verifier label> <prover label> <hash> <candidate>` → `accept` | `reject`
  (ideal functionality: a proof made by the system labelled `<prover label>` for public input
  `<hash>` is checked by the system labelled `<verifier label>` against `<candidate>`; labels are
  arbitrary strings, equal labels = same set-up; hashes are decimal integers, possibly `≥ r` or
  negative).

`reqLine`:
* `req <insertion|deletion> <d> <b> <METHOD> <hex of body bytes>` →
  `405` | `400 malformed_body` | `400 proving_error` | `200 ok`
  (the body bytes go through `Codec.utf8Lossy`, like the documents of `driver c16`).

Anything else → `bad-input`.
-/
namespace Driver
open Smtb.Codec Smtb.Prover Smtb.Http

namespace Service

def parseMode (s : String) : Option Mode :=
  if s == "insertion" then some .insertion
  else if s == "deletion" then some .deletion
  else none

def parseParams (m : Mode) (canon : String) : Option Params :=
  match m with
  | .insertion => (C16.parseCanonIns canon).map Params.insertion
  | .deletion => (C16.parseCanonDel canon).map Params.deletion

def respText : Resp → String
  | .methodNotAllowed => "405"
  | .malformedBody => "400 malformed_body"
  | .provingError => "400 proving_error"
  | .ok _ => "200 ok"

end Service

def proveLine (line : String) : String :=
  match line.splitOn "\t" with
  | ["prove", mode, d, b, canon] =>
    match Service.parseMode mode, d.toNat?, b.toNat? with
    | some m, some d, some b =>
      match Service.parseParams m canon with
      | none => "bad-input"
      | some ps =>
        match prove { id := 0, mode := m, depth := d, batch := b } ps with
        | .ok _ => "proof"
        | .error _ => "error"
    | _, _, _ => "bad-input"
  | ["verify", vlabel, plabel, hash, cand] =>
    match hash.toInt?, cand.toInt? with
    | some h, some c =>
      -- the mode and dimensions of a system play no role in `verify`
      let verifier : System := { id := 0, mode := .insertion, depth := 0, batch := 0 }
      let proverId : Nat := if vlabel == plabel then 0 else 1
      let tok : Token := { sysId := proverId, pub := red h }
      if verify verifier c tok then "accept" else "reject"
    | _, _ => "bad-input"
  | _ => "bad-input"

def reqLine (line : String) : String :=
  match line.splitOn "\t" with
  | ["req", mode, d, b, method, hex] =>
    match Service.parseMode mode, d.toNat?, b.toNat?, C16.unhex hex.toList with
    | some m, some d, some b, some bytes =>
      let body := String.ofList (utf8Lossy bytes)
      Service.respText (respond { id := 0, mode := m, depth := d, batch := b } method body)
    | _, _, _, _ => "bad-input"
  | _ => "bad-input"

end Driver
