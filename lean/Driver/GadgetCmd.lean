import Driver.Util
import Smtb.Circuit.Api
import Smtb.Model.Bits
import Smtb.Model.Poseidon
import Smtb.Model.Tree
/-! `driver corr poseidon` (C05), `driver corr bits` (C06), `driver corr tree` (C18) -/
namespace Driver
open Smtb

def poseidonLine (line : String) : String :=
  match splitTab line with
  | ["h1", p, a] =>
    match p.toNat?, a.toNat? with
    | some p, some a => toString (Poseidon.hash1 p a)
    | _, _ => "bad-line"
  | ["h2", p, a, b] =>
    match p.toNat?, a.toNat?, b.toNat? with
    | some p, some a, some b => toString (Poseidon.hash2 p a b)
    | _, _, _ => "bad-line"
  | _ => "bad-line"

def bitStr (bs : List Bool) : String := String.ofList (bs.map fun b => if b then '1' else '0')

def parseBitStr (s : String) : List Bool := s.toList.map (· == '1')

/-- specification side of the C06 theorems -/
def bitsLine (line : String) : String :=
  match splitTab line with
  | ["rmc", p, digits] =>
    match p.toNat?, parseCsv digits with
    | some p, some ds =>
      -- `reducedModRCheck_sat`: no constraint at all below the field's bit length; otherwise every
      -- digit boolean and the value below the modulus
      if ds.length < bitLen p then "accept"
      else if ds.all (· < 2) && Bits.reducedOk p (ds.map (· == 1)) then "accept" else "reject"
    | _, _ => "bad-line"
  | ["tre", p, n, v] =>
    match p.toNat?, n.toNat?, v.toNat? with
    | some p, some n, some v =>
      -- `toReducedBigEndian_sat`
      let v := v % p
      if v < 2^n then "ok " ++ bitStr (swapByteOrder (Merkle.bitsLE n v)) else "unsat"
    | _, _, _ => "bad-line"
  | ["fbe", p, bits] =>
    match p.toNat? with
    | some p => toString (Bits.natOfBitsLE (swapByteOrder (parseBitStr bits)) % p)
    | none => "bad-line"
  | ["forge", v, k] =>
    match v.toNat?, k.toNat? with
    | some v, some k =>
      -- the prover claims the big-endian bits of `v + k·r`; `toReducedBigEndian_unique` says the
      -- only accepted output is that of `v.val`
      let r := Poseidon.bn254r
      let alias := v + k * r
      if alias < 2^256 ∧ v % r < 2^256 ∧
          swapByteOrder (Merkle.bitsLE 256 alias) = swapByteOrder (Merkle.bitsLE 256 (v % r)) then "accept"
      else "reject"
    | _, _ => "bad-line"
  | _ => "bad-line"

def parseOps (s : String) : Option (List (Nat × Nat)) :=
  if s.isEmpty then some [] else
  (s.splitOn ";").mapM fun op =>
    match op.splitOn ":" with
    | [i, v] => do let i ← i.toNat?; let v ← v.toNat?; pure (i, v)
    | _ => none

def csvNat (l : List Nat) : String := String.intercalate "," (l.map toString)

/-- the tree model of `Smtb/Model/Tree.lean` with the reference Poseidon over BN254 -/
def treeLine (line : String) : String :=
  match splitTab line with
  | ["tree", d, mode, ops] =>
    match d.toNat?, parseOps ops with
    | some d, some ops =>
      let H := Poseidon.hash2 Poseidon.bn254r
      let n := ops.length
      let (_, outs, _) := ops.foldl (fun (acc : Tree.Tree Nat × List String × Nat) op =>
        let (t, outs, i) := acc
        let (t', prf) := t.update H 0 op.1 op.2
        let o := toString (t'.rootValue 0)
        let o := if mode == "all" || i + 1 == n then o ++ "[" ++ csvNat prf ++ "]" else o
        (t', o :: outs, i + 1)) (Tree.newTree H 0 d, [], 0)
      String.intercalate ";" outs.reverse
    | _, _ => "bad-line"
  | _ => "bad-line"

end Driver
