import Smtb.Model.Job
/-!
`driver corr job` (C14): acceptor for event logs of the graceful-shutdown protocol.

Input line:  `job\t<fixed 0|1>\t<comma-separated labels>`
Answer:      `accepted`  or  `rejected at <index> <label>`  (index of the first label, counted from 0,
             that is not enabled), or `bad-line`.

`fixed = 1` is the repaired protocol of `server/job.go`, `fixed = 0` the original one.
The sequence is run from the initial state of `Smtb.Job`.  Silent labels (marked τ below: channel
operations inside `SpawnJob`/`CombineJobs`, which a real log cannot contain) may be left out: when
a label is not enabled, all enabled silent steps are taken first (`Smtb.Job.acceptsWeak`, sound by
`Smtb.Properties.C14.acceptsWeak_sound`).  `jobstrict\t…` is the same with every label explicit
(`Smtb.Job.accepts`).

Label syntax (`<j>` is `m` = metrics job, `p` = prover job):

| text     | label                     | meaning                                                        |
|----------|---------------------------|----------------------------------------------------------------|
| `<j>.sb` | `job j shutdownBegin`     | stopper woke up; `Shutdown` sets inShutdown, closes registered listeners |
| `<j>.sr` | `job j shutdownReturn`    | `Shutdown` returns (active = 0)                                |
| `<j>.cc` | `job j closeClosed`     τ | (fixed: start has returned;) `close(closed)`                   |
| `<j>.ck` | `job j checkOk`           | `ListenAndServe` sees inShutdown = false                       |
| `<j>.cs` | `job j checkShut`         | `ListenAndServe` sees inShutdown = true and returns            |
| `<j>.bd` | `job j bind`              | `net.Listen`                                                   |
| `<j>.rk` | `job j registerOk`        | listener registered, accept loop starts                        |
| `<j>.rs` | `job j registerShut`      | registration refused (inShutdown), listener closed, return     |
| `<j>.rt` | `job j serveReturn`       | accept loop returns after shutdown                             |
| `<j>.ac` | `job j accept`            | a request is accepted                                          |
| `<j>.co` | `job j complete`          | an accepted request got its full response                      |
| `c.rm` `c.rp` | `cRequestStop j`   τ | combined stopper: `RequestStop` of metrics / prover job        |
| `c.am` `c.ap` | `cAwait j`         τ | combined stopper: `AwaitStop` of metrics / prover job returns  |
| `c.st`   | `cStart`                τ | combined starter returns                                       |
| `c.cl`   | `cClose`                τ | combined stopper closes the combined `closed`                  |
| `M.rq`   | `mainRequestStop`         | SIGINT, `instance.RequestStop()`                               |
| `M.aw`   | `mainAwait`               | `instance.AwaitStop()` called                                  |
| `M.ex`   | `mainExit`                | `AwaitStop` returned, exit status 0                            |
| `R`      | `restart`                 | new `Run` on the same addresses                                |
-/
namespace Driver
open Smtb.Job

def parseJobOp : String → Option JobLabel
  | "sb" => some .shutdownBegin | "sr" => some .shutdownReturn | "cc" => some .closeClosed
  | "ck" => some .checkOk | "cs" => some .checkShut | "bd" => some .bind
  | "rk" => some .registerOk | "rs" => some .registerShut | "rt" => some .serveReturn
  | "ac" => some .accept | "co" => some .complete
  | _ => none

def parseJobLabel (t : String) : Option Label :=
  match t with
  | "c.rm" => some (.cRequestStop .metrics) | "c.rp" => some (.cRequestStop .prover)
  | "c.am" => some (.cAwait .metrics) | "c.ap" => some (.cAwait .prover)
  | "c.st" => some .cStart | "c.cl" => some .cClose
  | "M.rq" => some .mainRequestStop | "M.aw" => some .mainAwait | "M.ex" => some .mainExit
  | "R" => some .restart
  | _ =>
    match t.splitOn "." with
    | ["m", op] => (parseJobOp op).map (.job .metrics)
    | ["p", op] => (parseJobOp op).map (.job .prover)
    | _ => none

def jobOpText : JobLabel → String
  | .shutdownBegin => "sb" | .shutdownReturn => "sr" | .closeClosed => "cc"
  | .checkOk => "ck" | .checkShut => "cs" | .bind => "bd"
  | .registerOk => "rk" | .registerShut => "rs" | .serveReturn => "rt"
  | .accept => "ac" | .complete => "co"

def jobLabelText : Label → String
  | .job .metrics l => "m." ++ jobOpText l
  | .job .prover l => "p." ++ jobOpText l
  | .cRequestStop .metrics => "c.rm" | .cRequestStop .prover => "c.rp"
  | .cAwait .metrics => "c.am" | .cAwait .prover => "c.ap"
  | .cStart => "c.st" | .cClose => "c.cl"
  | .mainRequestStop => "M.rq" | .mainAwait => "M.aw" | .mainExit => "M.ex"
  | .restart => "R"

def parseJobLabels (s : String) : Option (List Label) :=
  if s.isEmpty then some [] else (s.splitOn ",").mapM parseJobLabel

def jobLine (line : String) : String :=
  match line.splitOn "\t" with
  | [cmd, f, ls] =>
    let fixed? : Option Bool := match f with | "0" => some false | "1" => some true | _ => none
    match fixed?, parseJobLabels ls with
    | some fixed, some labels =>
      let rej :=
        if cmd == "job" then some (firstRejectWeak fixed init labels 0)
        else if cmd == "jobstrict" then some (firstReject fixed init labels 0)
        else none
      match rej with
      | some none => "accepted"
      | some (some (i, l)) => s!"rejected at {i} {jobLabelText l}"
      | none => "bad-line"
    | _, _ => "bad-line"
  | _ => "bad-line"

end Driver
