import Smtb.Model.File
/-!
`driver corr file` : differential-test endpoint for the C11/C15 file-framing model (core only).

stdin lines and answers:
* `header\t<depth>\t<batch>`  → 16 lowercase hex chars: the 8 header bytes
  `u32BE depth ++ u32BE batch` (values are taken modulo 2^32, as `uint32(...)` does in main.go)
* `parseheader\t<hex16>`      → `<depth> <batch>`: the model's two `readFull 4` + `readU32BE` steps
  (the first two steps of `Smtb.File.read`); `error EOF` / `error unexpectedEOF` on short input
* `cut\t<total>\t<lpk>\t<lvk>\t<lcs>\t<k>` (section lengths of a real file, `total = 8+lpk+lvk+lcs`,
  cut offset `k ≤ total`) → `error header1|header2|pk|vk|cs` (the stage of `UnsafeReadFrom` that fails
  when reading the first `k` bytes, `Smtb.File.cutStage`, proved correct for all codecs satisfying
  H1+H2 by `readStaged_take` in `Smtb/Properties/C15.lean`) when `k < total`, `ok` when `k = total`
  (`read_write` in `Smtb/Properties/C11.lean`).
-/
namespace Driver.FileCmd
open Smtb.File

def hexVal (c : Char) : Option Nat :=
  if '0' ≤ c ∧ c ≤ '9' then some (c.toNat - '0'.toNat)
  else if 'a' ≤ c ∧ c ≤ 'f' then some (c.toNat - 'a'.toNat + 10)
  else if 'A' ≤ c ∧ c ≤ 'F' then some (c.toNat - 'A'.toNat + 10)
  else none

def parseHex : List Char → Option (List Nat)
  | [] => some []
  | [_] => none
  | a :: b :: rest =>
    match hexVal a, hexVal b, parseHex rest with
    | some x, some y, some bs => some ((16 * x + y) :: bs)
    | _, _, _ => none

def hexDigit (n : Nat) : Char := if n < 10 then Char.ofNat (48 + n) else Char.ofNat (87 + n)

def toHex (bs : List Nat) : String :=
  String.ofList (bs.flatMap fun b => [hexDigit (b / 16 % 16), hexDigit (b % 16)])

def errName : Err → String
  | .EOF => "EOF" | .unexpectedEOF => "unexpectedEOF" | .malformed => "malformed"

/-- the header part of `Smtb.File.read` -/
def parseHeader (bytes : List Byte) : Except Err (Nat × Nat) := do
  let (w1, r1) ← readFull 4 bytes
  let (w2, _) ← readFull 4 r1
  pure (readU32BE w1, readU32BE w2)

def fileLine (line : String) : String :=
  match line.splitOn "\t" with
  | ["header", d, b] =>
    match d.toNat?, b.toNat? with
    | some d, some b => toHex (u32BE d ++ u32BE b)
    | _, _ => "error: bad number"
  | ["parseheader", h] =>
    match parseHex h.toList with
    | some bytes =>
      match parseHeader bytes with
      | .ok (d, b) => s!"{d} {b}"
      | .error e => s!"error {errName e}"
    | none => "error: bad hex"
  | ["cut", total, lpk, lvk, lcs, k] =>
    match total.toNat?, lpk.toNat?, lvk.toNat?, lcs.toNat?, k.toNat? with
    | some total, some lpk, some lvk, some lcs, some k =>
      if total ≠ 8 + lpk + lvk + lcs then "error: total is not 8+lpk+lvk+lcs"
      else if k > total then "error: cut beyond end of file"
      else if k = total then "ok"
      else s!"error {(cutStage lpk lvk lcs k).name}"
    | _, _, _, _, _ => "error: bad number"
  | _ => "error: bad input line"

end Driver.FileCmd

namespace Driver
def fileLine (line : String) : String := Driver.FileCmd.fileLine line
end Driver
