import Driver.Util
import Smtb.Circuit.Api
/-!
# `driver corr gates` — executable transcription of the gate table (T-corr-gates), core only

`Smtb/Proofs/Sat.lean` (`satApi`) states, for every `frontend.API` call, when the constraints gnark
emits for it are satisfiable.  That table is the one modelled-not-verified assumption under the
circuit theorems.  `harness/cmd/corrgates` decides the satisfiability of what gnark v0.8.0 really
compiles for micro-circuits `res := op(In…); AssertIsEqual(res, Out)`; this file answers the same
question from the table.  It cannot import `Sat.lean` (Mathlib), so it is a second transcription:
`ExecM p α := (α → Bool) → Bool` over `Nat` modulo `p` mirrors `SatM p α := (α → Prop) → Prop` over
`ZMod p` field by field.  `Smtb/Proofs/GateTableExec.lean` proves `execApi` = `satApi` op by op.

Line of `Sat.lean` transcribed by each field of `execApi` (line numbers of Sat.lean):

| `execApi` field | `satApi` line | right-hand side there                                                        |
|-----------------|---------------|-------------------------------------------------------------------------------|
| `const`         | 46            | `(n : ZMod p)`                                                                |
| `add`           | 47            | `k (a + b)`                                                                   |
| `sub`           | 48            | `k (a - b)`                                                                   |
| `mul`           | 49            | `k (a * b)`                                                                   |
| `select`        | 50            | `isBool c ∧ k (b + c * (a - b))`                                              |
| `isZero`        | 51            | `∃ x m, m = 1 - a * x ∧ a * m = 0 ∧ k m`                                      |
| `or_`           | 52            | `isBool a ∧ isBool b ∧ k (a + b - a * b)`                                     |
| `xor_`          | 53            | `isBool a ∧ isBool b ∧ k (a + b - 2 * a * b)`                                 |
| `and_`          | 54            | `isBool a ∧ isBool b ∧ k (a * b)`                                             |
| `toBinary`      | 55–56         | `∃ bits, bits.length = n ∧ (∀ b ∈ bits, isBool b) ∧ recompose bits = v ∧ k bits` |
| `fromBinary`    | 57            | `(∀ b ∈ bs, isBool b) ∧ k (recompose bs)`                                     |
| `assertBool`    | 58            | `isBool a ∧ k ()`                                                             |
| `assertEq`      | 59            | `a = b ∧ k ()`                                                                |
| `isBoolB`       | 38            | `a * (1 - a) = 0`                                                             |
| `recomposeN`    | 41–43         | `[] ↦ 0`, `b :: bs ↦ b + 2 * recompose bs`                                    |

The two existentials are evaluated by bounded search:
* `isZero`: `x` ranges over `{0, 1, a^(p-2)}`.  Complete for prime `p`: if `a = 0` the body does not
  depend on `x`; if `a ≠ 0` then `a * m = 0` forces `m = 0`, i.e. `a * x = 1`, i.e. `x = a⁻¹ =
  a^(p-2)` (Fermat).  (`GateTableExec.exec_isZero` proves the equivalence with `satApi.isZero`.)
* `toBinary`: `bits` ranges over `{0,1}^n`.  Complete for prime `p` because `isBool b ↔ b = 0 ∨ b = 1`
  (`Sat.isBool_iff`).

Known deviations of gnark's R1CS builder from the table (found by corrgates, excluded from the default
run, `corrgates -deviations` shows them):
* `ToBinary(x, 0)` and `FromBinary()` are refused at compile time (`std/math/bits`: "nbDigits <= 0",
  "FromBase needs at least 1 digit"); the table gives them the meanings `x = 0` and `0`.
* `ToBinary(c, n)` for a Go CONSTANT `c ≥ 2^n` returns the low `n` bits and emits no constraint; the
  table demands `recompose bits = c`, i.e. says unsatisfiable.  (Never hit by the repository: every
  `ToBinary` argument there is a circuit variable.)
-/
namespace Driver
namespace Gate
open Smtb

/-! ### field arithmetic on representatives `< p` -/
def fadd (p a b : Nat) : Nat := (a + b) % p
def fsub (p a b : Nat) : Nat := (a + (p - b % p)) % p
def fmul (p a b : Nat) : Nat := (a * b) % p

def powMod (p a : Nat) : Nat → Nat
  | 0 => 1 % p
  | e + 1 =>
    let h := powMod p a ((e + 1) / 2)
    let s := fmul p h h
    if (e + 1) % 2 = 1 then fmul p s a else s
decreasing_by omega

/-- Sat.lean:38 -/
def isBoolB (p a : Nat) : Bool := fmul p a (fsub p 1 a) == 0

/-- Sat.lean:41 -/
def recomposeN (p : Nat) : List Nat → Nat
  | [] => 0
  | b :: bs => fadd p b (fmul p 2 (recomposeN p bs))

/-- `{0,1}^n` -/
def allBits : Nat → List (List Nat)
  | 0 => [[]]
  | n + 1 => (allBits n).flatMap fun bs => [0 :: bs, 1 :: bs]

/-- candidates for the `InvZero` hint wire -/
def invCands (p a : Nat) : List Nat := [0, 1 % p, powMod p a (p - 2)]

def ExecM (_p : Nat) (α : Type) : Type := (α → Bool) → Bool

instance (p : Nat) : Monad (ExecM p) where
  pure a := fun k => k a
  bind x f := fun k => x (fun a => f a k)

/-- the gate table, executable (see the table in the module docstring) -/
instance execApi (p : Nat) : CircuitApi (ExecM p) Nat where
  const n := n % p
  add a b := fun k => k (fadd p a b)
  sub a b := fun k => k (fsub p a b)
  mul a b := fun k => k (fmul p a b)
  select c a b := fun k => isBoolB p c && k (fadd p b (fmul p c (fsub p a b)))
  isZero a := fun k => (invCands p a).any fun x =>
    let m := fsub p 1 (fmul p a x)
    fmul p a m == 0 && k m
  or_ a b := fun k => isBoolB p a && (isBoolB p b && k (fsub p (fadd p a b) (fmul p a b)))
  xor_ a b := fun k => isBoolB p a && (isBoolB p b && k (fsub p (fadd p a b) (fmul p (fmul p 2 a) b)))
  and_ a b := fun k => isBoolB p a && (isBoolB p b && k (fmul p a b))
  toBinary v n := fun k => (allBits n).any fun bits => recomposeN p bits == v % p && k bits
  fromBinary bs := fun k => bs.all (isBoolB p) && k (recomposeN p bs)
  assertBool a := fun k => isBoolB p a && k ()
  assertEq a b := fun k => a % p == b % p && k ()
  opaque1 _ _ _ body := body
  opaqueN _ _ _ _ body := body

/-! ### the micro-circuits of `harness/cmd/corrgates` (same names), written once against `CircuitApi`
so that they can be run through `execApi` here and through `satApi` in `GateTableExec.lean` -/
section variants
variable {m : Type → Type} {V : Type} [CircuitApi m V]

def r1 (x : m V) : m (List V) := do let r ← x; pure [r]

def variant (name : String) (i : List V) : Option (m (List V)) :=
  let k (n : Nat) : V := const (m := m) n
  match name, i with
  | "const_5", [] => some (pure [k 5])
  | "const_big", [] => some (pure [k (2^256 + 3)])
  | "add", [a, b] => some (r1 (add a b))
  | "add_k3", [x] => some (r1 (add x (k 3)))
  | "add3", [a, b, c] => some (r1 (do let t ← add a b; add t c))
  | "add_xx", [x] => some (r1 (add x x))
  | "sub", [a, b] => some (r1 (sub a b))
  | "sub_1x", [x] => some (r1 (sub (k 1) x))
  | "sub_xk5", [x] => some (r1 (sub x (k 5)))
  | "sub_xx", [x] => some (r1 (sub x x))
  | "mul", [a, b] => some (r1 (mul a b))
  | "mul_k7", [x] => some (r1 (mul x (k 7)))
  | "mul_k0", [x] => some (r1 (mul x (k 0)))
  | "mul_xx", [x] => some (r1 (mul x x))
  | "mul_lin", [a, b] => some (r1 (do let s ← add a b; let d ← sub a b; mul s d))
  | "select", [c, a, b] => some (r1 (select c a b))
  | "select_c0x", [c, x] => some (r1 (select c (k 0) x))
  | "select_cx0", [c, x] => some (r1 (select c x (k 0)))
  | "select_c1x", [c, x] => some (r1 (select c (k 1) x))
  | "select_ck", [c] => some (r1 (select c (k 5) (k 9)))
  | "select_ckk", [c] => some (r1 (select c (k 4) (k 4)))
  | "select_1ab", [a, b] => some (r1 (select (k 1) a b))
  | "select_0ab", [a, b] => some (r1 (select (k 0) a b))
  | "select_cxx", [c, x] => some (r1 (select c x x))
  | "select_2ab", [a, b] => some (r1 (select (k 2) a b))
  | "isZero", [a] => some (r1 (isZero a))
  | "isZero_sub", [a, b] => some (r1 (do let d ← sub a b; isZero d))
  | "isZero_mul", [a, b] => some (r1 (do let d ← mul a b; isZero d))
  | "isZero_isZero", [a] => some (r1 (do let z ← isZero a; isZero z))
  | "isZero_k0", [] => some (r1 (isZero (k 0)))
  | "isZero_k5", [] => some (r1 (isZero (k 5)))
  | "or", [a, b] => some (r1 (or_ a b))
  | "or_x0", [x] => some (r1 (or_ x (k 0)))
  | "or_x1", [x] => some (r1 (or_ x (k 1)))
  | "or_0x", [x] => some (r1 (or_ (k 0) x))
  | "or_xx", [x] => some (r1 (or_ x x))
  | "or_x2", [x] => some (r1 (or_ x (k 2)))
  | "xor", [a, b] => some (r1 (xor_ a b))
  | "xor_x0", [x] => some (r1 (xor_ x (k 0)))
  | "xor_x1", [x] => some (r1 (xor_ x (k 1)))
  | "xor_1x", [x] => some (r1 (xor_ (k 1) x))
  | "xor_xx", [x] => some (r1 (xor_ x x))
  | "and", [a, b] => some (r1 (and_ a b))
  | "and_x0", [x] => some (r1 (and_ x (k 0)))
  | "and_x1", [x] => some (r1 (and_ x (k 1)))
  | "and_xx", [x] => some (r1 (and_ x x))
  | "tb0", [v] => some (toBinary v 0)
  | "tb1", [v] => some (toBinary v 1)
  | "tb2", [v] => some (toBinary v 2)
  | "tb3", [v] => some (toBinary v 3)
  | "tb8", [v] => some (toBinary v 8)
  | "tb_lin3", [a, b] => some (do let s ← add a b; toBinary s 3)
  | "tb_k5_n3", [] => some (toBinary (k 5) 3)
  | "tb_k5_n2", [] => some (toBinary (k 5) 2)
  | "fb0", [] => some (r1 (fromBinary []))
  | "fb1", [b] => some (r1 (fromBinary [b]))
  | "fb4", [b0, b1, b2, b3] => some (r1 (fromBinary [b0, b1, b2, b3]))
  | "fb_k", [b0, b2] => some (r1 (fromBinary [b0, k 1, b2]))
  | "fb_dup", [b] => some (r1 (fromBinary [b, b]))
  | "fb_k2", [b] => some (r1 (fromBinary [b, k 2]))
  | "fb_tb3", [v] => some (r1 (do let bs ← toBinary v 3; fromBinary bs))
  | "ab", [x] => some (do assertBool x; pure [])
  | "ab_twice", [x] => some (do assertBool x; assertBool x; pure [])
  | "ab_lin", [a, b] => some (do let s ← add a b; assertBool s; pure [])
  | "ab_or", [a, b] => some (do let r ← or_ a b; assertBool r; pure [r])
  | "ab_xor", [a, b] => some (do let r ← xor_ a b; assertBool r; pure [r])
  | "ab_and", [a, b] => some (do let r ← and_ a b; assertBool r; pure [r])
  | "ab_and_x0", [x] => some (do let r ← and_ x (k 0); assertBool r; pure [r])
  | "ab_isz", [a] => some (do let r ← isZero a; assertBool r; pure [r])
  | "ab_sel", [c, a, b] => some (do let r ← select c a b; assertBool r; pure [r])
  | "ab_tbbit", [v] => some (do
      let bs ← toBinary v 3
      match bs with
      | [_, b1, _] => do assertBool b1; pure [b1]
      | _ => pure [])
  | "ab_k2", [_] => some (do assertBool (k 2); pure [])
  | "ae", [a, b] => some (do assertEq a b; pure [])
  | "ae_x1", [x] => some (do assertEq x (k 1); pure [])
  | "ae_1x", [x] => some (do assertEq (k 1) x; pure [])
  | "ae_k34", [_] => some (do assertEq (k 3) (k 4); pure [])
  | "ae_k33", [_] => some (do assertEq (k 3) (k 3); pure [])
  | "ae_lin", [a, b] => some (do let s ← add a b; let t ← mul a b; assertEq s t; pure [])
  | "sel_or", [a, b, x, y] => some (r1 (do let c ← or_ a b; select c x y))
  | "sel_isz", [a, x, y] => some (r1 (do let c ← isZero a; select c x y))
  | "or_and", [a, b, c] => some (r1 (do let t ← and_ a b; or_ t c))
  | "xor_xor", [a, b, c] => some (r1 (do let t ← xor_ a b; xor_ t c))
  | "and_isz_or", [a, b, c] => some (r1 (do let z ← isZero a; let o ← or_ b c; and_ z o))
  | "or_sel", [c, a, b, d] => some (r1 (do let s ← select c a b; or_ s d))
  | _, _ => none

end variants

/-- is `op(ins) = outs` satisfiable according to the table? -/
def decide (p : Nat) (name : String) (ins outs : List Nat) : Option Bool :=
  let outs := outs.map (· % p)
  match variant (m := ExecM p) name (ins.map (· % p)) with
  | some prog => some (prog fun r => r == outs)
  | none => none

/-- all tuples of length `n` over `[0, p)`, lexicographic -/
def allTuples (p : Nat) : Nat → List (List Nat)
  | 0 => [[]]
  | n + 1 => (List.range p).flatMap fun x => (allTuples p n).map (x :: ·)

end Gate

def gateLine (line : String) : String :=
  match splitTab line with
  | ["gate", name, p, ins, outs] =>
    match p.toNat?, parseCsv ins, parseCsv outs with
    | some p, some ins, some outs =>
      match Gate.decide p name ins outs with
      | some true => "sat"
      | some false => "unsat"
      | none => "bad-variant"
    | _, _, _ => "bad-line"
  | ["gateall", name, p, nOut, ins] =>
    -- every Out tuple over the whole field for which the table says satisfiable
    match p.toNat?, nOut.toNat?, parseCsv ins with
    | some p, some nOut, some ins =>
      let sat := (Gate.allTuples p nOut).filter fun outs => Gate.decide p name ins outs == some true
      toString sat.length ++ ":" ++ String.intercalate "|" (sat.map fun t => String.intercalate "," (t.map toString))
    | _, _, _ => "bad-line"
  | _ => "bad-line"

end Driver
