import Smtb.Model.Metrics
/-!
`driver corr metrics` : differential-test endpoint for the C20 metrics model (core only).

stdin line: `metrics\t<resp>,<resp>,…` with `<resp>` = `<METHOD>:<code>` as the client saw them
(raw method token as sent on the wire and the status of the response), possibly an empty list.
stdout line: the canonical totals `method=<m>,code=<c>:<n>` sorted by (method, code), joined by `;`,
followed by `;inflight=<g>` (for an empty list just `inflight=0`).

The answer is produced by RUNNING the model: the responses are turned into the sequential history
`begin i, count i m c, finish i` (`Smtb.Metrics.sequential`), `run` from the empty registry, and the
final `State` is printed.  (Theorem `concurrent_eq_sequential` in `Smtb/Properties/C20.lean` shows
every complete concurrent history over the same responses ends in the same metrics.)
-/
namespace Driver.MetricsCmd
open Smtb.Metrics

def parseResp (s : String) : Option (String × Nat) :=
  match s.splitOn ":" with
  | [m, c] => c.toNat?.map fun n => (m, n)
  | _ => none

def parseResps (s : String) : Option (List (String × Nat)) :=
  if s.isEmpty then some [] else (s.splitOn ",").mapM parseResp

def labelLe (a b : Label × Nat) : Bool :=
  a.1.1 < b.1.1 || (a.1.1 == b.1.1 && a.1.2 ≤ b.1.2)

def renderState (st : State) : String :=
  let rows := (st.totals.mergeSort labelLe).map fun ((m, c), n) => s!"method={m},code={c}:{n}"
  ";".intercalate (rows ++ [s!"inflight={st.inFlight}"])

def metricsOf (rs : List (String × Nat)) : String :=
  renderState (run init (sequential rs))

def metricsLine (line : String) : String :=
  match line.splitOn "\t" with
  | ["metrics"] => metricsOf []
  | ["metrics", rs] =>
    match parseResps rs with
    | some rs => metricsOf rs
    | none => "error: bad response list"
  | _ => "error: bad input line"

end Driver.MetricsCmd

namespace Driver
def metricsLine (line : String) : String := Driver.MetricsCmd.metricsLine line
end Driver
