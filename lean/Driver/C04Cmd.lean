import Smtb.Model.Keccak
import Smtb.Model.KeccakSpec
/-!
`driver c04` : differential-test endpoint for the Keccak reference and the gadget specification.
stdin lines: `keccak256\t<hex>`, `sha3_256\t<hex>`, `spec\t<dom>\t<hex>`; one lowercase hex digest
per line on stdout.
-/
namespace Driver
open Smtb

def hexVal (c : Char) : Option Nat :=
  if '0' ≤ c ∧ c ≤ '9' then some (c.toNat - '0'.toNat)
  else if 'a' ≤ c ∧ c ≤ 'f' then some (c.toNat - 'a'.toNat + 10)
  else if 'A' ≤ c ∧ c ≤ 'F' then some (c.toNat - 'A'.toNat + 10)
  else none

def parseHexBytes (s : String) : Option (List Nat) :=
  let rec go : List Char → List Nat → Option (List Nat)
    | [], acc => some acc.reverse
    | [_], _ => none
    | a :: b :: rest, acc =>
      match hexVal a, hexVal b with
      | some x, some y => go rest ((16 * x + y) :: acc)
      | _, _ => none
  go s.toList []

def hexDigit (n : Nat) : Char := if n < 10 then Char.ofNat (48 + n) else Char.ofNat (87 + n)

def toHex (bs : List Nat) : String :=
  String.ofList (bs.flatMap fun b => [hexDigit (b / 16 % 16), hexDigit (b % 16)])

def c04Line (line : String) : Option String :=
  match line.splitOn "\t" with
  | ["keccak256", h] => (parseHexBytes h).map fun bs => toHex (KeccakRef.keccak256 bs)
  | ["sha3_256", h] => (parseHexBytes h).map fun bs => toHex (KeccakRef.sha3_256 bs)
  | ["spec", d, h] =>
    match d.toNat?, parseHexBytes h with
    | some dom, some bs =>
      some (toHex (KeccakRef.bitsToBytes (KeccakSpec.gadgetSpecBits dom (KeccakRef.bytesToBits bs))))
    | _, _ => none
  | _ => none

partial def c04Loop (stdin stdout : IO.FS.Stream) : IO UInt32 := do
  let line ← stdin.getLine
  if line.isEmpty then pure 0 else
  let line := String.ofList (line.toList.filter fun c => c != '\n' && c != '\r')
  if line.isEmpty then c04Loop stdin stdout else
  match c04Line line with
  | some out => stdout.putStrLn out; c04Loop stdin stdout
  | none => IO.eprintln s!"c04: bad input line: {line}"; pure 2

def c04Cmd : IO UInt32 := do
  c04Loop (← IO.getStdin) (← IO.getStdout)

end Driver
