/-! small helpers for the line-protocol drivers (core only) -/
namespace Driver

def splitTab (s : String) : List String := s.splitOn "\t"

def parseNat? (s : String) : Option Nat := s.toNat?

def parseCsv (s : String) : Option (List Nat) :=
  if s.isEmpty then some [] else (s.splitOn ",").mapM String.toNat?

def parseCsv2 (s : String) : Option (List (List Nat)) :=
  if s.isEmpty then some [] else (s.splitOn "|").mapM parseCsv

/-- read stdin line by line, answer each line with `f line` -/
partial def lineLoop (f : String → String) : IO UInt32 := do
  let stdin ← IO.getStdin
  let stdout ← IO.getStdout
  let rec go : IO Unit := do
    let line ← stdin.getLine
    if line.isEmpty then return ()
    let l := if line.endsWith "\n" then (line.dropEnd 1).toString else line
    stdout.putStrLn (f l)
    go
  go
  stdout.flush
  pure 0

end Driver
