#!/usr/bin/env python3
"""Apply a behaviour-preserving patch to /repo, run the given checks, restore /repo.
  tools/benign.py <patch.diff> C01 C02 ...   -> one line per check: OK / VIOLATION ... (what the check printed)
Used to measure how the ties react to harmless rewrites (DESIGN.md 11.8)."""
import subprocess, sys, os
patch, props = sys.argv[1], sys.argv[2:]
def sh(c): return subprocess.run(c, shell=True, capture_output=True, text=True)
assert sh('git -C /repo status --porcelain').stdout.strip() == '', '/repo not clean'
r = sh(f'git -C /repo apply {patch}')
if r.returncode != 0:
    print('PATCH DOES NOT APPLY', r.stderr[-300:]); sys.exit(2)
try:
    for p in props:
        r = sh(f'cd /verif && bin/check {p}')
        lines = [l for l in r.stdout.split('\n') if l.startswith(('OK', 'VIOLATION', '#', 'KNOWN'))]
        print(f'{os.path.basename(os.path.dirname(os.path.dirname(patch)))}/{os.path.basename(patch)} {p}: ' + ' | '.join(l[:400] for l in lines) if lines else f'{p}: rc={r.returncode} {r.stderr[-300:]}', flush=True)
finally:
    sh('git -C /repo checkout -- . && git -C /repo clean -fdq')
