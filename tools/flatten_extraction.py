#!/usr/bin/env python3
"""flatten_extraction.py -- flatten a gnark-lean-extractor circuit model into the recorder's flat
API-call trace format (see /verif/harness/recorder/recorder.go), so that

    (a) flatten(committed /repo/formal-verification/FormalVerification.lean)
    (b) flatten(fresh prover.ExtractLean(depth, batch))          [harness/bin/xtool extract d b]
    (c) harness/bin/trace Insertion|Deletion <r> <depth> <batch> [= lean driver trace ...]

can be compared byte for byte.

usage:
    flatten_extraction.py <lean-file> <CircuitDefName>     flat trace of that def, gadgets inlined
    flatten_extraction.py --normalise-trace <trace-file>   recorder trace with the rules below applied
    flatten_extraction.py --list <lean-file>               names / argument shapes of all defs
(<lean-file> or <trace-file> may be '-' for stdin.)

What the flattener does
-----------------------
The extractor's output (extractor/lean_export.go, v2.1.0) is line regular.  A def is

    def Name (Arg: F) (Arg2: Vector (Vector F 30) 4) ... [(k: T -> Prop)]: Prop :=

followed by one line per recorded API call / gadget call, and a last line `k <expr>` or `True`:

    ∃gate_N, Gates.OP a b ... gate_N ∧      "callback" gates: div_unchecked div inv xor or and select
                                            lookup cmp is_zero to_binary from_binary
    ∃gate_N, gate_N = Gates.OP a b ∧        "functional" gates: add mul_acc neg sub mul
    Gates.OP a b ∧                          assertions: eq ne is_bool le
    Gadget a b ... fun gate_N =>            gadget call with a result   (`fun _ =>` if unused)
    Gadget a b ... ∧                        gadget call without result  (abstractor.CallVoid)

Operands are printed in the order in which they were given to the frontend.API method
(CodeExtractor.X(args) = AddApp(OpX, args...), printed by operandExprs in order), so
`Gates.select b i1 i2 out` is `api.Select(b, i1, i2)` and becomes `out = select b i1 i2`;
`Gates.to_binary x n out` is `api.ToBinary(x, n)` (the extractor always prints n, also when the Go
call omitted it) and becomes `vK+n = tobinary x`; `Gates.from_binary vec![b0, b1, ...] out` is
`api.FromBinary(b0, b1, ...)` and becomes `out = frombinary b0 b1 ...`.  Constants are printed as
`(<decimal>:F)` whatever their Go type was (int, uint64, big.Int, nil->0) and become `c:<decimal>`,
exactly what the recorder's Str() prints for Go-level constants.  A variadic Add/Sub/Mul with more
than two operands is printed by the extractor as a chain that re-binds the same gate name
(`∃g, g = Gates.add a b ∧ ∃g, g = Gates.add g c ∧`); it is folded back to the recorder's single
`g = add/3 a b c` line (not exercised by the SMTB circuits).

Every gadget call is inlined at its call site by evaluating the callee's body in an environment that
binds its parameters to the caller's argument values (nested lists of wire/constant names); the
callee's `k <expr>` becomes the value bound to the caller's `fun gate_N =>`.  Gadgets that only
permute (`Rot_64_r ... := k vec![A[63], A[0], ...]`, the byte swap in ToReducedBigEndian) or do
nothing (`ReducedModRCheck_32 ... := True`: 32 < 254 bits, the Go code returns before any API call)
therefore produce no lines -- exactly like the recorder, which runs the real DefineGadget inline.
Wires are numbered as the recorder numbers them: inputs first in the order of the def's parameters,
vectors flattened in index order (outermost index slowest); then one fresh id per value-returning
gate, n consecutive ids for to_binary; assertions and gadget calls allocate nothing.

Checks performed while flattening (any failure is fatal, exit status 2): unknown gadget / gate, wrong
number of operands for a gate, argument shape different from the callee's declared parameter shape,
result shape different from the declared `k` type, index out of range, unbound name, to_binary
result indexed beyond n.  So a change of dimensions in one def cannot silently flatten.

NORMALISATION RULES (applied identically to the flattened text and, via --normalise-trace, to the
recorder text)
--------------------------------------------------------------------------------------------------
NONE.  The set of rules is empty: on the unchanged tree the three texts are byte identical without
any rewriting, for every (depth, batch) tried ((30,4) committed and fresh, (3,2), (2,1), (5,3),
insertion and deletion).  The reasons no rule is needed:

  * the extractor (v2.1.0) performs no simplification at all: CodeExtractor.AssertIsBoolean,
    Or, Select, Xor, Add, ... unconditionally append one App, also when every operand is a constant
    (`Gates.or Input[255] (0:F)`, `Gates.select (0:F) (0:F) gate_1`, `Gates.xor (0:F) (1:F)`,
    `Gates.add (0:F) gate_0`, `Gates.add StartIndex (0:F)` are all kept), and the recorder prints
    every call too (it never answers IsBoolean / ConstantValue in a way the circuits use: the SMTB
    prover code calls neither);
  * the only things missing from the extraction are things that are not API calls: pure Go-level
    wiring (Rot, endianness swaps, padding with Go ints, `allZeroes` lane skipping in KeccakGadget),
    which the recorder does not print either.

--normalise-trace is therefore the identity on well-formed recorder lines; it still parses every line
and re-prints it canonically (and refuses, exit status 2, lines that are not recorder syntax -- in
particular `error ...` / `panic ...` lines), so that the comparison pipeline has one place where a
rule would be added, symmetrically, should a future extractor or recorder version start to elide
calls.  Do not add a rule here without writing down which side drops what and why it is sound.

Known limits of what the comparison can show (not normalisations, properties of the extractor)
--------------------------------------------------------------------------------------------------
  * A gadget body is extracted ONCE per name (struct name + slice lengths + int fields) with
    symbolic inputs and reused for every call site (extractor.DefineGadget / getGadgetByName).  A
    DefineGadget that branches at Go level on the *values* of its operands (constant or not) would
    be mis-represented at the other call sites.  In SMTB the only such branches are `tmp[i] != 0`
    and `allZeroes` in KeccakGadget; they only look at Go ints introduced by the gadget itself and
    at InputData, which is symbolic in the extraction and a wire in every real call, so the bodies
    agree -- and the byte comparison with the recorder (which runs the real code at every call
    site) is precisely the check of that.
  * Go int parameters of a gadget (Depth, BatchSize, Rounds, R, Domain ...) appear only in the def
    NAME (e.g. KeccakGadget_1568_64_24_1568_256_24_1088_1); [5][5]int RotationOffsets does not
    appear at all.  Their effect is visible only through the body, which is what is compared.
"""

import re
import sys

sys.setrecursionlimit(10000)


class FlattenError(Exception):
    pass


# ------------------------------------------------------------------------------------------------
# gate tables: Lean name -> (recorder name, kind, arity)   arity None = checked specially
# ------------------------------------------------------------------------------------------------
CALLBACK = {
    'div_unchecked': ('divunchecked', 2),
    'div': ('div', 2),
    'inv': ('inverse', 1),
    'xor': ('xor', 2),
    'or': ('or', 2),
    'and': ('and', 2),
    'select': ('select', 3),
    'lookup': ('lookup2', 6),
    'cmp': ('cmp', 2),
    'is_zero': ('iszero', 1),
    'to_binary': ('tobinary', 2),
    'from_binary': ('frombinary', 1),
}
FUNCTIONAL = {
    'add': ('add', 2),
    'mul_acc': ('mulacc', 3),
    'neg': ('neg', 1),
    'sub': ('sub', 2),
    'mul': ('mul', 2),
}
ASSERTION = {
    'eq': ('asserteq', 2),
    'ne': ('assertdiff', 2),
    'is_bool': ('assertbool', 1),
    'le': ('assertle', 2),
}

# ------------------------------------------------------------------------------------------------
# parsing
# ------------------------------------------------------------------------------------------------
TOKEN = re.compile(
    r'\s*(?:'
    r'(?P<vec>vec!\[)'
    r'|(?P<rb>\])'
    r'|(?P<comma>,)'
    r'|\((?P<const>-?\d+):F\)'
    r'|(?P<var>[A-Za-z_][A-Za-z_0-9]*)(?P<idx>(?:\[\d+\])*)'
    r'|(?P<int>\d+)'
    r')')

# expression AST:  ('c', 'c:5') | ('i', 5) | ('v', name, (i, j, ...)) | ('vec', [expr, ...])


def parse_exprs(s, where):
    """Parse a whitespace separated sequence of operand expressions."""
    pos = 0
    n = len(s)
    out = []
    stack = []  # open vec! lists
    expect_sep = False  # inside a vec: after an element we need ',' or ']'
    while True:
        while pos < n and s[pos] == ' ':
            pos += 1
        if pos >= n:
            break
        m = TOKEN.match(s, pos)
        if not m or m.end() == pos:
            raise FlattenError('%s: cannot parse operands at ...%r' % (where, s[pos:pos + 40]))
        pos = m.end()
        kind = m.lastgroup
        if kind == 'idx':
            kind = 'var'
        if kind == 'vec':
            if stack and expect_sep:
                raise FlattenError('%s: missing comma in vec!' % where)
            stack.append([])
            expect_sep = False
            continue
        if kind == 'comma':
            if not stack or not expect_sep:
                raise FlattenError('%s: unexpected comma' % where)
            expect_sep = False
            continue
        if kind == 'rb':
            if not stack:
                raise FlattenError('%s: unexpected ]' % where)
            node = ('vec', stack.pop())
            expect_sep = False  # the enclosing level was waiting for an element when this vec! opened
            if pos < n and s[pos] == '[':
                raise FlattenError('%s: indexing a vec! literal is not supported' % where)
        elif kind == 'const':
            node = ('c', 'c:' + str(int(m.group('const'))))
        elif kind == 'int':
            node = ('i', int(m.group('int')))
        else:
            idx = m.group('idx')
            node = ('v', m.group('var'), tuple(int(x) for x in re.findall(r'\d+', idx)) if idx else ())
        if stack:
            if expect_sep:
                raise FlattenError('%s: missing comma in vec!' % where)
            stack[-1].append(node)
            expect_sep = True
        else:
            out.append(node)
    if stack:
        raise FlattenError('%s: unterminated vec![' % where)
    return out


def parse_type(t, where):
    """'F' -> () ; 'Vector (Vector F 30) 4' -> (4, 30)   (outermost dimension first)"""
    t = t.strip()
    if t == 'F':
        return ()
    m = re.fullmatch(r'Vector\s+(F|\(.*\))\s+(\d+)', t)
    if not m:
        raise FlattenError('%s: cannot parse type %r' % (where, t))
    inner = m.group(1)
    if inner != 'F':
        inner = inner[1:-1]
    return (int(m.group(2)),) + parse_type(inner, where)


def split_groups(s, where):
    """Top-level parenthesised groups of a def header."""
    groups = []
    depth = 0
    start = None
    for i, ch in enumerate(s):
        if ch == '(':
            if depth == 0:
                start = i + 1
            depth += 1
        elif ch == ')':
            depth -= 1
            if depth < 0:
                raise FlattenError('%s: unbalanced parentheses in header' % where)
            if depth == 0:
                groups.append(s[start:i])
        elif depth == 0 and not ch.isspace():
            raise FlattenError('%s: unexpected text %r in header' % (where, s[i:i + 20]))
    if depth != 0:
        raise FlattenError('%s: unbalanced parentheses in header' % where)
    return groups


class Def(object):
    __slots__ = ('name', 'params', 'kshape', 'has_k', 'stmts', 'ret', 'line')


HEADER = re.compile(r'^def\s+(\S+)\s*(.*?)\s*:\s*Prop\s*:=\s*$')
ST_CALLBACK = re.compile(r'^∃\s*(\w+)\s*,\s*Gates\.(\w+)\s+(.*)\s(\w+)\s*∧$')
ST_FUNCTIONAL = re.compile(r'^∃\s*(\w+)\s*,\s*(\w+)\s*=\s*Gates\.(\w+)\s+(.*?)\s*∧$')
ST_ASSERT = re.compile(r'^Gates\.(\w+)\s+(.*?)\s*∧$')
ST_CALL_K = re.compile(r'^([A-Za-z_]\w*)\s+(.*?)\s*fun\s+(\w+)\s*=>$')
ST_CALL_VOID = re.compile(r'^([A-Za-z_]\w*)\s+(.*?)\s*∧$')
ST_RET = re.compile(r'^k\s+(.*)$')


def parse_file(text):
    defs = {}
    cur = None
    done = True
    for lineno, raw in enumerate(text.split('\n'), 1):
        line = raw.strip()
        if not line:
            continue
        if line.startswith('def '):
            if not done:
                raise FlattenError('line %d: def %s has no final `k ...`/`True` line' % (cur.line, cur.name))
            m = HEADER.match(line)
            if not m:
                # `def Order : ℕ := 0x...` and the like
                cur = None
                done = True
                continue
            where = 'line %d' % lineno
            cur = Def()
            cur.name = m.group(1)
            cur.line = lineno
            cur.params = []
            cur.has_k = False
            cur.kshape = None
            cur.stmts = []
            cur.ret = None
            for g in split_groups(m.group(2), where):
                if ':' not in g:
                    raise FlattenError('%s: bad parameter %r' % (where, g))
                pname, ptype = g.split(':', 1)
                pname = pname.strip()
                if pname == 'k':
                    km = re.fullmatch(r'\s*(.*?)\s*->\s*Prop\s*', ptype)
                    if not km:
                        raise FlattenError('%s: bad continuation type %r' % (where, ptype))
                    cur.has_k = True
                    cur.kshape = parse_type(km.group(1), where)
                else:
                    if cur.has_k:
                        raise FlattenError('%s: parameter after k' % where)
                    cur.params.append((pname, parse_type(ptype, where)))
            if cur.name in defs:
                raise FlattenError('%s: duplicate def %s' % (where, cur.name))
            defs[cur.name] = cur
            done = False
            continue
        if cur is None or done:
            # prelude / footer lines outside any circuit def
            if cur is not None and done and not re.match(r'^(end|namespace|import|set_option|variable|abbrev)\b', line):
                raise FlattenError('line %d: text after the end of def %s: %r' % (lineno, cur.name, line[:60]))
            continue
        where = 'line %d (%s)' % (lineno, cur.name)
        if line == 'True':
            if cur.has_k:
                raise FlattenError('%s: def with continuation ends in True' % where)
            cur.ret = None
            done = True
            continue
        m = ST_RET.match(line)
        if m and not line.endswith('∧') and not line.endswith('=>'):
            if not cur.has_k:
                raise FlattenError('%s: `k` used in a def without continuation' % where)
            es = parse_exprs(m.group(1), where)
            if len(es) != 1:
                raise FlattenError('%s: k applied to %d operands' % (where, len(es)))
            cur.ret = es[0]
            done = True
            continue
        m = ST_FUNCTIONAL.match(line)
        if m:
            res, res2, op, args = m.groups()
            if res != res2:
                raise FlattenError('%s: binder %s but equation for %s' % (where, res, res2))
            if op not in FUNCTIONAL:
                raise FlattenError('%s: unknown functional gate Gates.%s' % (where, op))
            rname, arity = FUNCTIONAL[op]
            es = parse_exprs(args, where)
            if len(es) != arity:
                raise FlattenError('%s: Gates.%s with %d operands' % (where, op, len(es)))
            prev = cur.stmts[-1] if cur.stmts else None
            if (op in ('add', 'sub', 'mul') and prev is not None and prev[0] == 'gate'
                    and prev[1] == rname and prev[3] == res and es[0] == ('v', res, ())):
                # variadic chain re-binding the same gate name: fold back into one call
                prev[2].append(es[1])
            else:
                cur.stmts.append(['gate', rname, es, res, lineno])
            continue
        m = ST_CALLBACK.match(line)
        if m:
            res, op, args, res2 = m.groups()
            if res != res2:
                raise FlattenError('%s: binder %s but result operand %s' % (where, res, res2))
            if op not in CALLBACK:
                raise FlattenError('%s: unknown gate Gates.%s' % (where, op))
            rname, arity = CALLBACK[op]
            es = parse_exprs(args, where)
            if len(es) != arity:
                raise FlattenError('%s: Gates.%s with %d operands' % (where, op, len(es)))
            if op == 'to_binary':
                if es[1][0] != 'i':
                    raise FlattenError('%s: to_binary width is not an integer literal' % where)
                cur.stmts.append(['tobinary', es[0], es[1][1], res, lineno])
            elif op == 'from_binary':
                cur.stmts.append(['frombinary', es[0], None, res, lineno])
            else:
                cur.stmts.append(['gate', rname, es, res, lineno])
            continue
        m = ST_ASSERT.match(line)
        if m:
            op, args = m.groups()
            if op not in ASSERTION:
                raise FlattenError('%s: unknown assertion Gates.%s' % (where, op))
            rname, arity = ASSERTION[op]
            es = parse_exprs(args, where)
            if len(es) != arity:
                raise FlattenError('%s: Gates.%s with %d operands' % (where, op, len(es)))
            cur.stmts.append(['assert', rname, es, None, lineno])
            continue
        m = ST_CALL_K.match(line)
        if m:
            g, args, res = m.groups()
            cur.stmts.append(['call', g, parse_exprs(args, where), res, lineno])
            continue
        m = ST_CALL_VOID.match(line)
        if m:
            g, args = m.groups()
            cur.stmts.append(['call', g, parse_exprs(args, where), None, lineno])
            continue
        raise FlattenError('%s: unrecognised line %r' % (where, line[:80]))
    if not done:
        raise FlattenError('line %d: def %s has no final `k ...`/`True` line' % (cur.line, cur.name))
    return defs


# ------------------------------------------------------------------------------------------------
# evaluation
# ------------------------------------------------------------------------------------------------
def shape_of(v, where):
    """Shape of a nested list value; raises on ragged values."""
    if isinstance(v, str):
        return ()
    if not v:
        return (0,)
    s0 = shape_of(v[0], where)
    for x in v[1:]:
        if shape_of(x, where) != s0:
            raise FlattenError('%s: ragged vector value' % where)
    return (len(v),) + s0


def flat(v, out):
    if isinstance(v, str):
        out.append(v)
    else:
        for x in v:
            flat(x, out)


class Flattener(object):
    def __init__(self, defs):
        self.defs = defs
        self.next = 0
        self.out = []
        self.opaque = set()

    def fresh(self):
        w = 'v%d' % self.next
        self.next += 1
        return w

    def alloc_input(self, shape):
        if not shape:
            return self.fresh()
        return [self.alloc_input(shape[1:]) for _ in range(shape[0])]

    def ev(self, e, env, where):
        t = e[0]
        if t == 'v':
            try:
                v = env[e[1]]
            except KeyError:
                raise FlattenError('%s: unbound name %s' % (where, e[1]))
            for i in e[2]:
                if isinstance(v, str):
                    raise FlattenError('%s: indexing scalar %s' % (where, e[1]))
                if i >= len(v):
                    raise FlattenError('%s: index %d out of range for %s (size %d)' % (where, i, e[1], len(v)))
                v = v[i]
            return v
        if t == 'c':
            return e[1]
        if t == 'vec':
            return [self.ev(x, env, where) for x in e[1]]
        raise FlattenError('%s: integer literal used as an operand' % where)

    def scalar(self, e, env, where):
        v = self.ev(e, env, where)
        if not isinstance(v, str):
            raise FlattenError('%s: vector used where a field element is expected' % where)
        return v

    def run(self, d, argvals):
        env = {}
        for (pname, _), v in zip(d.params, argvals):
            env[pname] = v
        out = self.out
        for st in d.stmts:
            kind = st[0]
            if kind == 'gate':
                where = 'line %d (%s)' % (st[4], d.name)
                ops = [self.scalar(x, env, where) for x in st[2]]
                w = self.fresh()
                name = st[1] if len(ops) <= 2 or st[1] not in ('add', 'sub', 'mul') else '%s/%d' % (st[1], len(ops))
                out.append('%s = %s %s' % (w, name, ' '.join(ops)))
                env[st[3]] = w
            elif kind == 'call':
                where = 'line %d (%s)' % (st[4], d.name)
                g = self.defs.get(st[1])
                if g is None:
                    raise FlattenError('%s: call of unknown gadget %s' % (where, st[1]))
                if len(st[2]) != len(g.params):
                    raise FlattenError('%s: %s called with %d arguments, declared with %d'
                                       % (where, g.name, len(st[2]), len(g.params)))
                vals = [self.ev(x, env, where) for x in st[2]]
                for v, (pname, pshape) in zip(vals, g.params):
                    s = shape_of(v, where)
                    if s != pshape:
                        raise FlattenError('%s: argument %s of %s has shape %s, declared %s'
                                           % (where, pname, g.name, list(s), list(pshape)))
                base = g.name.split('_')[0]
                if base in self.opaque:
                    # the recorder's opaque-gadget line (harness/recorder: `--opaque=…`): the call is
                    # recorded, the body is not entered.  Poseidon2: scalar result, no parameters;
                    # KeccakGadget_<len>_<lane>_<rc>_<InputSize>_<OutputSize>_<Rounds>_<BlockSize>_<Domain>:
                    # the Go-level parameters are the last five numbers of the specialised name, the
                    # arguments are the wires of InputData (the round constants are Go constants)
                    if base == 'Poseidon2':
                        ops = [self.scalar(x, env, where) for x in st[2]]
                        w = self.fresh()
                        out.append('%s = call Poseidon2 | %s' % (w, ' '.join(ops)))
                        r = w
                    elif base == 'KeccakGadget':
                        nums = g.name.split('_')[1:]
                        if len(nums) != 8 or g.kshape is None or len(g.kshape) != 1:
                            raise FlattenError('%s: unexpected KeccakGadget specialisation %s' % (where, g.name))
                        data = []
                        flat(vals[0], data)
                        n = g.kshape[0]
                        first = self.next
                        r = [self.fresh() for _ in range(n)]
                        out.append('v%d+%d = call KeccakGadget %s |%s' % (first, n, ' '.join(nums[3:]), ''.join(' ' + x for x in data)))
                    else:
                        raise FlattenError('%s: no opaque form for gadget %s' % (where, g.name))
                else:
                    r = self.run(g, vals)
                if st[3] is not None:
                    if not g.has_k:
                        raise FlattenError('%s: result of %s bound but it has no continuation' % (where, g.name))
                    env[st[3]] = r
                elif g.has_k:
                    raise FlattenError('%s: %s has a continuation but is called with ∧' % (where, g.name))
            elif kind == 'assert':
                where = 'line %d (%s)' % (st[4], d.name)
                ops = [self.scalar(x, env, where) for x in st[2]]
                out.append('%s %s' % (st[1], ' '.join(ops)))
            elif kind == 'tobinary':
                where = 'line %d (%s)' % (st[4], d.name)
                x = self.scalar(st[1], env, where)
                n = st[2]
                first = self.next
                env[st[3]] = [self.fresh() for _ in range(n)]
                out.append('v%d+%d = tobinary %s' % (first, n, x))
            elif kind == 'frombinary':
                where = 'line %d (%s)' % (st[4], d.name)
                v = self.ev(st[1], env, where)
                if isinstance(v, str) or any(not isinstance(b, str) for b in v):
                    raise FlattenError('%s: from_binary operand is not a vector of field elements' % where)
                w = self.fresh()
                out.append('%s = frombinary%s' % (w, ''.join(' ' + b for b in v)))
                env[st[3]] = w
            else:
                raise FlattenError('internal: statement kind %s' % kind)
        if d.has_k:
            where = 'line %d (%s)' % (d.line, d.name)
            r = self.ev(d.ret, env, where + ' result')
            s = shape_of(r, where)
            if s != d.kshape:
                raise FlattenError('%s: result has shape %s, continuation declared %s'
                                   % (where, list(s), list(d.kshape)))
            return r
        return None

    def flatten(self, name):
        d = self.defs.get(name)
        if d is None:
            raise FlattenError('no def named %s (have: %s)' % (name, ', '.join(sorted(self.defs))))
        argvals = [self.alloc_input(shape) for _, shape in d.params]
        r = self.run(d, argvals)
        rs = []
        if r is not None:
            flat(r, rs)
        self.out.append('ret' + ''.join(' ' + x for x in rs))
        return self.out


# ------------------------------------------------------------------------------------------------
# recorder-trace normalisation (rule set: empty -- see the module docstring)
# ------------------------------------------------------------------------------------------------
OPERAND = r'(?:v\d+|c:-?\d+)'
TRACE_LINES = [
    re.compile(r'^v\d+ = [a-z0-9]+(?:/\d+)?(?: ' + OPERAND + r')+$'),
    re.compile(r'^v\d+\+\d+ = tobinary ' + OPERAND + r'$'),
    re.compile(r'^assert(?:eq|diff|le) ' + OPERAND + ' ' + OPERAND + r'$'),
    re.compile(r'^assertbool ' + OPERAND + r'$'),
    re.compile(r'^ret(?: ' + OPERAND + r')*$'),
]


def normalise_line(line):
    """Apply the normalisation rules to one line; return None to drop it.  No rules: identity."""
    return line


def normalise_trace(text):
    out = []
    for lineno, line in enumerate(text.split('\n'), 1):
        if line == '':
            continue
        if not any(p.match(line) for p in TRACE_LINES):
            raise FlattenError('trace line %d is not a recorder API-call line: %r' % (lineno, line[:100]))
        line = normalise_line(line)
        if line is not None:
            out.append(line)
    if not out or not out[-1].startswith('ret'):
        raise FlattenError('trace does not end with a ret line')
    return out


def read(path):
    if path == '-':
        return sys.stdin.buffer.read().decode('utf-8')
    with open(path, encoding='utf-8') as f:
        return f.read()


def main(argv):
    try:
        if len(argv) == 3 and argv[1] == '--normalise-trace':
            lines = normalise_trace(read(argv[2]))
        elif len(argv) == 3 and argv[1] == '--list':
            defs = parse_file(read(argv[2]))
            for d in sorted(defs.values(), key=lambda d: d.line):
                print('%s %s%s' % (d.name, ' '.join('%s:%s' % (n, 'x'.join(map(str, s)) or 'F') for n, s in d.params),
                                   (' -> ' + ('x'.join(map(str, d.kshape)) or 'F')) if d.has_k else ''))
            return 0
        elif len(argv) == 4 and argv[1].startswith('--opaque='):
            fl = Flattener(parse_file(read(argv[2])))
            fl.opaque = set(argv[1][len('--opaque='):].split(','))
            lines = fl.flatten(argv[3])
        elif len(argv) == 3 and not argv[1].startswith('--'):
            lines = Flattener(parse_file(read(argv[1]))).flatten(argv[2])
        else:
            sys.stderr.write(__doc__.split('What the flattener does')[0])
            return 2
    except FlattenError as e:
        sys.stderr.write('flatten_extraction: %s\n' % e)
        return 2
    try:
        sys.stdout.write('\n'.join(lines))
        sys.stdout.write('\n')
        sys.stdout.flush()
    except BrokenPipeError:
        return 1
    return 0


if __name__ == '__main__':
    sys.exit(main(sys.argv))
