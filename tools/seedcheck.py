#!/usr/bin/env python3
"""Confirm a candidate mutation (from a sub-agent's scratch worktree) and file it under seeded/.

  tools/seedcheck.py confirm <PROP> <mutdir> [--name N]   verify patch/demo in a fresh worktree, copy to seeded/<N>/
  tools/seedcheck.py detect  <name> [--tier quick]         apply to /repo, run bin/check, undo, record the result
"""
import json, os, shutil, subprocess, sys, time

ENV = dict(os.environ, GOFLAGS='-mod=mod', GOPROXY='off', GOSUMDB='off', GOTOOLCHAIN='local')
FLAKY = ('TestInsertionHappyPath', 'TestInsertionWrongInput', 'TestWrongMethod')


def sh(cmd, cwd=None, timeout=3600):
    p = subprocess.run(cmd, cwd=cwd, env=ENV, shell=isinstance(cmd, str), capture_output=True, text=True, timeout=timeout)
    return p.returncode, (p.stdout + p.stderr)


def demo_cmd(wt):
    d = os.path.join(wt, '_mutation', 'demo')
    files = os.listdir(d)
    if any(f.endswith('_test.go') for f in files):
        return 'go test -count=1 ./_mutation/demo/'
    return 'go run ./_mutation/demo'


def confirm(prop, mutdir, name):
    src = os.path.join(mutdir, '_mutation')
    dst = os.path.join('/verif/seeded', name)
    os.makedirs(dst, exist_ok=True)
    shutil.copyfile(os.path.join(src, 'patch.diff'), os.path.join(dst, 'patch.diff'))
    if os.path.isdir(os.path.join(dst, 'demo')):
        shutil.rmtree(os.path.join(dst, 'demo'))
    shutil.copytree(os.path.join(src, 'demo'), os.path.join(dst, 'demo'))
    if os.path.exists(os.path.join(src, 'README.md')):
        shutil.copyfile(os.path.join(src, 'README.md'), os.path.join(dst, 'README.md'))
    wt = f'/tmp/sv-{name}'
    sh(f'git -C /repo worktree remove --force {wt}')
    rc, out = sh(f'git -C /repo worktree add -q --detach {wt} HEAD')
    assert rc == 0, out
    meta = {'property': prop, 'name': name, 'source': 'independent sub-agent given only the property text and a scratch worktree'}
    try:
        os.makedirs(os.path.join(wt, '_mutation'))
        shutil.copytree(os.path.join(dst, 'demo'), os.path.join(wt, '_mutation', 'demo'))
        dc = demo_cmd(wt)
        rc0, out0 = sh(dc, cwd=wt, timeout=1800)
        meta['demo_cmd'] = dc
        meta['demo_without_change'] = 'pass' if rc0 == 0 else f'FAIL rc={rc0}: {out0[-300:]}'
        rc, out = sh(f'git apply {dst}/patch.diff', cwd=wt)
        meta['patch_applies'] = rc == 0
        rc, out = sh('go build ./...', cwd=wt)
        meta['builds_with_change'] = rc == 0
        rc1, out1 = sh(dc, cwd=wt, timeout=1800)
        meta['demo_with_change'] = 'fails (as intended)' if rc1 != 0 else 'PASSES (mutation not demonstrated)'
        meta['demo_failure_excerpt'] = out1[-400:] if rc1 != 0 else ''
        t0 = time.time()
        rc, out = sh('go test -mod=mod -vet=off -count=1 -timeout 25m ./...', cwd=wt, timeout=2400)
        failed = [l for l in out.split('\n') if l.startswith('--- FAIL')]
        nonflaky = [l for l in failed if not any(f in l for f in FLAKY)]
        meta['suite_with_change'] = {'exit': rc, 'failed': failed, 'non_flaky_failures': nonflaky, 'wall_s': round(time.time() - t0)}
        meta['confirmed'] = bool(meta['patch_applies'] and meta['builds_with_change'] and rc0 == 0 and rc1 != 0 and not nonflaky)
        diff = open(os.path.join(dst, 'patch.diff')).read()
        meta['files_changed'] = sorted({l[6:] for l in diff.split('\n') if l.startswith('+++ b/')})
    finally:
        sh(f'git -C /repo worktree remove --force {wt}')
    readme = os.path.join(dst, 'README.md')
    if os.path.exists(readme):
        meta['needs_to_manifest'] = 'see README.md (written by the sub-agent)'
    json.dump(meta, open(os.path.join(dst, 'meta.json'), 'w'), indent=1)
    print(json.dumps(meta, indent=1)[:1500])


def detect(name, tier):
    if os.path.exists('/tmp/r6/STOP_' + name):
        os.remove('/tmp/r6/STOP_' + name)
        print('skipped', name)
        return
    dst = os.path.join('/verif/seeded', name)
    meta = json.load(open(os.path.join(dst, 'meta.json')))
    prop = meta['property']
    rc, out = sh('git -C /repo status --porcelain')
    assert out.strip() == '', '/repo is not clean: ' + out
    rc, out = sh(f'git -C /repo apply {dst}/patch.diff')
    assert rc == 0, out
    try:
        t0 = time.time()
        rc, out = sh(f'bin/check {prop} --tier {tier}', cwd='/verif', timeout=7200)
        vio = [l for l in out.split('\n') if l.startswith('VIOLATION')]
        meta.setdefault('detection', {})[tier] = {'exit': rc, 'violation_line': vio[0] if vio else None,
                                                  'explanation': next((l for l in out.split('\n') if l.startswith('# ')), '')[:500],
                                                  'wall_s': round(time.time() - t0), 'caught': rc == 1 and bool(vio),
                                                  'with_failing_input': bool(vio) and 'no-failing-input-found' not in vio[0]}
    finally:
        sh('git -C /repo checkout -- . && git -C /repo clean -fdq')
        rc2, out2 = sh('git -C /repo status --porcelain')
        assert out2.strip() == '', 'could not restore /repo: ' + out2
    # evidence files are rewritten by every run: refresh them from the unchanged tree
    if os.environ.get('SEED_NO_RERUN'):
        # the caller re-runs every check on the unchanged tree afterwards (round f: done in one sweep)
        meta['detection'][tier]['clean_tree_after'] = 'checked in the sweep over the unchanged tree that followed the round'
    else:
        rc, out = sh(f'bin/check {prop} --tier quick', cwd='/verif', timeout=7200)
        meta['detection'][tier]['clean_tree_after'] = 'OK' if rc == 0 else f'NOT OK rc={rc}: {out[-300:]}'
    json.dump(meta, open(os.path.join(dst, 'meta.json'), 'w'), indent=1)
    print(name, prop, json.dumps(meta['detection'][tier], indent=1))


if __name__ == '__main__':
    if sys.argv[1] == 'confirm':
        name = sys.argv[sys.argv.index('--name') + 1] if '--name' in sys.argv else sys.argv[2] + '-a'
        confirm(sys.argv[2], sys.argv[3], name)
    else:
        tier = sys.argv[sys.argv.index('--tier') + 1] if '--tier' in sys.argv else 'quick'
        detect(sys.argv[2], tier)
