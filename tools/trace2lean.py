#!/usr/bin/env python3
"""Translate the text of a recorded trace (Go recorder, /verif/harness/recorder) into a Lean term
of type `List Smtb.TLine`.

  tools/trace2lean.py <defname> < trace.txt      prints Lean definitions `<defname>` (+ chunks)

The translation is the inverse of `Smtb.TLine.render` (Smtb/Circuit/Trace.lean), line by line; a
line it cannot parse becomes `.text`, which can only make the kernel comparison with the model's
trace fail (never succeed wrongly: the comparison is an equality of `List TLine` terms).
"""
import re, sys

CHUNK = 150


def tv(tok):
    if tok.startswith('c:'):
        return f'.c {int(tok[2:])}'
    if tok.startswith('v') and tok[1:].isdigit():
        return f'.v {int(tok[1:])}'
    raise ValueError(tok)


def tvs(toks):
    return '[' + ', '.join(tv(t) for t in toks) + ']'


def lit(s):
    return '"' + s.replace('\\', '\\\\').replace('"', '\\"') + '"'


def line(l):
    try:
        toks = l.split(' ')
        if toks[0] == 'assertbool' and len(toks) == 2:
            return f'.assertBool ({tv(toks[1])})'
        if toks[0] == 'asserteq' and len(toks) == 3:
            return f'.assertEq ({tv(toks[1])}) ({tv(toks[2])})'
        m = re.fullmatch(r'v(\d+)\+(\d+)', toks[0])
        if m and toks[1] == '=' and toks[2] == 'tobinary' and len(toks) == 4:
            return f'.toBinary {int(m.group(1))} {int(m.group(2))} ({tv(toks[3])})'
        if m and toks[1] == '=' and toks[2] == 'call' and '|' in toks:
            k = toks.index('|')
            params = '[' + ', '.join(str(int(t)) for t in toks[4:k]) + ']'
            return f'.callN {int(m.group(1))} {int(m.group(2))} {lit(toks[3])} {params} {tvs(toks[k + 1:])}'
        m = re.fullmatch(r'v(\d+)', toks[0])
        if m and toks[1] == '=':
            r = int(m.group(1))
            if toks[2] == 'frombinary':
                return f'.fromBinary {r} {tvs(toks[3:])}'
            if toks[2] == 'call' and '|' in toks:
                k = toks.index('|')
                params = '[' + ', '.join(str(int(t)) for t in toks[4:k]) + ']'
                return f'.call1 {r} {lit(toks[3])} {params} {tvs(toks[k + 1:])}'
            if re.fullmatch(r'[a-z]+', toks[2]):
                return f'.op {r} {lit(toks[2])} {tvs(toks[3:])}'
    except (ValueError, IndexError):
        pass
    return f'.text {lit(l)}'


def main():
    name = sys.argv[1]
    lines = sys.stdin.read().split('\n')
    if lines and lines[-1] == '':
        lines.pop()
    chunks = [lines[i:i + CHUNK] for i in range(0, len(lines), CHUNK)] or [[]]
    out = []
    for i, ch in enumerate(chunks):
        out.append(f'def {name}_{i} : List TLine := [')
        out.append(',\n'.join('  ' + line(l) for l in ch))
        out.append(']')
    out.append(f'def {name} : List TLine := ' + ' ++ '.join(f'{name}_{i}' for i in range(len(chunks))))
    print('\n'.join(out))


if __name__ == '__main__':
    main()
