#!/usr/bin/env python3
"""Record the tree the ties were last validated on: sha256 of every non-test Go file (and the
committed Lean extraction) of /repo.  The checks compare the tree under test with this list and
widen the quick tier when they differ (checks/common.py: Ctx.pick).  Run after every change to /repo
that is part of the deliverable (fix: commits), on a clean tree whose checks pass."""
import json, os, subprocess, sys
sys.path.insert(0, os.path.dirname(os.path.dirname(os.path.abspath(__file__))))
from checks import common
head = subprocess.run(['git', '-C', common.REPO, 'rev-parse', 'HEAD'], capture_output=True, text=True).stdout.strip()
dirty = subprocess.run(['git', '-C', common.REPO, 'status', '--porcelain'], capture_output=True, text=True).stdout.strip()
if dirty:
    sys.exit('refusing: /repo has uncommitted changes:\n' + dirty)
out = {'repo_commit': head, 'files': common.repo_file_hashes()}
json.dump(out, open(os.path.join(common.ROOT, 'baseline', 'repo_files.json'), 'w'), indent=1, sort_keys=True)
print(f'{len(out["files"])} files at {head}')
